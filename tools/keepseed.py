"""tools/keepseed.py <PROP> <srcdir> <id> <detected:yes|no> "<needs>" -- store a confirmed seeded change under /verif/seeded/<id>/"""
import json, os, shutil, sys
prop, src, sid, detected, needs = sys.argv[1:6]
d = os.path.join('/verif/seeded', sid)
os.makedirs(d, exist_ok=True)
for f in os.listdir(src):
    shutil.copy(os.path.join(src, f), d)
notes = open(os.path.join(src, 'notes.txt')).read() if os.path.exists(os.path.join(src, 'notes.txt')) else ''
json.dump(dict(property=prop, id=sid, needs_to_manifest=needs, author='independent sub-agent given only the property text',
               confirmed='demo fails with patch and passes without (scratch worktree); repository suite unchanged (210 stable pass) per agent run',
               ran='git -C /repo apply patch.diff; ./check %s --tier quick; git -C /repo checkout -- .' % prop,
               detected_by_quick_check=(detected == 'yes'), notes=notes), open(os.path.join(d, 'meta.json'), 'w'), indent=1)
print('kept', d)
