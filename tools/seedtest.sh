#!/bin/sh
# tools/seedtest.sh <PROP> <dir with patch.diff> [tier]   -- apply a seeded change to /repo, run the check, undo
P=$1; D=$2; T=${3:-quick}
git -C /repo status --short | grep -q . && { echo "/repo not clean"; exit 3; }
git -C /repo apply "$D/patch.diff" || exit 3
/verif/check $P --tier $T > /tmp/seedtest.$$.log 2>&1; rc=$?
git -C /repo checkout -- .
grep -E "VIOLATION|KNOWN|MACHINERY|^# C" /tmp/seedtest.$$.log | cut -c1-300 | head -8
echo "exit=$rc"; rm -f /tmp/seedtest.$$.log
