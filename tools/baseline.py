"""Run the repository's pinned test suite (guard off) and compare with /root/.vp/BASELINE.json."""
import json, os, subprocess, sys, tempfile, xml.etree.ElementTree as ET
base = json.load(open('/root/.vp/BASELINE.json'))
out = tempfile.mktemp(suffix='.xml')
env = dict(os.environ); env.pop('THERMOSTEAM_VERIF', None)
subprocess.run(base['cmd'].replace('<file>', out), shell=True, env=env, stdout=subprocess.DEVNULL, stderr=subprocess.DEVNULL)
passed = set()
for tc in ET.parse(out).getroot().iter('testcase'):
    if not any(c.tag in ('failure', 'error', 'skipped') for c in tc):
        passed.add(tc.get('classname') + '::' + tc.get('name'))
os.remove(out)
missing = [t for t in base['stable_pass'] if t not in passed]
print('baseline: %d/%d stable tests pass' % (len(base['stable_pass']) - len(missing), len(base['stable_pass'])))
for m in missing: print('  NOT PASSING:', m)
sys.exit(1 if missing else 0)
