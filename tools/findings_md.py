"""tools/findings_md.py -- regenerate DESIGN.md section 11.11 (open findings) from known_findings.json."""
import json
d = json.load(open('/verif/known_findings.json'))
L = d if isinstance(d, list) else d['findings']
known = [e for e in L if e.get('status') == 'known']
fixed = [e for e in L if e.get('status') == 'fixed']
lines = ['', '### 11.11 Findings open at the end of the build (from `known_findings.json`; %d open keys, %d repaired)' % (len(known), len(fixed)),
         'Each open entry names the call site, input class and clause it covers (glob key); anything else that fails the same property is still',
         'reported as a VIOLATION.  One line per key:', '']
for e in sorted(known, key=lambda e: (e['property'], e['key'])):
    w = e['what'].replace('\n', ' ')
    w = w if len(w) <= 230 else w[:227] + '...'
    lines.append('* %s `%s` - %s' % (e['property'], e['key'], w))
lines.append('')
lines.append('Repaired (`fixed:` entries, each with its commit): ' + '; '.join(sorted({'%s %s' % (e['property'], e.get('commit', '')) for e in fixed})) + '.')
s = open('/verif/DESIGN.md').read().rstrip('\n')
if '\n### 11.11 ' in s:
    s = s[:s.index('\n### 11.11 ')]
open('/verif/DESIGN.md', 'w').write(s + '\n' + '\n'.join(lines) + '\n')
print(len(known), 'open,', len(fixed), 'repaired')
