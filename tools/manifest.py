"""Regenerate /verif/MANIFEST.json from harness/registry.py (single source of truth)."""
import json, os, sys
sys.path.insert(0, os.path.dirname(os.path.dirname(os.path.abspath(__file__))))
from harness import registry
props = [json.loads(l) for l in open(os.path.join(registry.VERIF, 'properties.jsonl'))]
checks, na, engines = [], [], {}
for p in props:
    pid = p['id']
    r = registry.CHECKS.get(pid)
    if r is None:
        na.append(dict(property_id=pid, reason=registry.NOT_YET.get(pid, 'check not built yet (work in progress; see DESIGN.md section 10)')))
        continue
    checks.append(dict(
        property_id=pid,
        quick_cmd='./check %s --tier quick' % pid,
        thorough_cmd='./check %s --tier thorough' % pid,
        evidence_file='/verif/evidence/%s.json' % pid,
        replay_cmd_template='./check %s --replay {path}' % pid,
        engine=r['engine'],
        level_claimed=dict(category=r['category'], text=r['text'], design_ref=r.get('design_ref', 'DESIGN.md section 4 ' + pid)),
        level_note=r['note'],
        technique=r['technique']))
    engines.setdefault(r['engine'], []).append(pid)
m = dict(version=1,
         setup_cmd='/venv/bin/python -c "import thermosteam" && java -cp /opt/veriftools/tla/tla2tools.jar tlc2.TLC -h >/dev/null 2>&1; true',
         hooks=dict(guard='THERMOSTEAM_VERIF', enable='THERMOSTEAM_VERIF=1 in the environment (set by ./check); no in-source hooks are needed at present, drivers read public/underscore attributes',
                    baseline_off_cmd='/venv/bin/python /verif/tools/baseline.py', source_commits=[], add_only=True),
         engines=[dict(name=n, path='/verif/spec/%s.tla' % n, serves_properties=ps,
                       kind_free_text='explicit TLA+ specification model-checked by TLC; bound to the implementation by TLC trace validation of executions recorded by /verif/harness/drivers')
                  for n, ps in sorted(engines.items())],
         checks=checks, notes=registry.NOTES, not_applicable=na)
json.dump(m, open(os.path.join(registry.VERIF, 'MANIFEST.json'), 'w'), indent=1)
print('MANIFEST: %d checks, %d not applicable' % (len(checks), len(na)))
