"""tools/selftest.py -- binding self-test of the trace validators.

For each specification module a hand-written recorded step that satisfies the contract must be ACCEPTED and the same step with one
logged field corrupted must be REJECTED with the expected clause.  This demonstrates that the TLC trace validation constrains the
recorded values (not only the length of a trace).  Exit 0 if every expectation holds."""
import copy
import sys

sys.path.insert(0, '/verif')
from harness import tlc                                                       # noqa: E402
from harness.drivers import (activity, bubbledew, energy, flash, liquideq, phaseeq, reactenergy, separations)   # noqa: E402

OK = 'ok'
cases = []      # (module, constants, mode, init, step, expected clause or OK)


def add(mod, consts, init, step, expect, mode='seq'):
    cases.append((mod, consts, mode, init, step, expect))


# ---- Energy (C02) ------------------------------------------------------------------------------------------------------
st = dict(H=dict(a=1000, b=2000, c=0, d=0), P=dict(a=101325, b=50000, c=101325, d=101325), E=dict(a=False, b=False, c=True, d=True))
post = copy.deepcopy(st)
post['H']['c'], post['P']['c'], post['E']['c'] = 3500, 50000, False
good = dict(op='mix', a=dict(r='c', ins=['a', 'b'], Q=500, reach=True), post=post, obs=dict(exc='none', tol=2, Ttol_ok=True, readback=0, T_in_range=True, cls='l'))
add('Energy', energy.tla_constants(), st, good, OK)
bad = copy.deepcopy(good); bad['post']['H']['c'] = 3000
add('Energy', energy.tla_constants(), st, bad, 'mix.enthalpy')
bad = copy.deepcopy(good); bad['post']['P']['c'] = 101325
add('Energy', energy.tla_constants(), st, bad, 'mix.pressure')

# ---- PhaseEq (C03) -----------------------------------------------------------------------------------------------------
n = len(phaseeq.IDS)
z = [0] * n
tab = dict(g=list(z), l=[10 ** 8, 10 ** 8, 0, 0, 10 ** 8, 0, 0], L=list(z), s=list(z))
after = dict(g=[4 * 10 ** 7, 7 * 10 ** 7, 0, 0, 10 ** 8, 0, 0], l=[6 * 10 ** 7, 3 * 10 ** 7, 0, 0, 0, 0, 0], L=list(z), s=list(z))
good = dict(op='vle', a=dict(kind='TP', kw={}), post=dict(tab=after), obs=dict(exc='none', msg=''))
add('PhaseEq', phaseeq.tla_constants(), dict(tab=tab), good, OK)
bad = copy.deepcopy(good); bad['post']['tab']['g'][0] += 100
add('PhaseEq', phaseeq.tla_constants(), dict(tab=tab), bad, 'material.not_conserved')
bad = copy.deepcopy(good); bad['post']['tab']['g'][4] = 9 * 10 ** 7; bad['post']['tab']['l'][4] = 10 ** 7
add('PhaseEq', phaseeq.tla_constants(), dict(tab=tab), bad, 'locked.gas_only_in_liquid')
bad = copy.deepcopy(good); bad['post']['tab']['g'][0] = 11 * 10 ** 7; bad['post']['tab']['l'][0] = -10 ** 7
add('PhaseEq', phaseeq.tla_constants(), dict(tab=tab), bad, 'material.negative_flow')

# ---- BubbleDew (C08): A = (1, 4, 3, 2, 4); w = (1, 1, 0, 0, 0) at 300 K: P_bubble = 300 * 5 / 2 = 750 kPa, y = (1/5, 4/5) -------
w = [1, 1, 0, 0, 0]
good = dict(op='bubble_P', a=dict(w=w, T=300, scaled=False, permuted=False), post=dict(w=w),
            obs=dict(exc='none', msg='', T6=300000000, P6=750000000, c9=[200000000, 800000000, 0, 0, 0]))
add('BubbleDew', bubbledew.tla_constants(), dict(w=w), good, OK, 'fan')
bad = copy.deepcopy(good); bad['obs']['P6'] += 5000
add('BubbleDew', bubbledew.tla_constants(), dict(w=w), bad, 'exact.bubble_pressure', 'fan')
bad = copy.deepcopy(good); bad['obs']['c9'][0] += 1000
add('BubbleDew', bubbledew.tla_constants(), dict(w=w), bad, 'exact.vapour_composition', 'fan')

# ---- Flash (C04): w = (1, 1, 0, 0, 0), T / P = 300 / 600: K = (1/2, 2); x = (2/3, 1/3), V = 1/2 gives z = (1/2, 1/2) ------------
a = dict(w=w, T=300, P=600, region='two', x=[[2, 3], [1, 3], [0, 1], [0, 1], [0, 1]], V=[1, 2], scaled=False, again=False)
zero = dict(w=[0] * 5, c=[1, 1])
good = dict(op='tp_exact', a=a, post=zero, obs=dict(exc='none', msg='', T6=300000000, P6=600000000, vf9=[333333333, 666666667, 0, 0, 0]))
add('Flash', flash.tla_constants(), zero, good, OK, 'fan')
bad = copy.deepcopy(good); bad['obs']['vf9'][0] += 100000
add('Flash', flash.tla_constants(), zero, bad, 'exact.split_differs_from_rachford_rice', 'fan')
bad = copy.deepcopy(good); bad['a']['V'] = [1, 3]          # a proposal that does not solve Rachford-Rice is out of contract, not judged
add('Flash', flash.tla_constants(), zero, bad, 'stepooc', 'fan')

# ---- LiquidEq (C15) -------------------------------------------------------------------------------------------------------
init = dict(T=0, z='none', cs='none')
obs = dict(exc='none', msg='', two=True, act=100, same=0, fresh=0, scale=0, top_ok=True, neg=False, method='shgo', n=3, scale_tol=1000000)
good = dict(op='lle', a=dict(T=1, z='z1', cs='c1', uc=True), post=dict(T=1, z='z1', cs='c1'), obs=obs)
add('LiquidEq', liquideq.tla_constants(), init, good, OK)
bad = copy.deepcopy(good); bad['obs']['same'] = 5 * 10 ** 6
add('LiquidEq', liquideq.tla_constants(), init, bad, 'lle.reuse_differs_from_fresh_solve')
bad = copy.deepcopy(good); bad['obs']['top_ok'] = False
add('LiquidEq', liquideq.tla_constants(), init, bad, 'lle.top_chemical_in_wrong_phase')
bad = copy.deepcopy(good); bad['obs']['fresh'] = 5 * 10 ** 6
add('LiquidEq', liquideq.tla_constants(), init, bad, 'lle.differs_from_new_stream')
sobs = dict(exc='none', msg='', moved_other=False, x6=100000, xmax6=-1, solid=6 * 10 ** 7, liquid=4 * 10 ** 7, pure=False, above=False, fresh=0)
sgood = dict(op='sle', a=dict(solute='AdipicAcid', T=300000, given=False, pure=False, first=False), post=init, obs=sobs)
add('LiquidEq', liquideq.tla_constants(), init, sgood, OK)
bad = copy.deepcopy(sgood); bad['obs']['fresh'] = 2 * 10 ** 7
add('LiquidEq', liquideq.tla_constants(), init, bad, 'sle.differs_from_new_stream')

# ---- Activity (C16) -------------------------------------------------------------------------------------------------------
obs = dict(exc='none', msg='', unchanged=True, nogroup_dev=0, ideal_dev=0, pure_dev=0, gd=10, perm=0, form=0)
good = dict(op='eval', a=dict(model='UNIFAC', kind='interior'), post=dict(n=0), obs=obs)
add('Activity', activity.tla_constants(), dict(n=0), good, OK, 'fan')
bad = copy.deepcopy(good); bad['obs']['unchanged'] = False
add('Activity', activity.tla_constants(), dict(n=0), bad, 'sideeffect.composition_modified', 'fan')
bad = copy.deepcopy(good); bad['obs']['gd'] = 10 ** 7
add('Activity', activity.tla_constants(), dict(n=0), bad, 'consistency.gibbs_duhem', 'fan')

# ---- Separations (C20) ----------------------------------------------------------------------------------------------------
nc = len(separations.IDS)
m = {s_: [0] * nc for s_ in separations.SLOTS}
m['a'] = [4000, 8000, 0, 0, 0, 0]
m['b'] = [4000, 0, 0, 0, 0, 0]
post = copy.deepcopy(m)
post['c'] = [4000, 2000, 0, 0, 0, 0]
post['d'] = [4000, 6000, 0, 0, 0, 0]
half, quarter = [1, 2], [1, 4]
good = dict(op='mix_and_split', a=dict(ins=['a', 'b'], top='c', bot='d', split=[half, quarter, half, half, half, half], plain=True), post=dict(m=post),
            obs=dict(exc='none', msg='', reported=False, kdev=0, mc6=0, dev=0, resid=0, comp_dev=0))
add('Separations', separations.tla_constants(), dict(m=m), good, OK)
bad = copy.deepcopy(good); bad['post']['m']['d'][1] = 5000
add('Separations', separations.tla_constants(), dict(m=m), bad, 'balance.mix_and_split')
bad = copy.deepcopy(good); bad['post']['m']['c'][1] = 3000; bad['post']['m']['d'][1] = 5000
add('Separations', separations.tla_constants(), dict(m=m), bad, 'target.split')

# ---- ReactEnergy (C06): A + B/2 -> C at 298.15 K in the gas phase, phase-less, X = 1/2: chemicals A, B gas-reference, C liquid ---------
hf = [p['Hf'] for p in reactenergy.CHEM]
zrow = [[0, 1]] * 5
item = reactenergy.item_record(2, 1, reactenergy.F(1, 2), [])         # 2A + B -> 2D, reactant A  (all three reference-gas)
rs = dict(kind='single', basis='mol', items=[item])
m0 = dict(g=[[2, 1], [2, 1], [0, 1], [0, 1], [0, 1]], l=list(zrow), s=list(zrow))
m1 = dict(g=[[1, 1], [3, 2], [0, 1], [1, 1], [0, 1]], l=list(zrow), s=list(zrow))
init = dict(kind='g', m=m0, d3=0, rs=rs, hf=hf)
# Hnet before = 0 (Hf of A, B = 0 at T_ref); after: 1 kmol/hr of D at -250 J/mol = -250 kJ/hr -> -25000 in 1e-2 units
good = dict(op='react', a=dict(x=0), post=dict(kind='g', m=m1, d3=0, rs=rs, hf=hf), obs=dict(exc='none', Hnet0=0, Hnet1=-25000, dH=0))
add('ReactEnergy', reactenergy.tla_constants(), init, good, OK)
bad = copy.deepcopy(good); bad['obs']['Hnet1'] = -20000
add('ReactEnergy', reactenergy.tla_constants(), init, bad, 'hnet.after')
bad = copy.deepcopy(good); bad['post']['m']['g'][3] = [2, 1]
add('ReactEnergy', reactenergy.tla_constants(), init, bad, 'react.material')
good_dh = dict(op='dH', a=dict(j=1), post=init, obs=dict(exc='none', Hnet0=0, Hnet1=0, dH=-12500))      # X sum nu Hf = 1/2 * (-250)
add('ReactEnergy', reactenergy.tla_constants(), init, good_dh, OK)
bad = copy.deepcopy(good_dh); bad['obs']['dH'] = -25000
add('ReactEnergy', reactenergy.tla_constants(), init, bad, 'dH.value')

# ---- Naming (X01): two objects; o1 takes the name "a" while o2 holds it (not marked safe): the warning "replaced" is due ----------------
from harness.drivers import naming, chemset                                   # noqa: E402
nm0 = dict(data=[['a', 'o2']], id=dict(o1='', o2='a'), ticket=0, safe=[], reg=['o2'], ctx=[[]])
nm1 = dict(data=[['a', 'o1']], id=dict(o1='a', o2='a'), ticket=0, safe=[], reg=['o1', 'o2'], ctx=[['o1']])
good = dict(op='set_id', a=dict(o='o1', kind='name', v='a'), post=nm1, obs=dict(exc='none', warn='replaced', res='none', level=[]))
add('Naming', naming.tla_constants(['o1', 'o2']), nm0, good, OK)
bad = copy.deepcopy(good); bad['obs']['warn'] = 'none'
add('Naming', naming.tla_constants(['o1', 'o2']), nm0, bad, 'warning')
bad = copy.deepcopy(good); bad['post']['data'] = [['a', 'o2']]
add('Naming', naming.tla_constants(['o1', 'o2']), nm0, bad, 'registry')
bad = copy.deepcopy(good); bad['post']['ctx'] = [[]]
add('Naming', naming.tla_constants(['o1', 'o2']), nm0, bad, 'context_levels')
auto = dict(op='set_id', a=dict(o='o1', kind='auto', v=0), post=dict(data=[['a', 'o2'], ['s1', 'o1']], id=dict(o1='s1', o2='a'), ticket=1, safe=[], reg=['o1', 'o2'], ctx=[['o1']]),
            obs=dict(exc='none', warn='none', res='none', level=[]))
add('Naming', naming.tla_constants(['o1', 'o2']), nm0, auto, OK)
bad = copy.deepcopy(auto); bad['post']['ticket'] = 2; bad['post']['id']['o1'] = 's2'; bad['post']['data'] = [['a', 'o2'], ['s2', 'o1']]
add('Naming', naming.tla_constants(['o1', 'o2']), nm0, bad, 'registry')

# ---- ChemSet (X02): p = compiled (A, B) with alias x -> A; q empty ------------------------------------------------------------------
tabp = [['A', 'chem', 'A'], ['B', 'chem', 'B'], ['x', 'chem', 'A']]
cs0 = dict(col=dict(p=dict(ids=['A', 'B'], compiled=True, tab=tabp), q=dict(ids=[], compiled=False, tab=[])), cal=dict(A=['x'], B=[]))
cs1 = copy.deepcopy(cs0); cs1['col']['p']['tab'] = tabp + [['g', 'group', ['A', 'B']]]
good = dict(op='define_group', a=dict(p='p', k='g', ns=['x', 'B']), post=cs1, obs=dict(exc='none', res='none'))
add('ChemSet', chemset.tla_constants(['A', 'B']), cs0, good, OK)
bad = copy.deepcopy(good); bad['post']['col']['p']['tab'][-1] = ['g', 'group', ['B', 'A']]
add('ChemSet', chemset.tla_constants(['A', 'B']), cs0, bad, 'name_table')
clash = dict(op='set_alias', a=dict(p='p', n='B', k='x'), post=cs0, obs=dict(exc='ValueError', res='none'))
add('ChemSet', chemset.tla_constants(['A', 'B']), cs0, clash, OK)
bad = copy.deepcopy(clash); bad['obs']['exc'] = 'none'
add('ChemSet', chemset.tla_constants(['A', 'B']), cs0, bad, 'not_refused')
idx = dict(op='index', a=dict(p='p', n='x'), post=cs0, obs=dict(exc='none', res=[1]))
add('ChemSet', chemset.tla_constants(['A', 'B']), cs0, idx, OK)
bad = copy.deepcopy(idx); bad['obs']['res'] = [2]
add('ChemSet', chemset.tla_constants(['A', 'B']), cs0, bad, 'result')


def main():
    failures = 0
    by_mod = {}
    for k, c in enumerate(cases):
        by_mod.setdefault(c[0], []).append((k, c))
    for mod, lst in by_mod.items():
        defs, cfgc = lst[0][1][1]
        traces = [dict(id='T%d' % k, mode=c[2], init=c[3], steps=[c[4]]) for k, c in lst]
        v = tlc.validate_traces(mod, defs, cfgc, traces, procs=4)
        for k, c in lst:
            x = v['T%d' % k]
            if c[2] == 'fan':
                got = x['stepfail'][0][1] if x['stepfail'] else ('stepooc' if x['stepooc'] else OK)
            else:
                got = x['clause'] if x['code'] == 'rejected' else ('stepooc' if x['stepooc'] else OK)
            flag = 'pass' if got == c[5] else 'FAIL'
            failures += flag == 'FAIL'
            print('%-12s %-5s expected %-45s got %s' % (mod, flag, c[5], got))
    print('selftest: %d cases, %d failures' % (len(cases), failures))
    return 1 if failures else 0


if __name__ == '__main__':
    sys.exit(main())
