#!/bin/sh
# tools/seedtest2.sh <PROP> <dir with patch.diff> [tier]  -- like seedtest.sh but on a scratch worktree (does not touch /repo,
# evidence/ or replay/), so that several seeded changes can be tried while other checks run
P=$1; D=$2; T=${3:-quick}
W=/tmp/st2-$$
git -C /repo worktree add --detach $W HEAD -q || exit 3
git -C $W apply "$D/patch.diff" || { git -C /repo worktree remove --force $W; exit 3; }
VERIF_REPO=$W VERIF_OUT=$W/.verifout /verif/check $P --tier $T > $W.log 2>&1; rc=$?
git -C /repo worktree remove --force $W
grep -E "VIOLATION|KNOWN|MACHINERY|^# C" $W.log | cut -c1-300 | head -8
echo "exit=$rc"; rm -f $W.log
