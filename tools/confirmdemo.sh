#!/bin/sh
# tools/confirmdemo.sh <dir with patch.diff, demo.py>  -- demo on a clean and on a patched scratch worktree of /repo
D=$1; W=/tmp/cd-$$
git -C /repo worktree add --detach $W HEAD -q || exit 3
run() { (cd $W && NUMBA_DISABLE_JIT=1 DISABLE_PREFERENCES=1 PYTHONPATH=$W /venv/bin/python -W ignore $D/demo.py >/dev/null 2>&1; echo $?); }
a=$(run); git -C $W apply $D/patch.diff || a="$a(apply failed)"; b=$(run)
git -C /repo worktree remove --force $W
echo "$D clean=$a patched=$b"
