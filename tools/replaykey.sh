#!/bin/sh
# tools/replaykey.sh <PROP> <key>  -- replay the stored violation with that key
H=$(printf "%s" "$2" | sha1sum | cut -c1-10)
/verif/check $1 --replay /verif/replay/$1-$H.json 2>&1 | grep -v "^$" | cut -c1-900
