"""tools/validate.py -- MANIFEST.json and every evidence file against the schemas in /root/.vp; evidence level = claimed level."""
import glob
import json
import sys

import jsonschema

ok = True
ev_schema = json.load(open('/root/.vp/EVIDENCE.schema.json'))
m = json.load(open('/verif/MANIFEST.json'))
jsonschema.validate(m, json.load(open('/root/.vp/MANIFEST.schema.json')))
for c in m['checks']:
    f = '/verif/evidence/%s.json' % c['property_id']
    try:
        d = json.load(open(f))
        jsonschema.validate(d, ev_schema)
        if d['level'] != c['level_claimed']['category']:
            raise ValueError('level %s but claimed %s' % (d['level'], c['level_claimed']['category']))
    except Exception as e:
        ok = False
        print('INVALID', f, str(e)[:300])
print('manifest and %d evidence files valid' % len(m['checks']) if ok else 'problems found')
sys.exit(0 if ok else 1)
