------------------------------ MODULE IdealVLE ------------------------------
(* Shared definitions: ideal mixtures of synthetic chemicals with Psat_i = A[i] T (kPa), as exact rationals;
   fixed-point comparison by long division (TLC integers are 32-bit). *)
EXTENDS Fx, FiniteSets, TLC
CONSTANTS NC, A              \* A[i]: Psat_i = A[i] * T   (kPa/K; pressures are in kPa throughout)
Chems == 1..NC
Pow1000(k) == CASE k = 0 -> 1 [] k = 1 -> 1000 [] k = 2 -> 1000000 [] k = 3 -> 1000000000
RECURSIVE SumF(_, _)
SumF(F(_), n) == IF n = 0 THEN Zero ELSE RAdd(F(n), SumF(F, n - 1))
W(v) == SumF(LAMBDA i : R(v[i]), NC)
SWA(v) == SumF(LAMBDA i : R(v[i] * A[i]), NC)
SWoA(v) == SumF(LAMBDA i : <<v[i], A[i]>>, NC)          \* sum w_i / A_i  (RAdd normalises)
BubbleP(T, v) == RDiv(RMul(R(T), SWA(v)), W(v))
DewP(T, v) == RDiv(RMul(R(T), W(v)), SWoA(v))
BubbleT(P, v) == RDiv(RMul(P, W(v)), SWA(v))            \* P rational
DewT(P, v) == RDiv(RMul(P, SWoA(v)), W(v))
Y(v, i) == RDiv(R(v[i] * A[i]), SWA(v))
X(v, i) == RDiv(RNorm(<<v[i], A[i]>>), SWoA(v))
Present(v) == {i \in Chems : v[i] > 0}
\* floor(q * 1000^k) for a non-negative rational q, by long division (TLC integers are 32-bit: no product exceeds den * 1000)
RECURSIVE Digits(_, _, _)
Digits(r, den, k) == IF k = 0 THEN 0 ELSE ((r * 1000) \div den) * Pow1000(k - 1) + Digits((r * 1000) % den, den, k - 1)
Fix(q, k) == (q[1] \div q[2]) * Pow1000(k) + Digits(q[1] % q[2], q[2], k)
Near(o, q, k, tol) == Abs(o - Fix(q, k)) <= tol + 1
=============================================================================
