------------------------------ MODULE LiquidEq ------------------------------
(***************************************************************************)
(* Liquid-liquid and solid-liquid equilibrium calls (C15;                  *)
(* thermosteam/equilibrium/lle.py, sle.py, utils/cache.py).                *)
(*                                                                         *)
(* Part 1 - the memory of an LLE solver object.  A stream keeps one LLE    *)
(* object; each call remembers the chemicals, temperature and composition  *)
(* it was made for and the partition coefficients K it produced; a later   *)
(* call may REUSE the remembered K instead of solving when it is "the same *)
(* call".  K is modelled as a token naming the (T, z, chemicals) it is the *)
(* equilibrium of.  C15 demands that a call never returns the equilibrium  *)
(* of an earlier temperature or composition: the token returned is always  *)
(* the current call's (Fresh).  Deviations = {"T_test_one_sided"} is the   *)
(* reuse test as originally written (T - T_remembered < tol, no absolute   *)
(* value): Fresh fails for a colder call.  Temperatures and compositions   *)
(* of the model are further apart than the reuse tolerances.               *)
(*                                                                         *)
(* Part 2 - contracts for recorded executions: every lle call is made on   *)
(* a stream that may reuse and on a twin that may not (same history) and   *)
(* on a scaled twin; sle calls log the tables.  TLC decides each clause    *)
(* from the logged integers.                                               *)
(***************************************************************************)
EXTENDS Integers, Sequences, FiniteSets, TLC

CONSTANTS Temps, Comps, ChemSets, Deviations, Ops,
          ActTol,      \* allowed relative difference of activities between the liquids, 1e-6
          SameTol,     \* allowed difference between the reusing stream and its twin, in quanta (1e-8 of each chemical's total)
          ScaleTol     \* allowed relative deviation from proportionality, 1e-9
VARIABLES mem, last, path
None == "none"
NoMem == [T |-> 0, z |-> None, cs |-> None]
Tok(T, z, cs) == [T |-> T, z |-> z, cs |-> cs]
\* the trace state is what can be read off the real solver object: the call it remembers
S == [T |-> mem.T, z |-> mem.z, cs |-> mem.cs]
SetS(t) == mem' = [T |-> t.T, z |-> t.z, cs |-> t.cs, K |-> Tok(t.T, t.z, t.cs)]
view == <<mem, last>>
AuxVars == <<last, path>>

TClose(T, m) == IF "T_test_one_sided" \in Deviations THEN T <= m ELSE T = m
Reuse(T, z, cs, uc) == uc /\ mem.cs = cs /\ cs # None /\ TClose(T, mem.T) /\ z = mem.z
Call(T, z, cs, uc) ==
  LET tok == IF Reuse(T, z, cs, uc) THEN mem.K ELSE Tok(T, z, cs) IN
  /\ mem' = [T |-> T, z |-> z, cs |-> cs, K |-> tok]
  /\ last' = [call |-> Tok(T, z, cs), K |-> tok]
  /\ path' = Append(path, [op |-> "lle", a |-> [T |-> T, z |-> z, cs |-> cs, uc |-> uc]])
Init == mem = [T |-> 0, z |-> None, cs |-> None, K |-> Tok(0, None, None)] /\ last = [call |-> Tok(0, None, None), K |-> Tok(0, None, None)] /\ path = <<>>
Next == "lle" \in Ops /\ \E T \in Temps, z \in Comps, cs \in ChemSets, uc \in BOOLEAN : Call(T, z, cs, uc)
vars == <<mem, last, path>>
Spec == Init /\ [][Next]_vars
\* C15: the split returned is the equilibrium of the current temperature and composition
Fresh == last.K = last.call
\* what is remembered is the equilibrium of the remembered call
MemSound == mem.K = Tok(mem.T, mem.z, mem.cs)

---------------------------------------------------------------------------
(* recorded executions *)
Pre(s, op, a) ==
  CASE op = "lle" -> TRUE
    [] op = "sle" -> TRUE
    [] op = "reset" -> TRUE             \* new material / new stream (state shaping)
    [] OTHER -> FALSE
Post(s, op, a) ==
  CASE op = "lle" -> [T |-> a.T, z |-> a.z, cs |-> a.cs]
    [] op = "reset" -> [T |-> 0, z |-> None, cs |-> None]
    [] OTHER -> s
Abs(x) == IF x < 0 THEN -x ELSE x
\* lle obs: two (both liquids non-empty), act (max relative activity difference, 1e-6), same (max difference to the
\*   non-reusing twin, quanta), scale (max relative deviation of the k-scaled twin from k x result, 1e-9),
\*   top_ok (mass fraction of the top chemical in L >= in l), neg (a negative flow)
\* sle obs: moved_other (a chemical other than the solute changed), x6 / xmax6 (liquid mole fraction of the solute after the
\*   call and the solubility given, 1e-6; xmax6 = -1: computed by the library), solid / liquid (solute left in s / l, quanta),
\*   pure (the solute is the only chemical), above (T > Tm)
Judge(s, e) ==
  LET o == e.obs IN
  IF e.op = "reset" THEN "ok"
  ELSE IF o.exc # None THEN "exception"
  ELSE IF e.op = "lle" THEN
       IF o.neg THEN "lle.negative_flow"
       \* (judged first: a wrong label is a more specific verdict than "differs from the twin", which it also causes)
       ELSE IF ~o.top_ok THEN "lle.top_chemical_in_wrong_phase"
       \* a call identical to the remembered one MAY reuse: then the reusing stream returns the remembered split and any difference to the
       \* twin is the twin's fresh solve not repeating itself (judged to the solver's resolution o.scale_tol); after any change of
       \* temperature, composition or chemicals nothing may be reused and both streams solve alike
       ELSE IF [T |-> e.a.T, z |-> e.a.z, cs |-> e.a.cs] = s /\ o.same > o.scale_tol \div 10 THEN "lle.repeated_call_differs_from_fresh_solve"
       ELSE IF [T |-> e.a.T, z |-> e.a.z, cs |-> e.a.cs] # s /\ o.same > SameTol THEN "lle.reuse_differs_from_fresh_solve"
       \* the Gibbs-minimising methods stop at f_tol = 1e-6 on the Gibbs energy: two runs that differ in the last bits of the
       \* normalised feed agree only to the solver's resolution (o.scale_tol, given per method by the driver)
       ELSE IF o.scale > o.scale_tol THEN "lle.not_proportional_to_feed"
       ELSE IF o.two /\ o.act > ActTol THEN "lle.activities_differ"
       \* o.fresh: difference to a NEW stream given the same material and temperature (quanta): whatever the solver remembers from
       \* earlier calls, the call returns the equilibrium of THIS temperature and composition
       ELSE IF o.fresh > o.scale_tol \div 10 THEN "lle.differs_from_new_stream"
       ELSE "ok"
  ELSE \* sle
       IF o.moved_other THEN "sle.non_solute_moved"
       ELSE IF o.solid < 0 \/ o.liquid < 0 THEN "sle.more_than_present"
       ELSE IF o.xmax6 >= 0 /\ o.liquid > 0 /\ o.x6 > o.xmax6 + 2 THEN "sle.exceeds_solubility"
       ELSE IF o.pure /\ o.xmax6 < 0 /\ o.above /\ o.solid > 0 THEN "sle.pure_solute_solid_above_Tm"
       ELSE IF o.pure /\ o.xmax6 < 0 /\ ~o.above /\ o.liquid > 0 THEN "sle.pure_solute_liquid_below_Tm"
       \* o.fresh: difference (quanta of the solute's total) to a NEW stream holding the same material: whatever the solver object
       \* remembers from earlier calls (other solvents, another solute, a given solubility), the call answers for THIS material
       ELSE IF o.fresh > 10000 THEN "sle.differs_from_new_stream"
       ELSE "ok"
Legal(s) == TRUE
ObsLegal(e) == TRUE
Suspended(e) == FALSE
InitFrom(r) == /\ mem = [T |-> r.T, z |-> r.z, cs |-> r.cs, K |-> Tok(r.T, r.z, r.cs)]
               /\ last = [call |-> Tok(0, None, None), K |-> Tok(0, None, None)] /\ path = <<>>
=============================================================================
