SPECIFICATION Spec
CONSTANTS
  NC = 3
  A <- c_A
  WVals = {0, 1, 2, 5}
  TVals = {300, 425}
  PVals = {50, 1200}
  Ops = {}
  TolT = 0
  TolP = 0
  TolC = 0
VIEW view
INVARIANT Bracket
INVARIANT RoundTrip
INVARIANT Normalised
INVARIANT SingleComponent
INVARIANT ScaleFree
CHECK_DEADLOCK FALSE
