SPECIFICATION Spec
CONSTANTS
  NC = 4
  Chem <- c_Chem
  Lib <- c_Lib
  Tags <- c_Tags
  ModelFeeds <- c_Feeds
  XVals <- c_X
  QVals = {0, 50}
  DVals = {0, 1000}
  HfChems = {3}
  HfVals <- c_HfVals
  Ops = {"load", "react", "adiabatic", "warm", "set_Hf"}
VIEW view
CONSTRAINT Depth
INVARIANT LedgerOK
INVARIANT BasisConsistent
PROPERTY HeatOfReaction
PROPERTY AdiabaticBalance
CHECK_DEADLOCK FALSE
