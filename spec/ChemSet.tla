------------------------------- MODULE ChemSet -------------------------------
(***************************************************************************)
(* Life cycle of chemical collections (extension of the specification      *)
(* beyond the listed properties; thermosteam/_chemicals.py Chemicals and   *)
(* CompiledChemicals: append / extend, compile, aliases, chemical groups,  *)
(* name lookups).                                                          *)
(*                                                                         *)
(* An exact model of what the code does.  A collection is an ordered list  *)
(* of chemicals; compiling freezes the order and builds a name table       *)
(* (IDs, aliases, groups -> positions).  Aliases are ALSO remembered by    *)
(* the chemical object itself, so they travel to every collection the      *)
(* chemical is compiled into later (unless two members claim the same      *)
(* name, in which case neither gets it).  The model checker decides which  *)
(* lookup guarantees hold; behaviours are replayed on real objects.        *)
(***************************************************************************)
EXTENDS Integers, Sequences, FiniteSets, TLC

CONSTANTS Cols,       \* collection names
          Chems,      \* chemical IDs (synthetic chemicals: CAS = ID)
          ANames,     \* names a user may give as alias / group name (may coincide with chemical IDs)
          Ops

VARIABLES col,        \* [Cols -> [ids: Seq(Chems), compiled: BOOLEAN, tab: set of <<name, kind, value>>]]
          cal,        \* [Chems -> SUBSET (ANames \cup Chems)]: aliases the chemical object remembers
          path
S == [col |-> col, cal |-> cal]
None == "none"
Range(q) == {q[i] : i \in DOMAIN q}
\* logged form: tab as a list of [name, kind, value] triples, cal values as lists
AsTab(q) == {<<q[i][1], q[i][2], q[i][3]>> : i \in DOMAIN q}
Norm(t) == [col |-> [p \in Cols |-> [ids |-> t.col[p].ids, compiled |-> t.col[p].compiled, tab |-> AsTab(t.col[p].tab)]],
            cal |-> [c \in Chems |-> Range(t.cal[c])]]
SetS(t) == LET n == Norm(t) IN col' = n.col /\ cal' = n.cal
view == <<col, cal>>

\* ---- the name table of a compiled collection: kind "chem" -> a chemical, kind "group" -> a sequence of chemicals ----
HasN(tab, n) == \E e \in tab : e[1] = n
Entry(tab, n) == CHOOSE e \in tab : e[1] = n
DelN(tab, n) == {e \in tab : e[1] # n}
PutN(tab, n, k, v) == DelN(tab, n) \cup {<<n, k, v>>}
IsChemN(tab, n) == HasN(tab, n) /\ Entry(tab, n)[2] = "chem"
IsGroupN(tab, n) == HasN(tab, n) /\ Entry(tab, n)[2] = "group"
Pos(ids, c) == CHOOSE i \in DOMAIN ids : ids[i] = c
\* first occurrences only (a collection is built without duplicates)
RECURSIVE Dedup(_, _)
Dedup(q, seen) == IF q = <<>> THEN <<>>
                  ELSE IF Head(q) \in seen THEN Dedup(Tail(q), seen) ELSE <<Head(q)>> \o Dedup(Tail(q), seen \cup {Head(q)})

\* names offered at compile time: the aliases each member remembers, minus those two members claim
Claimed(cl, ids, n) == {c \in Range(ids) : n \in cl[c]}
AutoAliases(cl, ids) == {<<n, c>> \in (ANames \cup Chems) \X Range(ids) : n \in cl[c] /\ Cardinality(Claimed(cl, ids, n)) = 1}
\* compile fails when an offered alias is the ID of another member (set_alias refuses it)
CompileClash(cl, ids) == \E pr \in AutoAliases(cl, ids) : pr[1] \in Range(ids) /\ pr[1] # pr[2]
CompiledTab(cl, ids) == {<<ids[i], "chem", ids[i]>> : i \in DOMAIN ids} \cup {<<pr[1], "chem", pr[2]>> : pr \in AutoAliases(cl, ids)}

\* extend: append one by one; stops at the first chemical that is already there (earlier ones stay)
RECURSIVE ExtendTo(_, _)
ExtendTo(ids, q) == IF q = <<>> THEN ids ELSE IF Head(q) \in Range(ids) THEN ids ELSE ExtendTo(Append(ids, Head(q)), Tail(q))
ExtendFails(ids, q) == \E i \in DOMAIN q : q[i] \in Range(ids) \/ \E j \in 1..(i - 1) : q[j] = q[i]
RECURSIVE ExtendSeq(_, _)
ExtendSeq(ids, q) == IF q = <<>> THEN ids ELSE IF Head(q) \in Range(ids) THEN ids ELSE ExtendSeq(Append(ids, Head(q)), Tail(q))

Pre(s, op, a) ==
  CASE op = "new" -> a.p \in Cols /\ Range(a.cs) \subseteq Chems
    [] op = "append" -> a.p \in Cols /\ a.c \in Chems
    [] op = "extend" -> a.p \in Cols /\ Range(a.cs) \subseteq Chems
    \* extending with another collection copies its attribute dictionary: specified for two uncompiled collections
    [] op = "extend_from" -> {a.p, a.q} \subseteq Cols /\ ~s.col[a.q].compiled /\ ~s.col[a.p].compiled
    [] op = "compile" -> a.p \in Cols /\ s.col[a.p].ids # <<>>
    \* (naming a GROUP as the chemical half-registers the alias and then fails: outside this model)
    [] op = "set_alias" -> /\ a.p \in Cols /\ a.n \in ANames \cup Chems /\ a.k \in ANames \cup Chems /\ s.col[a.p].compiled
                           /\ ~IsGroupN(s.col[a.p].tab, a.n)
    [] op = "define_group" -> a.p \in Cols /\ a.k \in ANames \cup Chems /\ Range(a.ns) \subseteq ANames \cup Chems /\ a.ns # <<>> /\ s.col[a.p].compiled
    [] op \in {"index", "contains", "getitem"} -> a.p \in Cols /\ a.n \in ANames \cup Chems
    [] op = "len" -> a.p \in Cols
    [] OTHER -> FALSE

Refused(s, op, a) ==
  LET c == s.col[a.p] IN
  CASE op = "append" -> c.compiled \/ a.c \in Range(c.ids)
    [] op = "extend" -> c.compiled \/ ExtendFails(c.ids, a.cs)
    [] op = "compile" -> ~c.compiled /\ CompileClash(s.cal, c.ids)
    \* the chemical must be named by something that denotes ONE chemical; the alias must be free or already denote that chemical
    [] op = "set_alias" -> \/ ~IsChemN(c.tab, a.n)
                           \/ (HasN(c.tab, a.k) /\ ~(IsChemN(c.tab, a.k) /\ Entry(c.tab, a.k)[3] = Entry(c.tab, a.n)[3]))
    [] op = "define_group" -> \/ \E i \in DOMAIN a.ns : ~IsChemN(c.tab, a.ns[i])
    [] op = "index" -> ~c.compiled \/ ~HasN(c.tab, a.n)
    [] op = "getitem" -> IF c.compiled THEN ~HasN(c.tab, a.n) ELSE a.n \notin Range(c.ids)
    [] OTHER -> FALSE

Post(s, op, a) ==
  LET c == s.col[a.p] IN
  CASE op = "new" -> [s EXCEPT !.col[a.p] = [ids |-> Dedup(a.cs, {}), compiled |-> FALSE, tab |-> {}]]
    [] op = "append" -> IF Refused(s, op, a) THEN s ELSE [s EXCEPT !.col[a.p].ids = Append(@, a.c)]
    [] op = "extend" -> IF c.compiled THEN s ELSE [s EXCEPT !.col[a.p].ids = ExtendSeq(@, a.cs)]       \* partial effect when it fails
    [] op = "extend_from" -> [s EXCEPT !.col[a.p].ids = @ \o SelectSeq(s.col[a.q].ids, LAMBDA x : x \notin Range(c.ids))]
    [] op = "compile" -> IF c.compiled \/ Refused(s, op, a) THEN s
                         ELSE [s EXCEPT !.col[a.p].compiled = TRUE, !.col[a.p].tab = CompiledTab(s.cal, c.ids)]
    [] op = "set_alias" -> IF Refused(s, op, a) THEN s
                           ELSE LET ch == Entry(c.tab, a.n)[3] IN
                                [s EXCEPT !.col[a.p].tab = PutN(@, a.k, "chem", ch), !.cal[ch] = @ \cup {a.k}]
    [] op = "define_group" -> IF Refused(s, op, a) THEN s
                              ELSE [s EXCEPT !.col[a.p].tab = PutN(@, a.k, "group", [i \in DOMAIN a.ns |-> Entry(c.tab, a.ns[i])[3]])]
    [] op \in {"index", "contains", "getitem", "len"} -> s

Result(s, op, a) ==
  LET c == s.col[a.p] IN
  CASE op = "index" -> IF Refused(s, op, a) THEN None
                       ELSE LET e == Entry(c.tab, a.n) IN IF e[2] = "chem" THEN <<Pos(c.ids, e[3])>> ELSE [i \in DOMAIN e[3] |-> Pos(c.ids, e[3][i])]
    [] op = "contains" -> IF c.compiled THEN (IF HasN(c.tab, a.n) THEN "yes" ELSE "no") ELSE (IF a.n \in Range(c.ids) THEN "yes" ELSE "no")
    [] op = "getitem" -> IF Refused(s, op, a) THEN None
                         ELSE IF ~c.compiled THEN <<a.n>>
                         ELSE LET e == Entry(c.tab, a.n) IN IF e[2] = "chem" THEN <<e[3]>> ELSE e[3]
    [] op = "len" -> Len(c.ids)
    [] OTHER -> None

Judge(s, e) ==
  LET p == Post(s, e.op, e.a)
      u == Norm(e.post) IN
  IF Refused(s, e.op, e.a) /\ e.obs.exc = None THEN "not_refused"
  ELSE IF ~Refused(s, e.op, e.a) /\ e.obs.exc # None THEN "exception"
  ELSE IF \E q \in Cols : u.col[q].ids # p.col[q].ids THEN "members"
  ELSE IF \E q \in Cols : u.col[q].compiled # p.col[q].compiled THEN "compiled_flag"
  ELSE IF \E q \in Cols : u.col[q].tab # p.col[q].tab THEN "name_table"
  ELSE IF u.cal # p.cal THEN "chemical_aliases"
  ELSE IF e.obs.res # Result(s, e.op, e.a) THEN "result"
  ELSE "ok"
\* states the model can express (a collection extended with a COMPILED collection holds non-chemicals: outside)
Legal(t) == \A p \in Cols : /\ Range(t.col[p].ids) \subseteq Chems
                            /\ \A i \in DOMAIN t.col[p].tab : LET e == t.col[p].tab[i] IN
                                  IF e[2] = "chem" THEN e[3] \in Chems ELSE Range(e[3]) \subseteq Chems
ObsLegal(e) == TRUE
Suspended(e) == FALSE
InitFrom(r) == LET n == Norm(r) IN col = n.col /\ cal = n.cal /\ path = <<>>

---------------------------------------------------------------------------
(* model *)
Init == col = [p \in Cols |-> [ids |-> <<>>, compiled |-> FALSE, tab |-> {}]] /\ cal = [c \in Chems |-> {}] /\ path = <<>>
Act(op, a) == /\ op \in Ops /\ (Pre(S, op, a) = TRUE)
              /\ LET p == Post(S, op, a) IN col' = p.col /\ cal' = p.cal
              /\ path' = Append(path, [op |-> op, a |-> a])
Seqs2 == {<<x>> : x \in Chems} \cup {<<x, y>> : x \in Chems, y \in Chems}
NSeqs == {<<x>> : x \in ANames \cup Chems} \cup {<<x, y>> \in (ANames \cup Chems) \X (ANames \cup Chems) : x # y}
Next == \E p \in Cols :
          \/ \E cs \in Seqs2 : Act("new", [p |-> p, cs |-> cs]) \/ Act("extend", [p |-> p, cs |-> cs])
          \/ \E c \in Chems : Act("append", [p |-> p, c |-> c])
          \/ \E q \in Cols \ {p} : Act("extend_from", [p |-> p, q |-> q])
          \/ Act("compile", [p |-> p])
          \/ \E n \in ANames \cup Chems, k \in ANames \cup Chems : Act("set_alias", [p |-> p, n |-> n, k |-> k])
          \/ \E k \in ANames \cup Chems, ns \in NSeqs : Act("define_group", [p |-> p, k |-> k, ns |-> ns])
          \/ \E n \in ANames \cup Chems : Act("index", [p |-> p, n |-> n]) \/ Act("contains", [p |-> p, n |-> n]) \/ Act("getitem", [p |-> p, n |-> n])
          \/ Act("len", [p |-> p])
vars == <<col, cal, path>>
Spec == Init /\ [][Next]_vars

\* ---- what the design guarantees -------------------------------------------------------------------------------------
NoDuplicates == \A p \in Cols : \A i, j \in DOMAIN col[p].ids : i # j => col[p].ids[i] # col[p].ids[j]
TabFunctional == \A p \in Cols : \A e, f \in col[p].tab : e[1] = f[1] => e = f
\* every name of a compiled collection denotes members of the collection
TabInside == \A p \in Cols : \A e \in col[p].tab : IF e[2] = "chem" THEN e[3] \in Range(col[p].ids) ELSE Range(e[3]) \subseteq Range(col[p].ids)
\* compiling freezes the members and their order
Frozen == [][\A p \in Cols : col[p].compiled /\ ~(Len(path') > Len(path) /\ path'[Len(path')].op = "new" /\ path'[Len(path')].a.p = p)
                => col'[p].ids = col[p].ids /\ col'[p].compiled]_vars
\* an alias never denotes two chemicals within a collection, and is never taken away from a chemical by another alias
AliasStable == [][\A p \in Cols : \A e \in col[p].tab :
                    (e[2] = "chem" /\ col'[p].compiled /\ col[p].compiled /\ Len(path') > Len(path) /\ path'[Len(path')].op = "set_alias")
                    => e \in col'[p].tab]_vars

\* ---- weaker expectations the design does NOT meet (vacuity guards; TLC produces the scenarios) -----------------------
\* a member's ID always denotes that member  (fails: a group may be defined under the ID of a member)
IDDenotesMember == \A p \in Cols : col[p].compiled => \A i \in DOMAIN col[p].ids : <<col[p].ids[i], "chem", col[p].ids[i]>> \in col[p].tab
\* an alias given in one collection stays in that collection  (fails: the chemical remembers it and later compilations take it over)
AliasesAreLocal == \A p \in Cols : \A e \in col[p].tab :
                     (e[2] = "chem" /\ e[1] # e[3]) => \E i \in DOMAIN path : path[i].op = "set_alias" /\ path[i].a.p = p /\ path[i].a.k = e[1]
=============================================================================
