SPECIFICATION Spec
CONSTANTS
  Cols <- c_Cols
  Chems <- c_C3
  ANames <- c_AN
  Ops <- c_AllOps
INVARIANT NoDuplicates
INVARIANT TabFunctional
INVARIANT TabInside
INVARIANT EmitPath
CHECK_DEADLOCK FALSE
