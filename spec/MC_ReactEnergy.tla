--------------------------- MODULE MC_ReactEnergy ---------------------------
EXTENDS ReactEnergy
\* A, B: gases (reference gas); C: reference liquid; D: reference gas (the "vapour" of C with its own formation heat)
c_Chem == << [Hf |-> 0, MW |-> 2, ref |-> "g", Hvap |-> 40, Hfus |-> 10, c |-> 3],
             [Hf |-> 0, MW |-> 32, ref |-> "g", Hvap |-> 30, Hfus |-> 20, c |-> 4],
             [Hf |-> -300, MW |-> 18, ref |-> "l", Hvap |-> 44, Hfus |-> 6, c |-> 7],
             [Hf |-> -250, MW |-> 18, ref |-> "g", Hvap |-> 50, Hfus |-> 8, c |-> 5] >>
H == <<1, 2>>
c_Lib == << <<R(-1), <<-1, 2>>, R(1), R(0)>>, <<R(1), H, R(-1), R(0)>>, <<R(-2), R(-1), R(0), R(2)>>, <<R(0), R(0), R(-1), R(1)>> >>
c_Tags == { <<>>, <<"g", "g", "l", "g">>, <<"g", "g", "g", "g">>, <<"g", "g", "s", "g">>, <<"l", "g", "l", "l">> }
Row(a, b, c, d) == <<R(a), R(b), R(c), R(d)>>
Z == Row(0, 0, 0, 0)
c_Feeds == { [kind |-> "g", m |-> [g |-> Row(2, 1, 1, 1), l |-> Z, s |-> Z]],
             [kind |-> "l", m |-> [g |-> Z, l |-> Row(2, 1, 1, 0), s |-> Z]],
             [kind |-> "gl", m |-> [g |-> Row(2, 1, 0, 1), l |-> Row(0, 0, 2, 0), s |-> Z]],
             [kind |-> "gs", m |-> [g |-> Row(2, 2, 0, 1), l |-> Z, s |-> Row(0, 0, 1, 0)]] }
c_X == {H, One}
c_Xq == {H}
c_HfVals == {-100}
Depth == Len(path) <= 3
=============================================================================
