SPECIFICATION Spec
CONSTANTS
  Cols <- c_Cols
  Chems <- c_C2
  ANames <- c_AN
  Ops <- c_Mut
VIEW view
INVARIANT @INV@
CONSTRAINT Depth5
CHECK_DEADLOCK FALSE
