------------------------------ MODULE Flowsheet ------------------------------
(***************************************************************************)
(* Connection bookkeeping of thermosteam/network.py (C18).                 *)
(*                                                                         *)
(* State: for every unit its inlet and outlet port lists (sequences over   *)
(* stream names and the anonymous placeholder "missing"), and for every    *)
(* stream the unit it believes to be its sink / source.  One action per    *)
(* public rewiring call.  Every action is written as  Pre(s, op, a)  and   *)
(* Post(s, op, a)  over the state record  s  so that the very same         *)
(* definitions serve the model checker (Next) and the trace validator      *)
(* (Trace_Flowsheet: the implementation's logged post-state must equal     *)
(* Post of the logged pre-state).                                          *)
(*                                                                         *)
(* The preconditions are exactly the ones listed in the property text.     *)
(***************************************************************************)
EXTENDS Naturals, Integers, Sequences, FiniteSets, TLC

CONSTANTS Units,        \* set of unit names (strings)
          Streams,      \* set of stream names (strings)
          NIns, NOuts,  \* [Units -> Nat]   class attributes _N_ins/_N_outs
          InsFixed, OutsFixed,   \* [Units -> BOOLEAN]
          MaxLen,       \* model bound on the length of variable-size lists
          MaxXs,        \* model bound on the length of stream tuples passed as arguments
          Ops           \* operation names switched on in this configuration

VARIABLES ins, outs, sink, source, path

M    == "missing"
None == "none"
Sides == {"in", "out"}

S == [ins |-> ins, outs |-> outs, sink |-> sink, source |-> source]
SetS(t) == /\ ins' = t.ins /\ outs' = t.outs /\ sink' = t.sink /\ source' = t.source
view == <<ins, outs, sink, source>>

---------------------------------------------------------------------------
(* helpers *)
Range(q) == {q[i] : i \in DOMAIN q}
P(s, side) == IF side = "in" THEN s.ins ELSE s.outs
D(s, side) == IF side = "in" THEN s.sink ELSE s.source
With(s, side, p, d) == IF side = "in" THEN [s EXCEPT !.ins = p, !.sink = d]
                                      ELSE [s EXCEPT !.outs = p, !.source = d]
Fixed(side, u) == IF side = "in" THEN InsFixed[u] ELSE OutsFixed[u]
NPorts(side, u) == IF side = "in" THEN NIns[u] ELSE NOuts[u]
Other(side) == IF side = "in" THEN "out" ELSE "in"

IndexOf(q, x) == CHOOSE i \in DOMAIN q : q[i] = x /\ \A j \in 1..(i-1) : q[j] # x
ReplFirst(q, x, y) == IF x \in Range(q) THEN [q EXCEPT ![IndexOf(q, x)] = y] ELSE q
RemoveAt(q, i) == SubSeq(q, 1, i-1) \o SubSeq(q, i+1, Len(q))
Missing(n) == [i \in 1..n |-> M]
StreamsOf(q) == SelectSeq(q, LAMBDA x : x \in Streams)
Distinct(q) == \A i, j \in DOMAIN q : (i # j /\ q[i] \in Streams) => q[i] # q[j]

Undock(d, x) == IF x \in Streams THEN [d EXCEPT ![x] = None] ELSE d
UndockAll(d, q) == [x \in DOMAIN d |-> IF x \in Range(q) THEN None ELSE d[x]]

\* _redock: a stream docked at another unit's list is removed there (placeholder left)
Redock(p, d, u, x) ==
  IF x \notin Streams THEN <<p, d>>
  ELSE LET v == d[x] IN
       << IF v # None /\ v # u THEN [p EXCEPT ![v] = ReplFirst(@, x, M)] ELSE p,
          [d EXCEPT ![x] = u] >>

RECURSIVE RedockAll(_, _, _, _)
RedockAll(p, d, u, xs) ==
  IF xs = <<>> THEN <<p, d>>
  ELSE LET r == Redock(p, d, u, Head(xs)) IN RedockAll(r[1], r[2], u, Tail(xs))

Pad(q, side, u) == IF Fixed(side, u) /\ Len(q) < NPorts(side, u)
                   THEN q \o Missing(NPorts(side, u) - Len(q)) ELSE q

---------------------------------------------------------------------------
(* primitive list operations: StreamSequence.__setitem__/append/... *)

PreSetItem(s, side, u, i, x) ==
  LET q == P(s, side)[u] IN
  /\ u \in Units /\ x \in Streams \cup {M}
  /\ \/ i \in 1..Len(q)
     \/ i = Len(q) + 1 /\ ~Fixed(side, u) /\ Len(q) < MaxLen
  /\ \/ x = M
     \/ x \notin Range(q)
     \/ i <= Len(q) /\ q[i] = x
PostSetItem(s, side, u, i, x) ==
  LET p == P(s, side)
      d == D(s, side) IN
  IF i = Len(p[u]) + 1
  THEN LET r == Redock(p, d, u, x) IN With(s, side, [r[1] EXCEPT ![u] = Append(@, x)], r[2])
  ELSE LET d1 == Undock(d, p[u][i])
           r  == Redock(p, d1, u, x)
       IN With(s, side, [r[1] EXCEPT ![u][i] = x], r[2])

\* python slice [lo:hi] (0-based, lo <= hi <= len)
PreSetSlice(s, side, u, lo, hi, xs) ==
  LET q == P(s, side)[u]
      rest == SubSeq(q, 1, lo) \o SubSeq(q, hi+1, Len(q)) IN
  /\ u \in Units /\ lo \in 0..Len(q) /\ hi \in lo..Len(q)
  /\ \A k \in DOMAIN xs : xs[k] \in Streams \cup {M}
  /\ Distinct(xs)
  /\ \A k \in DOMAIN xs : xs[k] \in Streams => xs[k] \notin Range(rest)
  /\ Fixed(side, u)  => Len(rest) + Len(xs) <= NPorts(side, u)
  /\ ~Fixed(side, u) => Len(rest) + Len(xs) <= MaxLen
PostSetSlice(s, side, u, lo, hi, xs) ==
  LET p == P(s, side)
      d == D(s, side)
      q == p[u]
      d1 == UndockAll(d, SubSeq(q, lo+1, hi))
      r == RedockAll(p, d1, u, xs)
      new == SubSeq(q, 1, lo) \o xs \o SubSeq(q, hi+1, Len(q))
  IN With(s, side, [r[1] EXCEPT ![u] = Pad(new, side, u)], r[2])
SetAll(s, side, u, xs) == PostSetSlice(s, side, u, 0, Len(P(s, side)[u]), xs)
PreSetAll(s, side, u, xs) == PreSetSlice(s, side, u, 0, Len(P(s, side)[u]), xs)

\* append / insert / extend: the property's precondition is that the stream is
\* not docked on that side of any unit
PreInsert(s, side, u, i, x) ==
  /\ u \in Units /\ ~Fixed(side, u) /\ x \in Streams /\ D(s, side)[x] = None
  /\ i \in 0..Len(P(s, side)[u]) /\ Len(P(s, side)[u]) < MaxLen
PostInsert(s, side, u, i, x) ==
  LET q == P(s, side)[u] IN
  With(s, side, [P(s, side) EXCEPT ![u] = SubSeq(q, 1, i) \o <<x>> \o SubSeq(q, i+1, Len(q))],
       [D(s, side) EXCEPT ![x] = u])
PreExtend(s, side, u, xs) ==
  /\ u \in Units /\ ~Fixed(side, u) /\ Distinct(xs)
  /\ \A k \in DOMAIN xs : xs[k] \in Streams /\ D(s, side)[xs[k]] = None
  /\ Len(P(s, side)[u]) + Len(xs) <= MaxLen
PostExtend(s, side, u, xs) ==
  With(s, side, [P(s, side) EXCEPT ![u] = @ \o xs],
       [x \in DOMAIN D(s, side) |-> IF x \in Range(xs) THEN u ELSE D(s, side)[x]])

PrePop(s, side, u, i) == u \in Units /\ i \in 1..Len(P(s, side)[u])
PostPop(s, side, u, i) ==
  LET q == P(s, side)[u] IN
  With(s, side, [P(s, side) EXCEPT ![u] = IF Fixed(side, u) THEN [q EXCEPT ![i] = M] ELSE RemoveAt(q, i)],
       Undock(D(s, side), q[i]))

PreRemove(s, side, u, x) == u \in Units /\ x \in Streams /\ x \in Range(P(s, side)[u])
PostRemove(s, side, u, x) ==
  With(s, side, [P(s, side) EXCEPT ![u] = ReplFirst(@, x, M)], Undock(D(s, side), x))

PreReplace(s, side, u, x, y) ==
  /\ PreRemove(s, side, u, x)
  /\ PreSetItem(s, side, u, IndexOf(P(s, side)[u], x), y)
PostReplace(s, side, u, x, y) == PostSetItem(s, side, u, IndexOf(P(s, side)[u], x), y)

PostEmpty(s, side, u) ==
  With(s, side, [P(s, side) EXCEPT ![u] = Missing(NPorts(side, u))], UndockAll(D(s, side), P(s, side)[u]))
PostClear(s, side, u) ==
  With(s, side, [P(s, side) EXCEPT ![u] = IF Fixed(side, u) THEN Missing(NPorts(side, u)) ELSE <<>>],
       UndockAll(D(s, side), P(s, side)[u]))

\* stream.disconnect_source()/disconnect_sink(): leave a placeholder behind
PostDisc(s, side, x) ==
  IF D(s, side)[x] = None THEN s ELSE PostRemove(s, side, D(s, side)[x], x)

---------------------------------------------------------------------------
(* composite unit-level operations *)

\* unit.disconnect(join_ends): empties both lists; with join_ends each former
\* inlet takes the place of the corresponding former outlet at the outlet's sink
RECURSIVE JoinEnds(_, _, _)
JoinEnds(s, inl, outl) ==
  IF inl = <<>> THEN s
  ELSE LET o == Head(outl)
           i == Head(inl)
           s1 == IF s.sink[o] # None THEN PostReplace(s, "in", s.sink[o], o, i) ELSE s
       IN JoinEnds(s1, Tail(inl), Tail(outl))
PostUnitDisconnect(s, u, join) ==
  LET s2 == SetAll(SetAll(s, "in", u, <<>>), "out", u, <<>>)
      inl == StreamsOf(s.ins[u])
      outl == StreamsOf(s.outs[u])
  IN IF join /\ Len(inl) = Len(outl) THEN JoinEnds(s2, inl, outl) ELSE s2
ExcUnitDisconnect(s, u, join) ==
  IF join /\ Len(StreamsOf(s.ins[u])) # Len(StreamsOf(s.outs[u])) THEN "ValueError" ELSE None

\* unit.disconnect(inlets=[...], outlets=[...]) with port numbers (1-based here)
RECURSIVE SetMissingAt(_, _, _, _)
SetMissingAt(s, side, u, idx) ==
  IF idx = <<>> THEN s
  ELSE SetMissingAt(PostSetItem(s, side, u, Head(idx), M), side, u, Tail(idx))
PreUnitDisconnectSel(s, u, ii, oi) ==
  /\ \A k \in DOMAIN ii : ii[k] \in 1..Len(s.ins[u])
  /\ \A k \in DOMAIN oi : oi[k] \in 1..Len(s.outs[u])
PostUnitDisconnectSel(s, u, ii, oi) == SetMissingAt(SetMissingAt(s, "in", u, ii), "out", u, oi)

\* unit.insert(stream) : put unit u into the line  source(x) -> x -> sink(x).
\* Only the default form (inlet=None, outlet=None) and the port-number forms.
\*   ok : 0 means "argument not given", otherwise the 1-based port number
InsertOutletChoice(s, u, x, ok) ==       \* <<kind, stream>>
  IF ok # 0 THEN <<"port", s.outs[u][ok]>>
  ELSE IF OutsFixed[u] THEN (IF NOuts[u] = 1 THEN <<"port", s.outs[u][1]>> ELSE <<"error", M>>)
  ELSE <<"append", x>>
InsertInletChoice(s, u, x, ik, appended) ==
  IF ik # 0 THEN <<"port", s.ins[u][ik]>>
  ELSE IF InsFixed[u] \/ appended THEN (IF NIns[u] = 1 /\ Len(s.ins[u]) >= 1 THEN <<"port", s.ins[u][1]>> ELSE <<"error", M>>)
  ELSE <<"append", x>>
PreUnitInsert(s, u, x, ik, ok) ==
  /\ u \in Units /\ x \in Streams
  /\ s.source[x] \notin {None, u} /\ s.sink[x] \notin {None, u}
  /\ ik \in 0..Len(s.ins[u]) /\ ok \in 0..Len(s.outs[u])
  /\ LET oc == InsertOutletChoice(s, u, x, ok) IN
     /\ oc[1] = "port"   => PreReplace(s, "in", s.sink[x], x, oc[2])
     /\ oc[1] = "append" => Len(s.outs[u]) < MaxLen
     /\ oc[1] # "error" =>
          LET s1 == IF oc[1] = "port" THEN PostReplace(s, "in", s.sink[x], x, oc[2])
                    ELSE [s EXCEPT !.outs = [@ EXCEPT ![s.source[x]] = ReplFirst(@, x, M), ![u] = Append(@, x)],
                                   !.source = [@ EXCEPT ![x] = u]]
              ic == InsertInletChoice(s1, u, x, ik, oc[1] = "append")
          IN /\ ic[1] = "append" => Len(s.ins[u]) < MaxLen
             \* the inlet chosen must not already sit in the upstream unit's outlets
             /\ ic[1] = "port" => (ic[2] = M \/ ic[2] \notin Range(s1.outs[s.source[x]]))
\* Intended result.  Downstream side: the chosen outlet of u replaces x at x's old sink
\* (or, when u's outlets are extensible, x itself becomes the last outlet of u and keeps
\* its sink).  Upstream side: the chosen inlet of u replaces x at x's old source (or, when
\* u's inlets are extensible, x itself becomes the last inlet of u and keeps its source).
PostUnitInsert(s, u, x, ik, ok) ==
  LET src == s.source[x]
      snk == s.sink[x]
      oc == InsertOutletChoice(s, u, x, ok)
  IN IF oc[1] = "error" THEN s
     ELSE
     LET s1 == IF oc[1] = "port" THEN PostReplace(s, "in", snk, x, oc[2]) ELSE s
         ic == InsertInletChoice(s1, u, x, ik, oc[1] = "append")
     IN IF oc[1] = "append"
        THEN \* x moves from src.outs to u.outs; the upstream port gets u's inlet
             LET s2 == [s1 EXCEPT !.outs = [@ EXCEPT ![src] = ReplFirst(@, x, M), ![u] = Append(@, x)],
                                  !.source = [@ EXCEPT ![x] = u]]
             IN IF ic[1] = "error" THEN s     \* nothing is rewired when the call is refused
                ELSE LET k == IndexOf(s.outs[src], x) IN PostSetItem(s2, "out", src, k, ic[2])
        ELSE IF ic[1] = "error" THEN s1
        ELSE IF ic[1] = "append" THEN PostInsert([s1 EXCEPT !.sink = [@ EXCEPT ![x] = None]], "in", u, Len(s1.ins[u]), x)
        ELSE PostReplace(s1, "out", src, x, ic[2])
ExcUnitInsert(s, u, x, ik, ok) ==
  LET oc == InsertOutletChoice(s, u, x, ok) IN
  IF oc[1] = "error" THEN "ValueError"
  ELSE LET s1 == IF oc[1] = "port" THEN PostReplace(s, "in", s.sink[x], x, oc[2]) ELSE s
           ic == InsertInletChoice(s1, u, x, ik, oc[1] = "append")
       IN IF ic[1] = "error" THEN "ValueError" ELSE None

\* u.take_place_of(v):  u.ins[:] = v.ins ; u.outs[:] = v.outs
PreTakePlaceOf(s, u, v) ==
  /\ u \in Units /\ v \in Units /\ u # v
  /\ PreSetAll(s, "in", u, s.ins[v])
  /\ PreSetAll(SetAll(s, "in", u, s.ins[v]), "out", u, s.outs[v])
PostTakePlaceOf(s, u, v) == SetAll(SetAll(s, "in", u, s.ins[v]), "out", u, s.outs[v])

\* u.replace_with(None): splice u out of the flowsheet, port by port
RECURSIVE Splice(_, _, _)
Splice(s, inl, outl) ==
  IF inl = <<>> \/ outl = <<>> THEN s
  ELSE LET i == Head(inl)
           o == Head(outl)
           s1 == IF i \in Streams /\ s.source[i] # None
                 THEN PostReplace(s, "out", s.source[i], i, o)
                 ELSE IF o \in Streams /\ s.sink[o] # None
                      THEN PostReplace(s, "in", s.sink[o], o, i)
                      ELSE s
       IN Splice(s1, Tail(inl), Tail(outl))
RECURSIVE SplicePre(_, _, _)
SplicePre(s, inl, outl) ==
  IF inl = <<>> \/ outl = <<>> THEN TRUE
  ELSE LET i == Head(inl)
           o == Head(outl)
       IN IF i \in Streams /\ s.source[i] # None
          THEN PreReplace(s, "out", s.source[i], i, o)
               /\ SplicePre(PostReplace(s, "out", s.source[i], i, o), Tail(inl), Tail(outl))
          ELSE IF o \in Streams /\ s.sink[o] # None
               THEN PreReplace(s, "in", s.sink[o], o, i)
                    /\ SplicePre(PostReplace(s, "in", s.sink[o], o, i), Tail(inl), Tail(outl))
               ELSE SplicePre(s, Tail(inl), Tail(outl))
PostReplaceWithNone(s, u) ==
  LET s1 == Splice(s, s.ins[u], s.outs[u]) IN PostEmpty(PostEmpty(s1, "in", u), "out", u)

\* Connection.reconnect() of a connection (src, si, x, ki, snk) noted down earlier
PreReconnect(s, src, si, x, ki, snk) ==
  /\ x \in Streams
  /\ src # None => PreSetItem(s, "out", src, si, x) /\ si <= Len(s.outs[src])
  /\ LET s1 == IF src # None THEN PostSetItem(s, "out", src, si, x) ELSE PostDisc(s, "out", x)
     IN snk # None => PreSetItem(s1, "in", snk, ki, x) /\ ki <= Len(s1.ins[snk])
PostReconnect(s, src, si, x, ki, snk) ==
  LET s1 == IF src # None THEN PostSetItem(s, "out", src, si, x) ELSE PostDisc(s, "out", x)
  IN IF snk # None THEN PostSetItem(s1, "in", snk, ki, x) ELSE PostDisc(s1, "in", x)

\* Unit(ID, ins=ia, outs=oa) for a unit role whose previous object holds nothing
AllMissing(q) == \A i \in DOMAIN q : q[i] = M
NoMissing(q) == \A i \in DOMAIN q : q[i] # M
PreConstruct(s, u, ia, oa) ==
  /\ u \in Units /\ AllMissing(s.ins[u]) /\ AllMissing(s.outs[u])
  /\ Distinct(ia) /\ Distinct(oa)
  /\ \A k \in DOMAIN ia : ia[k] \in Streams \cup {M}
  /\ \A k \in DOMAIN oa : oa[k] \in Streams \cup {M}
  /\ InsFixed[u]  => (Len(ia) <= NIns[u]  /\ \A k \in DOMAIN ia : ia[k] \in Streams)
  /\ OutsFixed[u] => (Len(oa) <= NOuts[u] /\ \A k \in DOMAIN oa : oa[k] \in Streams)
  /\ Len(ia) <= MaxLen /\ Len(oa) <= MaxLen
ConstructSide(s, side, u, xs) ==
  LET r == RedockAll(P(s, side), D(s, side), u, xs)
  IN With(s, side, [r[1] EXCEPT ![u] = IF xs = <<>> THEN Missing(NPorts(side, u)) ELSE Pad(xs, side, u)], r[2])
PostConstruct(s, u, ia, oa) == ConstructSide(ConstructSide(s, "in", u, ia), "out", u, oa)

---------------------------------------------------------------------------
(* dispatch: Pre / Post / Exc by operation name; a is a record of arguments *)

Pre(s, op, a) ==
  CASE op = "setitem"     -> PreSetItem(s, a.side, a.u, a.i, a.x)
    [] op = "setitem_ph"  -> /\ PreSetItem(s, a.side, a.u, a.i, M)
                             /\ a.v \in Units /\ a.j \in 1..Len(P(s, a.side)[a.v])
                             /\ P(s, a.side)[a.v][a.j] = M /\ a.v # a.u
    [] op = "pipe"        -> PreSetItem(s, a.side, a.u, a.i, a.x) /\ a.x \in Streams /\ a.i <= Len(P(s, a.side)[a.u])
    [] op = "setslice"    -> PreSetSlice(s, a.side, a.u, a.lo, a.hi, a.xs)
    [] op = "pipe_streams"-> PreSetAll(s, a.side, a.u, a.xs) /\ a.xs # <<>> /\ \A k \in DOMAIN a.xs : a.xs[k] \in Streams
    [] op = "pipe_units"  -> a.u \in Units /\ a.v \in Units /\ PreSetAll(s, "in", a.v, s.outs[a.u])
    [] op = "append"      -> PreInsert(s, a.side, a.u, Len(P(s, a.side)[a.u]), a.x)
    [] op = "insert"      -> PreInsert(s, a.side, a.u, a.i, a.x)
    [] op = "extend"      -> PreExtend(s, a.side, a.u, a.xs)
    [] op = "pop"         -> PrePop(s, a.side, a.u, a.i)
    [] op = "remove"      -> PreRemove(s, a.side, a.u, a.x)
    [] op = "replace"     -> PreReplace(s, a.side, a.u, a.x, a.y)
    [] op = "empty"       -> a.u \in Units
    [] op = "clear"       -> a.u \in Units
    [] op = "disconnect_source" -> a.x \in Streams
    [] op = "disconnect_sink"   -> a.x \in Streams
    [] op = "disconnect"        -> a.x \in Streams
    [] op = "ph_disconnect"     -> a.u \in Units /\ a.i \in 1..Len(P(s, a.side)[a.u]) /\ P(s, a.side)[a.u][a.i] = M
    [] op = "unit_disconnect"   -> a.u \in Units
    [] op = "unit_disconnect_sel" -> a.u \in Units /\ PreUnitDisconnectSel(s, a.u, a.ii, a.oi)
    [] op = "unit_insert"       -> PreUnitInsert(s, a.u, a.x, a.ik, a.ok)
    [] op = "take_place_of"     -> PreTakePlaceOf(s, a.u, a.v)
    [] op = "replace_with"      -> PreTakePlaceOf(s, a.v, a.u)
    [] op = "replace_with_none" -> a.u \in Units /\ SplicePre(s, s.ins[a.u], s.outs[a.u])
    [] op = "reconnect"         -> PreReconnect(s, a.src, a.si, a.x, a.ki, a.snk)
    [] op = "construct"         -> PreConstruct(s, a.u, a.ia, a.oa)
    [] OTHER -> FALSE

Post(s, op, a) ==
  CASE op = "setitem"     -> PostSetItem(s, a.side, a.u, a.i, a.x)
    [] op = "setitem_ph"  -> PostSetItem(s, a.side, a.u, a.i, M)
    [] op = "pipe"        -> PostSetItem(s, a.side, a.u, a.i, a.x)
    [] op = "setslice"    -> PostSetSlice(s, a.side, a.u, a.lo, a.hi, a.xs)
    [] op = "pipe_streams"-> SetAll(s, a.side, a.u, a.xs)
    [] op = "pipe_units"  -> SetAll(s, "in", a.v, s.outs[a.u])
    [] op = "append"      -> PostInsert(s, a.side, a.u, Len(P(s, a.side)[a.u]), a.x)
    [] op = "insert"      -> PostInsert(s, a.side, a.u, a.i, a.x)
    [] op = "extend"      -> PostExtend(s, a.side, a.u, a.xs)
    [] op = "pop"         -> PostPop(s, a.side, a.u, a.i)
    [] op = "remove"      -> PostRemove(s, a.side, a.u, a.x)
    [] op = "replace"     -> PostReplace(s, a.side, a.u, a.x, a.y)
    [] op = "empty"       -> PostEmpty(s, a.side, a.u)
    [] op = "clear"       -> PostClear(s, a.side, a.u)
    [] op = "disconnect_source" -> PostDisc(s, "out", a.x)
    [] op = "disconnect_sink"   -> PostDisc(s, "in", a.x)
    [] op = "disconnect"        -> PostDisc(PostDisc(s, "out", a.x), "in", a.x)
    [] op = "ph_disconnect"     -> s
    [] op = "unit_disconnect"   -> PostUnitDisconnect(s, a.u, a.join)
    [] op = "unit_disconnect_sel" -> PostUnitDisconnectSel(s, a.u, a.ii, a.oi)   \* a.bs: ports named by stream object
    [] op = "unit_insert"       -> PostUnitInsert(s, a.u, a.x, a.ik, a.ok)
    [] op = "take_place_of"     -> PostTakePlaceOf(s, a.u, a.v)
    [] op = "replace_with"      -> PostTakePlaceOf(s, a.v, a.u)
    [] op = "replace_with_none" -> PostReplaceWithNone(s, a.u)
    [] op = "reconnect"         -> PostReconnect(s, a.src, a.si, a.x, a.ki, a.snk)
    [] op = "construct"         -> PostConstruct(s, a.u, a.ia, a.oa)

\* exception class the call must end with ("none": returns normally)
Exc(s, op, a) ==
  CASE op = "unit_disconnect" -> ExcUnitDisconnect(s, a.u, a.join)
    [] op = "unit_insert"     -> ExcUnitInsert(s, a.u, a.x, a.ik, a.ok)
    [] OTHER -> None

\* value returned to the caller where the property constrains it
Res(s, op, a) ==
  CASE op = "pop" -> P(s, a.side)[a.u][a.i]
    [] OTHER -> None

---------------------------------------------------------------------------
(* the listed property, as predicates on a state record *)

TypeOKs(s) ==
  /\ \A u \in Units : /\ \A i \in DOMAIN s.ins[u]  : s.ins[u][i]  \in Streams \cup {M}
                      /\ \A i \in DOMAIN s.outs[u] : s.outs[u][i] \in Streams \cup {M}
  /\ \A x \in Streams : s.sink[x] \in Units \cup {None} /\ s.source[x] \in Units \cup {None}
Consistent(s) ==
  \A x \in Streams, u \in Units :
     /\ (x \in Range(s.ins[u]))  <=> (s.sink[x] = u)
     /\ (x \in Range(s.outs[u])) <=> (s.source[x] = u)
NoDuplicates(s) ==
  \A side \in Sides, x \in Streams :
     Cardinality({ui \in Units \X (1..(MaxLen + 2)) :
                     ui[2] \in DOMAIN P(s, side)[ui[1]] /\ P(s, side)[ui[1]][ui[2]] = x}) <= 1
FixedSizes(s) ==
  \A u \in Units : /\ InsFixed[u]  => Len(s.ins[u])  = NIns[u]
                   /\ OutsFixed[u] => Len(s.outs[u]) = NOuts[u]

InvNames == <<"TypeOK", "Consistent", "NoDuplicates", "FixedSizes">>
InvHolds(s, n) == CASE n = "TypeOK" -> TypeOKs(s) [] n = "Consistent" -> Consistent(s)
                    [] n = "NoDuplicates" -> NoDuplicates(s) [] n = "FixedSizes" -> FixedSizes(s)

TypeOK       == TypeOKs(S)
InvConsistent   == Consistent(S)
InvNoDuplicates == NoDuplicates(S)
InvFixedSizes   == FixedSizes(S)

---------------------------------------------------------------------------
(* behaviour specification *)

Init ==
  /\ ins    = [u \in Units |-> Missing(NIns[u])]
  /\ outs   = [u \in Units |-> Missing(NOuts[u])]
  /\ sink   = [x \in Streams |-> None]
  /\ source = [x \in Streams |-> None]
  /\ path   = <<>>

Act(op, a) == /\ (Pre(S, op, a) = TRUE)      \* "= TRUE": evaluate as a value, not as an action (no branching on \/)
              /\ SetS(Post(S, op, a))
              /\ path' = Append(path, [op |-> op, a |-> a])

XsSet == UNION {[1..n -> Streams \cup {M}] : n \in 0..MaxXs}
XSt   == Streams \cup {M}
Idx   == 1..(MaxLen + 1)

\* (the quantifier ranges below only skip argument tuples whose precondition is false anyway)
Lens(side, u) == Len(P(S, side)[u])
SetItem   == "setitem" \in Ops /\ \E side \in Sides, u \in Units : \E i \in 1..(Lens(side, u) + 1), x \in XSt :
                Act("setitem", [side |-> side, u |-> u, i |-> i, x |-> x])
SetItemPh == "setitem_ph" \in Ops /\ \E side \in Sides, u \in Units, v \in Units : u # v /\ \E i \in 1..Lens(side, u), j \in 1..Lens(side, v) :
                Act("setitem_ph", [side |-> side, u |-> u, i |-> i, v |-> v, j |-> j])
Pipe      == "pipe" \in Ops /\ \E side \in Sides, u \in Units : \E i \in 1..Lens(side, u), x \in Streams :
                Act("pipe", [side |-> side, u |-> u, i |-> i, x |-> x])
SetSlice  == "setslice" \in Ops /\ \E side \in Sides, u \in Units : \E lo \in 0..Lens(side, u) : \E hi \in lo..Lens(side, u), xs \in XsSet :
                Act("setslice", [side |-> side, u |-> u, lo |-> lo, hi |-> hi, xs |-> xs])
PipeStreams == "pipe_streams" \in Ops /\ \E side \in Sides, u \in Units, xs \in XsSet : Act("pipe_streams", [side |-> side, u |-> u, xs |-> xs])
PipeUnits == "pipe_units" \in Ops /\ \E u \in Units, v \in Units : Act("pipe_units", [u |-> u, v |-> v])
AppendS   == "append" \in Ops /\ \E side \in Sides, u \in Units, x \in Streams : Act("append", [side |-> side, u |-> u, x |-> x])
InsertS   == "insert" \in Ops /\ \E side \in Sides, u \in Units : \E i \in 0..Lens(side, u), x \in Streams :
                Act("insert", [side |-> side, u |-> u, i |-> i, x |-> x])
ExtendS   == "extend" \in Ops /\ \E side \in Sides, u \in Units : ~Fixed(side, u) /\ \E xs \in XsSet : Act("extend", [side |-> side, u |-> u, xs |-> xs])
PopS      == "pop" \in Ops /\ \E side \in Sides, u \in Units : \E i \in 1..Lens(side, u) : Act("pop", [side |-> side, u |-> u, i |-> i])
RemoveS   == "remove" \in Ops /\ \E side \in Sides, u \in Units, x \in Streams : Act("remove", [side |-> side, u |-> u, x |-> x])
ReplaceS  == "replace" \in Ops /\ \E side \in Sides, u \in Units, x \in Streams, y \in XSt : Act("replace", [side |-> side, u |-> u, x |-> x, y |-> y])
EmptyS    == "empty" \in Ops /\ \E side \in Sides, u \in Units : Act("empty", [side |-> side, u |-> u])
ClearS    == "clear" \in Ops /\ \E side \in Sides, u \in Units : Act("clear", [side |-> side, u |-> u])
DiscSource == "disconnect_source" \in Ops /\ \E x \in Streams : Act("disconnect_source", [x |-> x])
DiscSink   == "disconnect_sink" \in Ops /\ \E x \in Streams : Act("disconnect_sink", [x |-> x])
Disc       == "disconnect" \in Ops /\ \E x \in Streams : Act("disconnect", [x |-> x])
PhDisc     == "ph_disconnect" \in Ops /\ \E side \in Sides, u \in Units : \E i \in 1..Lens(side, u) : Act("ph_disconnect", [side |-> side, u |-> u, i |-> i])
UnitDisconnect == "unit_disconnect" \in Ops /\ \E u \in Units, j \in BOOLEAN : Act("unit_disconnect", [u |-> u, join |-> j])
UnitDisconnectSel == "unit_disconnect_sel" \in Ops /\ \E u \in Units, ii \in {<<>>, <<1>>, <<2>>, <<1, 2>>}, oi \in {<<>>, <<1>>, <<2>>}, bs \in BOOLEAN :
                Act("unit_disconnect_sel", [u |-> u, ii |-> ii, oi |-> oi, bs |-> bs])
UnitInsert == "unit_insert" \in Ops /\ \E u \in Units, x \in Streams : source[x] # None /\ sink[x] # None /\ \E ik \in 0..Len(ins[u]), ok \in 0..Len(outs[u]) :
                Act("unit_insert", [u |-> u, x |-> x, ik |-> ik, ok |-> ok])
TakePlaceOf == "take_place_of" \in Ops /\ \E u \in Units, v \in Units : Act("take_place_of", [u |-> u, v |-> v])
ReplaceWith == "replace_with" \in Ops /\ \E u \in Units, v \in Units : Act("replace_with", [u |-> u, v |-> v])
ReplaceWithNone == "replace_with_none" \in Ops /\ \E u \in Units : Act("replace_with_none", [u |-> u])
Reconnect == "reconnect" \in Ops /\ \E src \in Units \cup {None}, snk \in Units \cup {None}, x \in Streams :
                \E si \in (IF src = None THEN {1} ELSE 1..Len(outs[src])), ki \in (IF snk = None THEN {1} ELSE 1..Len(ins[snk])) :
                Act("reconnect", [src |-> src, si |-> si, x |-> x, ki |-> ki, snk |-> snk])
Construct == "construct" \in Ops /\ \E u \in Units : AllMissing(ins[u]) /\ AllMissing(outs[u]) /\ \E ia \in XsSet, oa \in XsSet :
                Act("construct", [u |-> u, ia |-> ia, oa |-> oa])

Next == \/ SetItem \/ SetItemPh \/ Pipe \/ SetSlice \/ PipeStreams \/ PipeUnits
        \/ AppendS \/ InsertS \/ ExtendS \/ PopS \/ RemoveS \/ ReplaceS \/ EmptyS \/ ClearS
        \/ DiscSource \/ DiscSink \/ Disc \/ PhDisc
        \/ UnitDisconnect \/ UnitDisconnectSel \/ UnitInsert
        \/ TakePlaceOf \/ ReplaceWith \/ ReplaceWithNone \/ Reconnect \/ Construct


---------------------------------------------------------------------------
(* binding to recorded executions (used by the generated Trace_Flowsheet) *)

InitFrom(r) == /\ ins = r.ins /\ outs = r.outs /\ sink = r.sink /\ source = r.source /\ path = <<>>

Legal(t) == \A k \in DOMAIN InvNames : InvHolds(t, InvNames[k])

ObsLegal(e) == e.obs.ph_bad = <<>>
\* a placeholder object shared by two ports (a stream-less connection) is hidden state this model does not carry:
\* steps taken from such a state are not judged
Suspended(e) == e.obs.suspend

RECURSIVE FirstInvFail(_, _)
FirstInvFail(t, k) == IF k > Len(InvNames) THEN "ok"
                      ELSE IF ~InvHolds(t, InvNames[k]) THEN "inv." \o InvNames[k]
                      ELSE FirstInvFail(t, k + 1)

\* e = [op, a, post, obs]: "ok" or the name of the first clause the step fails
Judge(s, e) ==
  LET t == Post(s, e.op, e.a) IN
  IF e.obs.exc # Exc(s, e.op, e.a) THEN "exception"
  ELSE IF Res(s, e.op, e.a) # None /\ e.obs.res # Res(s, e.op, e.a) THEN "result"
  ELSE IF e.post.ins # t.ins THEN "post.ins"
  ELSE IF e.post.outs # t.outs THEN "post.outs"
  ELSE IF e.post.sink # t.sink THEN "post.sink"
  ELSE IF e.post.source # t.source THEN "post.source"
  ELSE IF e.obs.ph_bad # <<>> THEN "placeholders"
  ELSE FirstInvFail(e.post, 1)

vars == <<ins, outs, sink, source, path>>
Spec == Init /\ [][Next]_vars

---------------------------------------------------------------------------
(* random-argument next-state relation for `tlc -simulate` on large universes: one randomly
   drawn argument tuple per operation and try, instead of enumerating all of them *)
RXs == LET n == RandomElement(0..MaxXs) IN [k \in 1..n |-> RandomElement(XSt)]
RStreams == LET n == RandomElement(1..MaxXs) IN [k \in 1..n |-> RandomElement(Streams)]
RIdx(side, u) == RandomElement(1..(Lens(side, u) + 1))
SimArgs(op) ==
  LET side == RandomElement(Sides)
      u == RandomElement(Units)
      v == RandomElement(Units)
      x == RandomElement(Streams)
  IN CASE op = "setitem"    -> [side |-> side, u |-> u, i |-> RIdx(side, u), x |-> RandomElement(XSt)]
       [] op = "setitem_ph" -> [side |-> side, u |-> u, i |-> RIdx(side, u), v |-> v, j |-> RIdx(side, v)]
       [] op = "pipe"       -> [side |-> side, u |-> u, i |-> RIdx(side, u), x |-> x]
       [] op = "setslice"   -> LET lo == RandomElement(0..Lens(side, u)) IN
                               [side |-> side, u |-> u, lo |-> lo, hi |-> RandomElement(lo..Lens(side, u)), xs |-> RXs]
       [] op = "pipe_streams" -> [side |-> side, u |-> u, xs |-> RStreams]
       [] op = "pipe_units" -> [u |-> u, v |-> v]
       [] op = "append"     -> [side |-> side, u |-> u, x |-> x]
       [] op = "insert"     -> [side |-> side, u |-> u, i |-> RandomElement(0..Lens(side, u)), x |-> x]
       [] op = "extend"     -> [side |-> side, u |-> u, xs |-> RStreams]
       [] op = "pop"        -> [side |-> side, u |-> u, i |-> RIdx(side, u)]
       [] op = "remove"     -> [side |-> side, u |-> u, x |-> x]
       [] op = "replace"    -> [side |-> side, u |-> u, x |-> x, y |-> RandomElement(XSt)]
       [] op = "empty"      -> [side |-> side, u |-> u]
       [] op = "clear"      -> [side |-> side, u |-> u]
       [] op = "disconnect_source" -> [x |-> x]
       [] op = "disconnect_sink"   -> [x |-> x]
       [] op = "disconnect"        -> [x |-> x]
       [] op = "ph_disconnect"     -> [side |-> side, u |-> u, i |-> RIdx(side, u)]
       [] op = "unit_disconnect"   -> [u |-> u, join |-> RandomElement(BOOLEAN)]
       [] op = "unit_disconnect_sel" -> [u |-> u, ii |-> RandomElement({<<>>, <<1>>, <<2>>, <<1, 2>>, <<2, 1>>}),
                                         oi |-> RandomElement({<<>>, <<1>>, <<2>>, <<1, 2>>}), bs |-> RandomElement(BOOLEAN)]
       [] op = "unit_insert" -> [u |-> u, x |-> x, ik |-> RandomElement(0..Len(ins[u])), ok |-> RandomElement(0..Len(outs[u]))]
       [] op = "take_place_of" -> [u |-> u, v |-> v]
       [] op = "replace_with"  -> [u |-> u, v |-> v]
       [] op = "replace_with_none" -> [u |-> u]
       [] op = "reconnect" -> LET src == RandomElement(Units \cup {None})
                                  snk == RandomElement(Units \cup {None}) IN
                              [src |-> src, si |-> IF src = None THEN 1 ELSE RandomElement(1..(Len(outs[src]) + 1)), x |-> x,
                               ki |-> IF snk = None THEN 1 ELSE RandomElement(1..(Len(ins[snk]) + 1)), snk |-> snk]
       [] op = "construct" -> [u |-> u, ia |-> RXs, oa |-> RXs]
SimTries == 1..4
SimNext == \E op \in Ops, try \in SimTries : \E a \in {SimArgs(op)} : Act(op, a)
SimSpec == Init /\ [][SimNext]_vars
=============================================================================
