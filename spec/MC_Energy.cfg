SPECIFICATION Spec
CONSTANTS
  Names = {"a", "b", "c"}
  HVals <- c_HVals
  PVals = {1, 2}
  QVals <- c_QVals
  Ops = {"feed", "mix", "separate", "set_H"}
VIEW view
INVARIANT LedgerOK
PROPERTY MixPressure
CONSTRAINT Depth
CHECK_DEADLOCK FALSE
