------------------------------ MODULE Streams ------------------------------
(***************************************************************************)
(* Material, phase-representation and data-sharing behaviour of            *)
(* thermosteam Stream / MultiStream (C01, C12, C13).                       *)
(*                                                                         *)
(* st[x] is the abstract state of the stream object held in slot x:        *)
(*   k   "s" single-phase Stream / "m" MultiStream                         *)
(*   ph  its phase(s) in canonical order                                   *)
(*   fl  [phase -> flow vector over the universal chemical list]           *)
(*   T, P, pkg (property package), price, cf (characterisation factor)     *)
(*   fr, tr, pr  identity of the flow / thermal-condition / phase          *)
(*               containers: streams with equal ids share that container   *)
(*               (ids are canonical: the least slot name of the class)     *)
(* sv[x] is a saved snapshot (get_data) or NoSnap.                         *)
(* Each public call is an operation with Pre (the contract), a canonical   *)
(* Post (used by the model checker) and named relational clauses (Judge)   *)
(* stating what the property demands of the logged post-state - where the  *)
(* property leaves something open (which phase mixed material lands in,    *)
(* the temperature after an energy balance) the clauses leave it open.     *)
(***************************************************************************)
EXTENDS Integers, Sequences, FiniteSets, TLC

CONSTANTS Names,        \* slot names (strings)
          NameOrder,    \* the slot names as a sequence (order used to pick canonical container ids)
          InitPkg,      \* [Names -> Pkgs] package of the stream initially held by each slot
          ModelPhaseSets, ModelPhases,   \* model: phase tuples / phases used as arguments
          NC,           \* number of chemicals in the universal list
          Pkgs,         \* package names
          PkgChems,     \* [Pkgs -> SUBSET 1..NC]   chemicals each package defines
          FlowVals,     \* model: flow values written
          TVals, PVals, \* model: temperatures / pressures
          Splits,       \* model: split fractions <<num, den>>
          Ops

VARIABLES st, sv, path
S == [st |-> st, sv |-> sv]
SetS(t) == st' = t.st /\ sv' = t.sv
view == <<st, sv>>
None == "none"
NoSnap == [k |-> "none"]
ReadTol == 1000          \* 1e-9 relative: summation order only

AllPhases == {"g", "l", "s", "L", "S"}
PhaseOrder == <<"L", "S", "g", "l", "s">>            \* canonical (ASCII) order used in the records
Canon(set) == SelectSeq(PhaseOrder, LAMBDA p : p \in set)
Range(q) == {q[i] : i \in DOMAIN q}
Swap(p) == CASE p = "l" -> "L" [] p = "L" -> "l" [] p = "s" -> "S" [] p = "S" -> "s" [] p = "g" -> "g"
Cls(p) == CASE p \in {"l", "L"} -> "liq" [] p \in {"s", "S"} -> "sol" [] p = "g" -> "gas"
\* where material of phase p goes in a stream whose phases are phs (exact label, else the other case)
Place(p, phs) == IF p \in phs THEN p ELSE IF Swap(p) \in phs THEN Swap(p) ELSE None

Zeros == [c \in 1..NC |-> 0]
VAdd(a, b) == [c \in 1..NC |-> a[c] + b[c]]
VSub(a, b) == [c \in 1..NC |-> a[c] - b[c]]
IsZero(v) == \A c \in 1..NC : v[c] = 0
NonNeg(v) == \A c \in 1..NC : v[c] >= 0
RECURSIVE VSum(_)
VSum(q) == IF q = <<>> THEN Zeros ELSE VAdd(Head(q), VSum(Tail(q)))
Row(r, p) == IF p \in Range(r.ph) THEN r.fl[p] ELSE Zeros
Tot(r) == VSum([i \in DOMAIN r.ph |-> r.fl[r.ph[i]]])
ClsTot(r, cl) == VSum([i \in DOMAIN r.ph |-> IF Cls(r.ph[i]) = cl THEN r.fl[r.ph[i]] ELSE Zeros])
Empty(r) == IsZero(Tot(r))
Min(a, b) == IF a < b THEN a ELSE b
RECURSIVE MinSeq(_)
MinSeq(q) == IF Len(q) = 1 THEN q[1] ELSE Min(q[1], MinSeq(Tail(q)))
InPkg(r, v) == \A c \in 1..NC : v[c] # 0 => c \in PkgChems[r.pkg]
FlOf(phs, F(_)) == [p \in phs |-> F(p)]

---------------------------------------------------------------------------
(* sharing: canonical container ids *)
ClassOf(t, x, f) == {y \in Names : t[y][f] = t[x][f]}
LeastName(set) == NameOrder[CHOOSE i \in DOMAIN NameOrder : NameOrder[i] \in set /\ \A j \in 1..(i - 1) : NameOrder[j] \notin set]
Normalize(t) ==
  [x \in Names |-> [t[x] EXCEPT !.fr = LeastName(ClassOf(t, x, "fr")),
                                !.tr = LeastName(ClassOf(t, x, "tr")),
                                !.pr = LeastName(ClassOf(t, x, "pr"))]]
Fresh(x) == "#" \o x
Alone(t, x) == ClassOf(t, x, "fr") = {x} /\ ClassOf(t, x, "tr") = {x} /\ ClassOf(t, x, "pr") = {x}

\* write the flow rows of x: every stream sharing the flow container sees the same vectors
\* (single-phase sharers hold the one vector under their own phase label)
PutFlow(t, x, rows) ==
  [y \in Names |-> IF t[y].fr = t[x].fr
                   THEN IF t[y].k = "s" /\ t[x].k = "s" THEN [t[y] EXCEPT !.fl = FlOf({t[y].ph[1]}, LAMBDA p : rows[t[x].ph[1]])]
                        ELSE [t[y] EXCEPT !.fl = rows]
                   ELSE t[y]]
PutTP(t, x, T, P) == [y \in Names |-> IF t[y].tr = t[x].tr THEN [t[y] EXCEPT !.T = T, !.P = P] ELSE t[y]]
PutPhase(t, x, p) ==      \* single-phase streams sharing the phase container change label together
  [y \in Names |-> IF t[y].pr = t[x].pr /\ t[y].k = "s"
                   THEN [t[y] EXCEPT !.ph = <<p>>, !.fl = FlOf({p}, LAMBDA q : t[y].fl[t[y].ph[1]])] ELSE t[y]]

---------------------------------------------------------------------------
(* canonical effects *)
\* all material of record r re-labelled for the phase set phs (exact label kept, else other case)
Relabel(r, phs) == FlOf(phs, LAMBDA q : VSum([i \in DOMAIN r.ph |-> IF Place(r.ph[i], phs) = q THEN r.fl[r.ph[i]] ELSE Zeros]))
Fits(r, phs) == \A i \in DOMAIN r.ph : IsZero(r.fl[r.ph[i]]) \/ Place(r.ph[i], phs) # None
AsMulti(r, phs) == [r EXCEPT !.k = "m", !.ph = Canon(phs), !.fl = Relabel(r, phs)]
AsSingle(r, p)  == [r EXCEPT !.k = "s", !.ph = <<p>>, !.fl = FlOf({p}, LAMBDA q : Tot(r))]
\* the library's summary phase of a multi-stream: one letter per non-empty class (lower case)
SummaryPhases(r) == {q \in {"g", "l", "s"} : ~IsZero(ClsTot(r, Cls(q)))}

Nonempty(t, ins) == SelectSeq(ins, LAMBDA y : ~Empty(t[y]))
MixRows(t, r, ins) ==       \* canonical placement: by phase label into r's phases (single: everything in its phase)
  LET ne == Nonempty(t, ins) IN
  IF t[r].k = "s" THEN FlOf({t[r].ph[1]}, LAMBDA q : VSum([i \in DOMAIN ne |-> Tot(t[ne[i]])]))
  ELSE FlOf(Range(t[r].ph), LAMBDA q : VSum([i \in DOMAIN ne |-> Relabel(t[ne[i]], Range(t[r].ph))[q]]))
MixFits(t, r, ins) == t[r].k = "s" \/ \A i \in DOMAIN ins : Fits(t[ins[i]], Range(t[r].ph))

Scaled(v, q) == [c \in 1..NC |-> (v[c] * q[1]) \div q[2]]
ScalesExactly(v, q) == \A c \in 1..NC : (v[c] * q[1]) % q[2] = 0

CopyK(t, a) == IF a.excl THEN PkgChems[t[a.y].pkg] \ Range(a.ids) ELSE Range(a.ids)
Snapshot(r) == [k |-> r.k, ph |-> r.ph, fl |-> r.fl, T |-> r.T, P |-> r.P]

---------------------------------------------------------------------------
Pre(s, op, a) ==
  LET t == s.st IN
  CASE op = "mix_from" -> /\ a.r \in Names /\ \A i \in DOMAIN a.ins : a.ins[i] \in Names
                          /\ MixFits(t, a.r, a.ins)
                          /\ InPkg(t[a.r], VSum([i \in DOMAIN a.ins |-> Tot(t[a.ins[i]])]))
                          \* inlets that share the receiver's flow container (proxies, flow proxies, links) count like the
                          \* receiver itself: each occurrence contributes the container's flows once
    [] op = "split_to" -> /\ {a.x, a.y, a.z} \subseteq Names /\ Cardinality({a.x, a.y, a.z}) = 3
                          /\ t[a.x].k = "s" /\ t[a.y].k = "s" /\ t[a.z].k = "s"
                          /\ t[a.y].fr # t[a.x].fr /\ t[a.z].fr # t[a.x].fr /\ t[a.y].fr # t[a.z].fr
                          /\ \A c \in 1..NC : (Tot(t[a.x])[c] * a.q[c][1]) % a.q[c][2] = 0
                          /\ InPkg(t[a.y], Tot(t[a.x])) /\ InPkg(t[a.z], Tot(t[a.x]))
    [] op = "separate_out" -> /\ {a.x, a.y} \subseteq Names /\ a.x # a.y /\ t[a.x].fr # t[a.y].fr
                              /\ InPkg(t[a.x], Tot(t[a.y]))
                              /\ IF t[a.x].k = "s" THEN NonNeg(VSub(Tot(t[a.x]), Tot(t[a.y])))
                                 ELSE \A i \in DOMAIN t[a.y].ph :
                                        LET p == t[a.y].ph[i] IN
                                        IsZero(t[a.y].fl[p]) \/ (p \in Range(t[a.x].ph) /\ NonNeg(VSub(t[a.x].fl[p], t[a.y].fl[p])))
    [] op = "copy_flow" -> /\ {a.x, a.y} \subseteq Names /\ a.x # a.y /\ t[a.x].fr # t[a.y].fr /\ t[a.x].k = "s"
                           /\ Range(a.ids) \subseteq PkgChems[t[a.y].pkg]
                           /\ InPkg(t[a.x], [c \in 1..NC |-> IF c \in CopyK(t, a) THEN Tot(t[a.y])[c] ELSE 0])
    \* copy_flow onto a multi-phase receiver: the library copies phase rows (by position for equal packages) or refuses; the
    \* contract is stated on the per-chemical totals only (recorded executions; not part of the model's Next)
    [] op = "copy_flow_multi" -> /\ {a.x, a.y} \subseteq Names /\ a.x # a.y /\ t[a.x].fr # t[a.y].fr /\ t[a.x].k = "m"
                                 /\ Range(a.ids) \subseteq PkgChems[t[a.y].pkg]
                                 /\ (a.ph = "all" \/ (a.ph \in AllPhases /\ ~a.excl))      \* (a named phase together with exclude: not specified here)
                                 /\ InPkg(t[a.x], [c \in 1..NC |-> IF c \in CopyK(t, a) THEN Tot(t[a.y])[c] ELSE 0])
    [] op = "scale" -> a.x \in Names /\ \A i \in DOMAIN t[a.x].ph : ScalesExactly(t[a.x].fl[t[a.x].ph[i]], a.q)
    [] op = "empty" -> a.x \in Names
    [] op = "set_flow" -> a.x \in Names /\ a.p \in Range(t[a.x].ph) /\ a.c \in PkgChems[t[a.x].pkg] /\ a.v >= 0
    [] op = "set_T" -> a.x \in Names
    [] op = "set_P" -> a.x \in Names
    \* a chemical, a property package (with aliases and chemical groups), a reaction or a reaction set is pickled and loaded: the driver
    \* compares the observable state of the two objects (a.kind names the object)
    [] op = "pickle_obj" -> TRUE
    \* a vapour-liquid calculation at (T, P) on a multi-phase stream through its solver object, the phase flows then written back as
    \* they were: the stream (and whoever shares its thermal condition) is at (T, P), nothing else changed
    [] op = "flash_TP" -> a.x \in Names /\ t[a.x].k = "m" /\ {"g", "l"} \subseteq Range(t[a.x].ph) /\ ~Empty(t[a.x])
    \* assign the enthalpy / entropy the stream already has and put the temperature back (entropy: gas only, see the C02 findings)
    [] op = "reassign" -> /\ a.x \in Names /\ ~Empty(t[a.x]) /\ a.q \in {"H", "S"}
                          /\ a.q = "S" => \A i \in DOMAIN t[a.x].ph : IsZero(t[a.x].fl[t[a.x].ph[i]]) \/ t[a.x].ph[i] = "g"
    \* representation changes are specified for streams that share no container (a new indexer is built)
    [] op = "set_phases" -> a.x \in Names /\ Alone(t, a.x) /\ a.phs # <<>> /\ Range(a.phs) \subseteq AllPhases /\ Fits(t[a.x], Range(a.phs))
    [] op = "set_phase" -> a.x \in Names /\ a.p \in AllPhases /\ (t[a.x].k = "m" => Alone(t, a.x))
    [] op = "reduce_phases" -> a.x \in Names /\ (t[a.x].k = "m" => Alone(t, a.x))
    [] op = "as_stream" -> a.x \in Names /\ (t[a.x].k = "m" => Alone(t, a.x) /\ Cardinality(SummaryPhases(t[a.x])) <= 1)
    [] op = "get_eq" -> a.x \in Names /\ t[a.x].k = "m" /\ Alone(t, a.x) /\ a.kind \in {"vle", "lle", "sle"}
    [] op = "view_read" -> a.x \in Names /\ t[a.x].k = "m" /\ a.p \in Range(t[a.x].ph)
    [] op = "view_write" -> a.x \in Names /\ t[a.x].k = "m" /\ a.p \in Range(t[a.x].ph) /\ a.c \in PkgChems[t[a.x].pkg] /\ a.v >= 0
    [] op = "view_set_T" -> a.x \in Names /\ t[a.x].k = "m" /\ a.p \in Range(t[a.x].ph)
    [] op = "save" -> a.x \in Names
    [] op = "restore" -> a.x \in Names /\ s.sv[a.x] # NoSnap /\ Alone(t, a.x)
    [] op = "copy" -> {a.d, a.x} \subseteq Names /\ a.d # a.x
    [] op = "pickle" -> {a.d, a.x} \subseteq Names /\ a.d # a.x
    [] op = "copy_like" -> /\ {a.d, a.x} \subseteq Names /\ a.d # a.x /\ InPkg(t[a.d], Tot(t[a.x]))
                           /\ Alone(t, a.d)
    [] op = "proxy" -> {a.d, a.x} \subseteq Names /\ a.d # a.x
    [] op = "flow_proxy" -> {a.d, a.x} \subseteq Names /\ a.d # a.x
    \* (a stream that already shares its indexer with a proxy would drag the proxy along: linking is specified
    \*  for a stream that shares nothing yet)
    [] op = "link_with" -> /\ {a.d, a.x} \subseteq Names /\ a.d # a.x /\ t[a.d].k = "s" /\ t[a.x].k = "s"
                           /\ t[a.d].pkg = t[a.x].pkg /\ Alone(t, a.d)
    [] op = "unlink" -> a.x \in Names /\ t[a.x].k = "s"
    [] op = "construct" -> a.x \in Names /\ a.k \in {"s", "m"} /\ a.price >= 0 /\ a.cf >= 0
    \* C14: reading a derived property (an observation; the value is compared with a freshly built stream)
    [] op = "read" -> a.x \in Names /\ ~Empty(t[a.x])
    \* property-package change: the flows are carried over chemical by chemical
    \* C11: mass / volumetric views, totals and unit conversions (observations carry the relative deviation, in 1e-12,
    \* from mol x MW, mol x molar volume at the CURRENT phase/T/P, sums of those, or mol x the fixed unit factor)
    [] op \in {"vget", "tget", "uget"} -> a.x \in Names /\ (op # "tget" => a.p \in Range(t[a.x].ph) /\ a.c \in PkgChems[t[a.x].pkg])
    [] op \in {"vset", "uset"} -> a.x \in Names /\ a.p \in Range(t[a.x].ph) /\ a.c \in PkgChems[t[a.x].pkg] /\ a.v >= 0
    [] op = "tset" -> a.x \in Names /\ ~Empty(t[a.x]) /\ \A i \in DOMAIN t[a.x].ph : ScalesExactly(t[a.x].fl[t[a.x].ph[i]], a.q) /\ a.q[1] > 0
    [] op = "ubad" -> a.x \in Names
    \* "measured": a call whose result is not expressible in the integer state (bulk copy of one stream's mass / volume view into
    \* another's, reset_flow with a phase change and volumetric units): the driver measures the read-back deviation (a.what names
    \* the call); only used as the last step of a recorded history
    [] op = "measured" -> TRUE
    [] op = "reset_thermo" -> a.x \in Names /\ a.pkg \in Pkgs /\ Alone(t, a.x) /\ \A c \in 1..NC : Tot(t[a.x])[c] # 0 => c \in PkgChems[a.pkg]
    [] OTHER -> FALSE

Exc(s, op, a) == None

Post(s, op, a) ==
  LET t == s.st IN
  CASE op = "mix_from" ->
         LET ne == Nonempty(t, a.ins)
             t1 == PutFlow(t, a.r, MixRows(t, a.r, a.ins))
             t2 == IF Len(ne) >= 2 THEN PutTP(t1, a.r, t1[a.r].T, MinSeq([i \in DOMAIN ne |-> t[ne[i]].P]))
                   ELSE IF Len(ne) = 1 /\ a.eb THEN PutTP(t1, a.r, t[ne[1]].T, t[ne[1]].P) ELSE t1
         IN [s EXCEPT !.st = t2]
    [] op = "split_to" ->
         LET v == Tot(t[a.x])
             top == [c \in 1..NC |-> (v[c] * a.q[c][1]) \div a.q[c][2]]
             t1 == PutFlow(t, a.y, FlOf({t[a.y].ph[1]}, LAMBDA p : top))
             t2 == PutFlow(t1, a.z, FlOf({t1[a.z].ph[1]}, LAMBDA p : VSub(v, top)))
             t3 == IF a.eb THEN PutPhase(PutPhase(PutTP(PutTP(t2, a.y, t[a.x].T, t[a.x].P), a.z, t[a.x].T, t[a.x].P),
                                                  a.y, t[a.x].ph[1]), a.z, t[a.x].ph[1]) ELSE t2
         IN [s EXCEPT !.st = t3]
    [] op = "separate_out" ->
         IF Empty(t[a.y]) THEN s
         ELSE IF t[a.x].k = "s" THEN [s EXCEPT !.st = PutFlow(t, a.x, FlOf({t[a.x].ph[1]}, LAMBDA p : VSub(Tot(t[a.x]), Tot(t[a.y]))))]
         ELSE [s EXCEPT !.st = PutFlow(t, a.x, FlOf(Range(t[a.x].ph), LAMBDA p : VSub(t[a.x].fl[p], Row(t[a.y], p))))]
    [] op = "copy_flow" ->
         LET src == Tot(t[a.y])
             K == CopyK(t, a)
             all == a.all /\ ~a.excl
             old == Tot(t[a.x])
             new == [c \in 1..NC |-> IF c \in K THEN src[c] ELSE IF all THEN 0 ELSE old[c]]
             t1 == PutFlow(t, a.x, FlOf({t[a.x].ph[1]}, LAMBDA p : new))
             t2 == IF a.remove THEN PutFlow(t1, a.y, FlOf(Range(t[a.y].ph), LAMBDA p : [c \in 1..NC |-> IF c \in K THEN 0 ELSE t[a.y].fl[p][c]]))
                   ELSE t1
         IN [s EXCEPT !.st = t2]
    [] op = "copy_flow_multi" -> s
    [] op = "scale" -> [s EXCEPT !.st = PutFlow(t, a.x, FlOf(Range(t[a.x].ph), LAMBDA p : Scaled(t[a.x].fl[p], a.q)))]
    [] op = "empty" -> [s EXCEPT !.st = PutFlow(t, a.x, FlOf(Range(t[a.x].ph), LAMBDA p : Zeros))]
    [] op = "set_flow" -> [s EXCEPT !.st = PutFlow(t, a.x, [t[a.x].fl EXCEPT ![a.p][a.c] = a.v])]
    [] op = "view_write" -> [s EXCEPT !.st = PutFlow(t, a.x, [t[a.x].fl EXCEPT ![a.p][a.c] = a.v])]
    [] op = "view_read" -> s
    [] op = "read" -> s
    [] op = "reset_thermo" -> [s EXCEPT !.st[a.x].pkg = a.pkg]
    [] op \in {"vget", "tget", "uget", "ubad", "measured"} -> s
    [] op \in {"vset", "uset"} -> [s EXCEPT !.st = PutFlow(t, a.x, [t[a.x].fl EXCEPT ![a.p][a.c] = a.v])]
    [] op = "tset" -> [s EXCEPT !.st = PutFlow(t, a.x, FlOf(Range(t[a.x].ph), LAMBDA p : Scaled(t[a.x].fl[p], a.q)))]
    [] op = "set_T" -> [s EXCEPT !.st = PutTP(t, a.x, a.T, t[a.x].P)]
    [] op = "view_set_T" -> [s EXCEPT !.st = PutTP(t, a.x, a.T, t[a.x].P)]
    [] op = "set_P" -> [s EXCEPT !.st = PutTP(t, a.x, t[a.x].T, a.P)]
    [] op = "flash_TP" -> [s EXCEPT !.st = PutTP(t, a.x, a.T, a.P)]
    [] op = "pickle_obj" -> s
    [] op = "reassign" -> s
    [] op = "set_phases" ->
         IF Cardinality(Range(a.phs)) = 1 THEN
            LET p == a.phs[1] IN
            IF t[a.x].k = "s" THEN [s EXCEPT !.st = PutPhase(t, a.x, p)] ELSE [s EXCEPT !.st[a.x] = AsSingle(t[a.x], p)]
         ELSE [s EXCEPT !.st[a.x] = AsMulti(t[a.x], Range(a.phs))]
    [] op = "set_phase" -> IF t[a.x].k = "s" THEN [s EXCEPT !.st = PutPhase(t, a.x, a.p)]
                           ELSE [s EXCEPT !.st[a.x] = AsSingle(t[a.x], a.p)]
    [] op = "reduce_phases" ->
         IF t[a.x].k = "s" THEN s
         ELSE LET keep == {p \in Range(t[a.x].ph) : ~IsZero(t[a.x].fl[p])} IN
              IF Cardinality(keep) >= 2 THEN [s EXCEPT !.st[a.x] = AsMulti(t[a.x], keep)]
              ELSE IF Cardinality(keep) = 1 THEN [s EXCEPT !.st[a.x] = AsSingle(t[a.x], CHOOSE p \in keep : TRUE)]
              ELSE [s EXCEPT !.st[a.x] = AsSingle(t[a.x], "l")]
    [] op = "as_stream" ->
         IF t[a.x].k = "s" THEN s
         ELSE LET keep == {p \in Range(t[a.x].ph) : ~IsZero(t[a.x].fl[p])} IN
              [s EXCEPT !.st[a.x] = AsSingle(t[a.x], IF keep = {} THEN t[a.x].ph[1] ELSE CHOOSE p \in keep : TRUE)]
    [] op = "get_eq" ->
         LET need == CASE a.kind = "vle" -> {"l", "g"} [] a.kind = "lle" -> {"l", "L"} [] a.kind = "sle" -> {"s", "l"} IN
         IF need \subseteq Range(t[a.x].ph) THEN s ELSE [s EXCEPT !.st[a.x] = AsMulti(t[a.x], Range(t[a.x].ph) \cup need)]
    [] op = "save" -> [s EXCEPT !.sv[a.x] = Snapshot(t[a.x])]
    [] op = "restore" -> LET n == s.sv[a.x] IN
                         [s EXCEPT !.st[a.x] = [t[a.x] EXCEPT !.k = n.k, !.ph = n.ph, !.fl = n.fl, !.T = n.T, !.P = n.P]]
    [] op \in {"copy", "pickle"} ->
         \* (a pickled multi-phase stream that lists a single phase comes back as a single-phase stream)
         [s EXCEPT !.st = Normalize([t EXCEPT ![a.d] = [t[a.x] EXCEPT !.fr = Fresh(a.d), !.tr = Fresh(a.d), !.pr = Fresh(a.d),
                                                              !.k = IF op = "pickle" /\ Len(t[a.x].ph) = 1 THEN "s" ELSE @,
                                                              !.price = IF op = "pickle" THEN t[a.x].price ELSE 0,
                                                              !.cf = IF op = "pickle" THEN t[a.x].cf ELSE 0]]),
                   !.sv[a.d] = NoSnap]
    [] op = "copy_like" ->
         LET src == t[a.x]
             dst == t[a.d]
             new == IF src.k = "s" THEN
                       IF dst.k = "s" THEN [dst EXCEPT !.ph = src.ph, !.fl = src.fl, !.T = src.T, !.P = src.P]
                       ELSE LET phs == IF Place(src.ph[1], Range(dst.ph)) = src.ph[1] THEN Range(dst.ph) ELSE Range(dst.ph) \cup {src.ph[1]}
                            IN [dst EXCEPT !.ph = Canon(phs), !.fl = FlOf(phs, LAMBDA p : IF p = src.ph[1] THEN Tot(src) ELSE Zeros),
                                           !.T = src.T, !.P = src.P]
                    ELSE \* multi-phase source
                       IF Len(src.ph) = 1 THEN [dst EXCEPT !.k = "s", !.ph = src.ph, !.fl = src.fl, !.T = src.T, !.P = src.P]
                       ELSE [dst EXCEPT !.k = "m", !.ph = src.ph, !.fl = src.fl, !.T = src.T, !.P = src.P]
         IN [s EXCEPT !.st[a.d] = new]
    [] op = "proxy" ->
         [s EXCEPT !.st = Normalize([t EXCEPT ![a.d] = [t[a.x] EXCEPT !.price = t[a.x].price]]), !.sv[a.d] = NoSnap]
    [] op = "flow_proxy" ->
         [s EXCEPT !.st = Normalize([t EXCEPT ![a.d] = [t[a.x] EXCEPT !.tr = Fresh(a.d), !.pr = Fresh(a.d), !.price = 0, !.cf = 0]]),
                   !.sv[a.d] = NoSnap]
    [] op = "link_with" ->
         LET d0 == t[a.d]
             x == t[a.x]
             d1 == [d0 EXCEPT !.fr = IF a.flow THEN x.fr ELSE @, !.tr = IF a.TP THEN x.tr ELSE @,
                              !.pr = IF a.phase THEN x.pr ELSE @,
                              !.T = IF a.TP THEN x.T ELSE @, !.P = IF a.TP THEN x.P ELSE @]
             p1 == IF a.phase THEN x.ph[1] ELSE d0.ph[1]
             v1 == IF a.flow THEN x.fl[x.ph[1]] ELSE d0.fl[d0.ph[1]]
         IN [s EXCEPT !.st = Normalize([t EXCEPT ![a.d] = [d1 EXCEPT !.ph = <<p1>>, !.fl = FlOf({p1}, LAMBDA p : v1)]])]
    [] op = "unlink" ->
         [s EXCEPT !.st = Normalize([t EXCEPT ![a.x] = [t[a.x] EXCEPT !.fr = Fresh(a.x), !.tr = Fresh(a.x), !.pr = Fresh(a.x)]])]
    [] op = "construct" ->     \* Stream(...) / MultiStream(...) with price and characterization factors given to the constructor
         LET phs == IF a.k = "s" THEN {"l"} ELSE {"g", "l"} IN
         [s EXCEPT !.st = Normalize([t EXCEPT ![a.x] = [k |-> a.k, ph |-> Canon(phs), fl |-> FlOf(phs, LAMBDA p : Zeros), T |-> 300, P |-> 100,
                                                        pkg |-> t[a.x].pkg, price |-> a.price, cf |-> a.cf,
                                                        fr |-> Fresh(a.x), tr |-> Fresh(a.x), pr |-> Fresh(a.x)]]),
                   !.sv[a.x] = NoSnap]

---------------------------------------------------------------------------
(* what the property demands of a logged step  e = [op, a, post, obs] *)
Changed(s, e) == {x \in Names : e.post.st[x] # s.st[x]}
\* streams whose observable state may legitimately change when x is written (they share a container with x)
Sharers(t, x) == {y \in Names : t[y].fr = t[x].fr \/ t[y].tr = t[x].tr \/ t[y].pr = t[x].pr}
FrameOK(s, e, touched) == \A x \in Changed(s, e) : \E y \in touched : x \in Sharers(s.st, y)
WellFormed(r) == /\ r.k \in {"s", "m"} /\ (r.k = "s" => Len(r.ph) = 1) /\ r.ph = Canon(Range(r.ph))
                 /\ DOMAIN r.fl = Range(r.ph) /\ \A p \in Range(r.ph) : Len(r.fl[p]) = NC
TypeOKs(s) == \A x \in Names : /\ WellFormed(s.st[x]) /\ s.st[x].pkg \in Pkgs /\ InPkg(s.st[x], Tot(s.st[x]))
                               /\ \A p \in Range(s.st[x].ph) : NonNeg(s.st[x].fl[p])
\* sharing is an equivalence with canonical ids, and sharers really hold the same content
SharingOK(s) ==
  \A x, y \in Names :
     /\ s.st[x].fr = LeastName(ClassOf(s.st, x, "fr")) /\ s.st[x].tr = LeastName(ClassOf(s.st, x, "tr"))
     /\ s.st[x].tr = s.st[y].tr => s.st[x].T = s.st[y].T /\ s.st[x].P = s.st[y].P
     /\ s.st[x].fr = s.st[y].fr => Tot(s.st[x]) = Tot(s.st[y]) /\ s.st[x].pkg = s.st[y].pkg /\ s.st[x].k = s.st[y].k
                                    /\ (s.st[x].k = "m" => s.st[x].ph = s.st[y].ph)
     /\ (s.st[x].pr = s.st[y].pr /\ s.st[x].k = "s" /\ s.st[y].k = "s") => s.st[x].ph = s.st[y].ph
Legal(s) == TypeOKs(s) /\ SharingOK(s)
TypeOK == TypeOKs(S)
InvSharing == SharingOK(S)

Judge(s, e) ==
  LET t == s.st
      u == e.post.st
      a == e.a
      op == e.op
      p == Post(s, op, a)
  IN
  IF e.op = "measured" THEN
       IF e.obs.exc # None THEN "exception" ELSE IF e.obs.diff > ReadTol THEN "view.readback_of_written_value" ELSE "ok"
  ELSE IF e.op = "ubad" THEN      \* dimensionally inconsistent units must be rejected (whatever the exception class)
       IF e.obs.exc = None THEN "bad_units_accepted" ELSE IF e.post.st # s.st THEN "frame" ELSE "ok"
  ELSE IF e.op = "copy_flow_multi" THEN
       \* a refusal is accepted (C01 speaks of calls that move material); otherwise the copied chemicals arrive, the others stay (or are cleared when all
       \* are copied), and with remove the source loses exactly what was copied
       IF e.obs.exc # None THEN "ok"
       ELSE LET K == CopyK(t, a)
                all == a.all /\ ~a.excl /\ a.ph = "all"
                \* what the call moves of chemical c: with a phase named, only what the source holds in that phase (a single-phase
                \* source: everything if that is its phase, nothing otherwise)
                Moved(c) == IF c \notin K THEN 0
                            ELSE IF a.ph = "all" THEN Tot(t[a.y])[c]
                            ELSE IF t[a.y].k = "m" THEN Row(t[a.y], a.ph)[c]
                            ELSE IF Place(t[a.y].ph[1], Range(t[a.x].ph)) = a.ph THEN Tot(t[a.y])[c] ELSE 0 IN       \* (labels up to case where the exact one is absent)
            IF ~Legal(e.post) THEN "post.illformed"
            \* copied chemicals: the source's amount arrives; what the receiver held of them in phases the copy does not write may stay
            \* (the library keeps it in some branches) but nothing beyond that appears; the other chemicals stay as they were
            ELSE IF \E c \in 1..NC : IF c \in K THEN Tot(u[a.x])[c] < Moved(c) \/ Tot(u[a.x])[c] > Moved(c) + Tot(t[a.x])[c]
                                       ELSE Tot(u[a.x])[c] # (IF all THEN 0 ELSE Tot(t[a.x])[c]) THEN "conservation.copied_flow"
            ELSE IF \E c \in 1..NC : Tot(u[a.y])[c] # (IF a.remove THEN Tot(t[a.y])[c] - Moved(c) ELSE Tot(t[a.y])[c]) THEN "conservation.source"
            ELSE IF ~FrameOK(s, e, {a.x, a.y}) THEN "frame"
            ELSE "ok"
  ELSE IF e.obs.exc # Exc(s, e.op, e.a) THEN "exception"
  ELSE IF ~Legal(e.post) THEN "post.illformed"
  ELSE IF e.post.sv # p.sv THEN "post.saved"
  ELSE IF op = "mix_from" THEN
       LET ne == Nonempty(t, a.ins)
           want == VSum([i \in DOMAIN ne |-> Tot(t[ne[i]])]) IN
       IF Tot(u[a.r]) # want THEN "conservation.total"
       ELSE IF \E q \in Range(u[a.r].ph) : ~NonNeg(u[a.r].fl[q]) THEN "nonnegative"
       ELSE IF t[a.r].k = "m" /\ u[a.r].k = "m" /\ ~a.eb /\
               \E cl \in {"gas", "liq", "sol"} : ClsTot(u[a.r], cl) # VSum([i \in DOMAIN ne |-> ClsTot(t[ne[i]], cl)]) THEN "conservation.phase_class"
       ELSE IF Len(ne) >= 2 /\ u[a.r].P # MinSeq([i \in DOMAIN ne |-> t[ne[i]].P]) THEN "pressure.min"
       ELSE IF Len(ne) = 1 /\ a.eb /\ (u[a.r].P # t[ne[1]].P \/ u[a.r].T # t[ne[1]].T) THEN "thermal.copied"
       ELSE IF Len(ne) = 0 /\ (u[a.r].P # t[a.r].P \/ u[a.r].T # t[a.r].T) THEN "thermal.unchanged"
       ELSE IF ~a.eb /\ u[a.r].T # t[a.r].T THEN "thermal.unchanged"
       ELSE IF ~a.eb /\ Len(ne) = 1 /\ u[a.r].P # t[a.r].P THEN "thermal.unchanged"
       ELSE IF ~FrameOK(s, e, {a.r}) THEN "frame"
       ELSE "ok"
  ELSE IF op \in {"set_phases", "set_phase", "reduce_phases", "as_stream", "get_eq", "restore"} THEN
       \* C12: contents, T, P unchanged; every phase's material stays in its phase (up to case when the label is absent)
       IF op # "restore" /\ Tot(u[a.x]) # Tot(t[a.x]) THEN "contents.total"
       ELSE IF op # "restore" /\ (u[a.x].T # t[a.x].T \/ u[a.x].P # t[a.x].P) THEN "contents.TP"
       ELSE IF op # "restore" /\ u[a.x].k = "m" /\ u[a.x].fl # Relabel(t[a.x], Range(u[a.x].ph)) THEN "contents.phase"
       ELSE IF op \in {"reduce_phases", "as_stream"} THEN
            \* which label a collapsed stream carries is the library's choice within the phase class; but two
            \* non-empty phases must both survive a reduction
            LET K == {q \in Range(t[a.x].ph) : ~IsZero(t[a.x].fl[q])} IN
            IF op = "reduce_phases" /\ Cardinality(K) >= 2 /\ t[a.x].k = "m" /\
               ~(u[a.x].k = "m" /\ \A q \in K : Row(u[a.x], q) = t[a.x].fl[q]) THEN "reduce.phases_merged"
            ELSE IF Cardinality(K) = 1 /\ u[a.x].k = "s" /\ Cls(u[a.x].ph[1]) # Cls(CHOOSE q \in K : TRUE) THEN "contents.phase"
            ELSE IF ~FrameOK(s, e, {a.x}) THEN "frame" ELSE "ok"
       ELSE IF u[a.x] # p.st[a.x] THEN "post.representation"
       ELSE IF ~FrameOK(s, e, {a.x}) THEN "frame"
       ELSE "ok"
  ELSE IF op = "copy_like" THEN
       LET src == t[a.x] IN
       IF u[a.d].T # src.T \/ u[a.d].P # src.P THEN "copy_like.TP"
       ELSE IF Tot(u[a.d]) # Tot(src) THEN "copy_like.flow_total"
       \* every phase's material sits in its phase (the other-case label only where the exact one is absent)
       ELSE IF u[a.d].k = "m" /\ (~Fits(src, Range(u[a.d].ph)) \/ u[a.d].fl # Relabel(src, Range(u[a.d].ph))) THEN "copy_like.phase"
       ELSE IF u[a.d].k = "s" /\ src.k = "s" /\ u[a.d].ph # src.ph THEN "copy_like.phase"
       ELSE IF ~FrameOK(s, e, {a.d}) THEN "frame"
       ELSE IF ~e.obs.behaves THEN "sharing.behaviour"
       ELSE "ok"
  ELSE IF op \in {"vget", "tget", "uget"} THEN
       IF e.obs.diff > ReadTol THEN "view.value" ELSE IF u # t THEN "frame" ELSE "ok"
  ELSE IF op = "ubad" THEN
       IF u # t THEN "frame" ELSE "ok"
  ELSE IF op = "read" THEN
       \* diff: |value - value on a fresh stream with the same flows, phases, T, P| relative, in units of 1e-12
       IF e.obs.diff > ReadTol THEN "property.stale"
       ELSE IF u # t THEN "frame" ELSE "ok"
  ELSE IF op = "view_read" THEN
       IF e.obs.res # t[a.x].fl[a.p] THEN "view.stale"
       ELSE IF e.obs.resT # t[a.x].T THEN "view.thermal"
       ELSE IF u # t THEN "frame" ELSE "ok"
  ELSE IF u # p.st THEN
       (IF \E x \in Names : u[x].fr # p.st[x].fr \/ u[x].tr # p.st[x].tr \/ u[x].pr # p.st[x].pr THEN "post.sharing"
        ELSE IF \E x \in Names : Tot(u[x]) # Tot(p.st[x]) THEN "post.flow_total"
        ELSE IF \E x \in Names : u[x].fl # p.st[x].fl \/ u[x].ph # p.st[x].ph \/ u[x].k # p.st[x].k THEN "post.phase"
        ELSE IF \E x \in Names : u[x].T # p.st[x].T \/ u[x].P # p.st[x].P THEN "post.TP"
        ELSE "post.price_cf")
  ELSE IF op \in {"copy", "pickle", "proxy", "flow_proxy", "link_with", "unlink", "copy_like"} /\ ~e.obs.behaves THEN "sharing.behaviour"
  \* the loaded stream has the chemicals (constants, reference phase, locked state) and the enthalpy of the one that was pickled
  ELSE IF op = "pickle" /\ ~e.obs.carried THEN "pickle.package_not_carried"
  ELSE IF op = "pickle_obj" /\ ~e.obs.carried THEN "pickle.object_not_equivalent"
  ELSE "ok"

ObsLegal(e) == TRUE
Suspended(e) == FALSE
InitFrom(r) == st = r.st /\ sv = r.sv /\ path = <<>>

---------------------------------------------------------------------------
(* model *)
Rec0(x, k, pkg) == [k |-> "s", ph |-> <<"l">>, fl |-> FlOf({"l"}, LAMBDA p : Zeros), T |-> 300, P |-> 100,
                    pkg |-> pkg, price |-> 0, cf |-> 0, fr |-> x, tr |-> x, pr |-> x]
Init == /\ st = [x \in Names |-> Rec0(x, "s", InitPkg[x])] /\ sv = [x \in Names |-> NoSnap] /\ path = <<>>

Act(op, a) == /\ (Pre(S, op, a) = TRUE)      \* "= TRUE": evaluate as a value, not as an action
              /\ SetS(Post(S, op, a))
              /\ path' = Append(path, [op |-> op, a |-> a])
Ins == UNION {[1..n -> Names] : n \in 0..2}
MixFrom == "mix_from" \in Ops /\ \E r \in Names, ins \in Ins, eb \in {FALSE} : Act("mix_from", [r |-> r, ins |-> ins, eb |-> eb])
SplitTo == "split_to" \in Ops /\ \E x \in Names, y \in Names, z \in Names, q \in Splits :
              Act("split_to", [x |-> x, y |-> y, z |-> z, q |-> [c \in 1..NC |-> q], eb |-> FALSE])
SeparateOut == "separate_out" \in Ops /\ \E x \in Names, y \in Names : Act("separate_out", [x |-> x, y |-> y])
SeqOfSet(set) == LET RECURSIVE f(_)
                        f(c) == IF c > NC THEN <<>> ELSE (IF c \in set THEN <<c>> ELSE <<>>) \o f(c + 1)
                    IN f(1)
CopyFlow == "copy_flow" \in Ops /\ \E x \in Names, y \in Names, ids \in SUBSET (1..NC), rm \in BOOLEAN, ex \in BOOLEAN :
              Act("copy_flow", [x |-> x, y |-> y, ids |-> SeqOfSet(ids), all |-> (ids = PkgChems[st[y].pkg]), remove |-> rm, excl |-> ex])
EmptyS == "empty" \in Ops /\ \E x \in Names : Act("empty", [x |-> x])
SetFlow == "set_flow" \in Ops /\ \E x \in Names, c \in 1..NC, v \in FlowVals : \E p \in Range(st[x].ph) :
              Act("set_flow", [x |-> x, p |-> p, c |-> c, v |-> v])
SetT == "set_T" \in Ops /\ \E x \in Names, T \in TVals : Act("set_T", [x |-> x, T |-> T])
SetP == "set_P" \in Ops /\ \E x \in Names, P \in PVals : Act("set_P", [x |-> x, P |-> P])
SetPhases == "set_phases" \in Ops /\ \E x \in Names, phs \in ModelPhaseSets : Act("set_phases", [x |-> x, phs |-> phs])
SetPhase == "set_phase" \in Ops /\ \E x \in Names, p \in ModelPhases : Act("set_phase", [x |-> x, p |-> p])
ReducePhases == "reduce_phases" \in Ops /\ \E x \in Names : Act("reduce_phases", [x |-> x])
AsStream == "as_stream" \in Ops /\ \E x \in Names : Act("as_stream", [x |-> x])
GetEq == "get_eq" \in Ops /\ \E x \in Names, k \in {"vle", "lle", "sle"} : Act("get_eq", [x |-> x, kind |-> k])
ViewWrite == "view_write" \in Ops /\ \E x \in Names, c \in 1..NC, v \in FlowVals : \E p \in Range(st[x].ph) :
              Act("view_write", [x |-> x, p |-> p, c |-> c, v |-> v])
Save == "save" \in Ops /\ \E x \in Names : Act("save", [x |-> x])
Restore == "restore" \in Ops /\ \E x \in Names : Act("restore", [x |-> x])
Copy == "copy" \in Ops /\ \E d \in Names, x \in Names : Act("copy", [d |-> d, x |-> x])
CopyLike == "copy_like" \in Ops /\ \E d \in Names, x \in Names : Act("copy_like", [d |-> d, x |-> x])
Proxy == "proxy" \in Ops /\ \E d \in Names, x \in Names : Act("proxy", [d |-> d, x |-> x])
FlowProxy == "flow_proxy" \in Ops /\ \E d \in Names, x \in Names : Act("flow_proxy", [d |-> d, x |-> x])
LinkWith == "link_with" \in Ops /\ \E d \in Names, x \in Names, f \in BOOLEAN, ph \in BOOLEAN, tp \in BOOLEAN :
              Act("link_with", [d |-> d, x |-> x, flow |-> f, phase |-> ph, TP |-> tp])
Unlink == "unlink" \in Ops /\ \E x \in Names : Act("unlink", [x |-> x])
Construct == "construct" \in Ops /\ \E x \in Names, k \in {"s", "m"}, pr \in {0, 3}, cf \in {0, 5} :
               Act("construct", [x |-> x, k |-> k, price |-> pr, cf |-> cf])
Next == MixFrom \/ SplitTo \/ SeparateOut \/ CopyFlow \/ EmptyS \/ SetFlow \/ SetT \/ SetP \/ SetPhases \/ SetPhase
        \/ ReducePhases \/ AsStream \/ GetEq \/ ViewWrite \/ Save \/ Restore \/ Copy \/ CopyLike \/ Proxy \/ FlowProxy
        \/ LinkWith \/ Unlink \/ Construct
vars == <<st, sv, path>>
Spec == Init /\ [][Next]_vars

\* design-level properties checked by TLC on the model
\* every representation change preserves contents (C12) - by construction of AsMulti/AsSingle, checked anyway
RepresentationKeepsContents ==
  [][\A x \in Names : (st[x].k # st'[x].k \/ st[x].ph # st'[x].ph) /\ Len(path') > 0 /\
        path'[Len(path')].op \in {"set_phases", "set_phase", "reduce_phases", "as_stream", "get_eq"}
        => Tot(st'[x]) = Tot(st[x]) /\ st'[x].T = st[x].T /\ st'[x].P = st[x].P]_vars
\* a write never reaches a stream that shares no container with the written one (C13 independence)
IndependentUntouched ==
  [][Len(path') > 0 /\ path'[Len(path')].op \in {"set_flow", "set_T", "set_P", "empty", "view_write"} =>
        \A y \in Names : y \notin Sharers(st, path'[Len(path')].a.x) => st'[y] = st[y]]_vars
=============================================================================
