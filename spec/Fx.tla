--------------------------------- MODULE Fx ---------------------------------
(* Exact numbers for the specifications: reduced rationals <<num, den>> with den > 0.
   (TLC has 32-bit integers and no reals; all model values are small.) *)
EXTENDS Integers, Sequences

Abs(x) == IF x < 0 THEN -x ELSE x
RECURSIVE GCD(_, _)
GCD(a, b) == IF b = 0 THEN a ELSE GCD(b, a % b)

RNorm(q) == LET g == GCD(Abs(q[1]), q[2]) IN
            IF q[1] = 0 THEN <<0, 1>> ELSE <<q[1] \div g, q[2] \div g>>
R(n)      == <<n, 1>>
Zero      == <<0, 1>>
One       == <<1, 1>>
RAdd(a, b) == RNorm(<<a[1] * b[2] + b[1] * a[2], a[2] * b[2]>>)
RNeg(a)    == <<-a[1], a[2]>>
RSub(a, b) == RAdd(a, RNeg(b))
RMul(a, b) == RNorm(<<a[1] * b[1], a[2] * b[2]>>)
RInv(a)    == IF a[1] > 0 THEN <<a[2], a[1]>> ELSE <<-a[2], -a[1]>>
RDiv(a, b) == RMul(a, RInv(b))
RLt(a, b)  == a[1] * b[2] < b[1] * a[2]
RLeq(a, b) == a[1] * b[2] <= b[1] * a[2]
RIsZero(a) == a[1] = 0
RAbs(a)    == <<Abs(a[1]), a[2]>>
RMax(a, b) == IF RLt(a, b) THEN b ELSE a
RMin(a, b) == IF RLt(b, a) THEN b ELSE a
=============================================================================
