--------------------------------- MODULE Fx ---------------------------------
(* Exact numbers for the specifications: reduced rationals <<num, den>> with den > 0.
   (TLC has 32-bit integers and no reals; all model values are small.) *)
EXTENDS Integers, Sequences

Abs(x) == IF x < 0 THEN -x ELSE x
RECURSIVE GCD(_, _)
GCD(a, b) == IF b = 0 THEN a ELSE GCD(b, a % b)

RNorm(q) == LET g == GCD(Abs(q[1]), q[2]) IN
            IF q[1] = 0 THEN <<0, 1>> ELSE <<q[1] \div g, q[2] \div g>>
R(n)      == <<n, 1>>
Zero      == <<0, 1>>
One       == <<1, 1>>
\* sums over the least common denominator and products after cross-cancellation keep intermediate values small
\* (TLC integers are 32-bit and overflow is an error)
RAdd(a, b) == LET g == GCD(a[2], b[2]) IN RNorm(<<a[1] * (b[2] \div g) + b[1] * (a[2] \div g), (a[2] \div g) * b[2]>>)
RNeg(a)    == <<-a[1], a[2]>>
RSub(a, b) == RAdd(a, RNeg(b))
RMul(a, b) == IF a[1] = 0 \/ b[1] = 0 THEN <<0, 1>>
              ELSE LET g1 == GCD(Abs(a[1]), b[2])
                       g2 == GCD(Abs(b[1]), a[2])
                   IN RNorm(<<(a[1] \div g1) * (b[1] \div g2), (a[2] \div g2) * (b[2] \div g1)>>)
RInv(a)    == IF a[1] > 0 THEN <<a[2], a[1]>> ELSE <<-a[2], -a[1]>>
RDiv(a, b) == RMul(a, RInv(b))
RLt(a, b)  == a[1] * b[2] < b[1] * a[2]
RLeq(a, b) == a[1] * b[2] <= b[1] * a[2]
RIsZero(a) == a[1] = 0
RAbs(a)    == <<Abs(a[1]), a[2]>>
RMax(a, b) == IF RLt(a, b) THEN b ELSE a
RMin(a, b) == IF RLt(b, a) THEN b ELSE a
=============================================================================
