SPECIFICATION Spec
CONSTANTS
  Tref20 = 5963
  Grid <- c_Grid
VIEW view
INVARIANT ReferenceState
INVARIANT Derivatives
INVARIANT Jumps
INVARIANT RefShift
INVARIANT LockedOnePhase
CHECK_DEADLOCK FALSE
