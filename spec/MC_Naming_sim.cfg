SPECIFICATION Spec
CONSTANTS
  Objs <- c_O3
  Names <- c_Names
  BadNames <- c_Bad
  Aliases <- c_Aliases
  Ints <- c_Ints
  Prefix = "s"
  MaxTicket = 40
  Ops <- c_AllOps
INVARIANT Functional
INVARIANT OnePrimary
INVARIANT EmitPath
CONSTRAINT SimBound
CHECK_DEADLOCK FALSE
