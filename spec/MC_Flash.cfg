SPECIFICATION Spec
CONSTANTS
  NC = 3
  A <- c_A
  WVals = {0, 1, 2, 5}
  CVals <- c_C
  VVals <- c_V
  Ops = {}
  TolT = 0
  TolP = 0
  TolC = 0
VIEW view
INVARIANT Regions
INVARIANT SolutionsAreRoots
INVARIANT ScaleFree
CHECK_DEADLOCK FALSE
