------------------------------ MODULE Activity ------------------------------
(***************************************************************************)
(* Activity-coefficient objects (C16;                                      *)
(* thermosteam/equilibrium/activity_coefficients.py, ideal.py).            *)
(*                                                                         *)
(* What is modelled exactly is the plumbing around the group-contribution  *)
(* formula: an object is built (once, then cached) for an ORDERED tuple of *)
(* chemicals; an evaluation gathers the sub-composition of the chemicals   *)
(* that have functional groups, normalises it, evaluates the formula       *)
(* there, and scatters the values back - chemicals without groups get 1.   *)
(* The formula itself is an uninterpreted function G(c, w) of the chemical *)
(* and of the normalised composition w of the group chemicals (a function  *)
(* chemical -> fraction), so "the value for a chemical does not depend on  *)
(* where it sits in the list" is:  result at the position of c = G(c, w).  *)
(* Deviations:                                                             *)
(*   "gather_writes_caller"  the gather loop as originally written in      *)
(*        gamma_UNIFAC (x[j] = x_sub[i]): ones are written into the        *)
(*        caller's array and the formula is evaluated at the equimolar     *)
(*        point;                                                           *)
(*   "unordered_cache_key"   instances cached under the SET of chemicals.  *)
(* Recorded executions of the real objects log measured quantities; TLC    *)
(* decides the clauses of C16 from them (second part).                     *)
(***************************************************************************)
EXTENDS Integers, Sequences, FiniteSets, TLC

CONSTANTS Chems,       \* model: chemicals
          Grouped,     \* model: those with functional groups
          Weights,     \* model: amounts a composition may hold (integers; compositions are normalised on use)
          Deviations, Ops,
          UnitTol, PureTol, GDTol, PermTol, FormTol   \* tolerances for recorded executions (1e-9 units)
VARIABLES cache,       \* keys of instances built so far -> the order they were built for
          last,        \* the last evaluation: order, composition before / after, result
          path
None == "none"
S == [n |-> Cardinality(DOMAIN cache)]
SetS(t) == UNCHANGED cache
view == <<cache, last>>
AuxVars == <<cache, last, path>>

Range(q) == {q[i] : i \in DOMAIN q}
Orders == {q \in UNION {[1..n -> Chems] : n \in 2..Cardinality(Chems)} : Cardinality(Range(q)) = Len(q)}
Key(q) == IF "unordered_cache_key" \in Deviations THEN Range(q) ELSE q
\* normalised composition of the group chemicals as a function chemical -> <<amount, total>> (a fraction)
SubComp(q, x) == LET G == {i \in DOMAIN q : q[i] \in Grouped}
                     tot == LET RECURSIVE Sum(_)
                                Sum(I) == IF I = {} THEN 0 ELSE LET i == CHOOSE j \in I : TRUE IN x[i] + Sum(I \ {i})
                            IN Sum(G)
                 IN [c \in {q[i] : i \in G} |-> <<x[CHOOSE i \in G : q[i] = c], tot>>]
Equimolar(q) == LET G == {i \in DOMAIN q : q[i] \in Grouped} IN [c \in {q[i] : i \in G} |-> <<1, Cardinality(G)>>]
NoLast == [order |-> <<>>, before |-> <<>>, after |-> <<>>, res |-> <<>>]

Init == cache = <<>> /\ last = NoLast /\ path = <<>>
\* evaluation through the object built for (or cached under the key of) order q, composition x (positions follow q)
Eval(q, x) ==
  LET k == Key(q)
      built == IF k \in DOMAIN cache THEN cache[k] ELSE q          \* the instance's own order
      nG == Cardinality({i \in DOMAIN q : q[i] \in Grouped})
      bad == "gather_writes_caller" \in Deviations /\ nG > 1
      w == IF bad THEN Equimolar(built) ELSE SubComp(built, x)     \* the instance gathers by ITS positions
      res == [i \in DOMAIN q |-> IF built[i] \in Grouped /\ nG > 1 THEN <<"G", built[i], w>> ELSE <<"one">>]
      after == IF bad THEN [i \in DOMAIN q |-> IF built[i] \in Grouped THEN 1 ELSE x[i]] ELSE x
  IN /\ cache' = IF k \in DOMAIN cache THEN cache ELSE [kk \in DOMAIN cache \cup {k} |-> IF kk = k THEN q ELSE cache[kk]]
     /\ last' = [order |-> q, before |-> x, after |-> after, res |-> res]
     /\ path' = Append(path, [op |-> "eval", a |-> [order |-> q, x |-> x]])
Next == "eval" \in Ops /\ \E q \in Orders : \E x \in [DOMAIN q -> Weights] :
           (\E i \in DOMAIN q : q[i] \in Grouped /\ x[i] > 0) /\ Eval(q, x)
vars == <<cache, last, path>>
Spec == Init /\ [][Next]_vars

\* C16 on the model
CallerUntouched == last.after = last.before
PositionFree == \A i \in DOMAIN last.order :
                  LET c == last.order[i]
                      nG == Cardinality({j \in DOMAIN last.order : last.order[j] \in Grouped}) IN
                  last.res[i] = IF c \in Grouped /\ nG > 1 THEN <<"G", c, SubComp(last.order, last.before)>> ELSE <<"one">>

---------------------------------------------------------------------------
(* recorded executions: e.obs carries measured quantities (integers, 1e-9 units unless noted)
   unchanged      the caller's array is bit-identical after the call
   nogroup_dev    max |gamma - 1| over chemicals without group data
   ideal_dev      max |value - 1| over the ideal activity / fugacity / Poynting objects
   pure_dev       |gamma_i - 1| at the vertex x_i = 1 (a.vertex) resp. at x_i = 1 - 1e-6 (a.near, units 1e-9: allowed PureTol)
   gd             |sum_i x_i dln(gamma_i)/ds| along a random direction on the simplex (central difference)
   perm           max relative difference of a chemical's gamma between two orders of the list
   form           max relative difference between object call and functional form f(x, T, *args) *)
Pre(s, op, a) == op \in {"eval", "ideal"}
Post(s, op, a) == s
Judge(s, e) ==
  LET o == e.obs IN
  IF o.exc # None THEN "exception"
  ELSE IF e.op = "ideal" THEN (IF o.ideal_dev > 0 THEN "ideal.not_one" ELSE "ok")
  ELSE IF ~o.unchanged THEN "sideeffect.composition_modified"
       ELSE IF o.nogroup_dev > 0 THEN "nogroup.not_one"
       ELSE IF o.form > FormTol THEN "form.differs_from_object"
       ELSE IF o.perm > PermTol THEN "position.value_depends_on_order"
       ELSE IF o.pure_dev > PureTol THEN "normalisation.pure_limit"
       ELSE IF o.gd > GDTol THEN "consistency.gibbs_duhem"
       ELSE "ok"
Legal(s) == TRUE
ObsLegal(e) == TRUE
Suspended(e) == FALSE
InitFrom(r) == cache = <<>> /\ last = NoLast /\ path = <<>>
=============================================================================
