---------------------------- MODULE Separations ----------------------------
(***************************************************************************)
(* Stream-level separation helpers (C20; thermosteam/separations.py).      *)
(*                                                                         *)
(* State: named stream slots, each a vector of integer flows (quanta of    *)
(* 1e-7 of the largest amount of that chemical in recorded executions;     *)
(* small integers in the model).  The two phases of the one multi-phase    *)
(* stream are the slots "msg" and "msl".  Helpers that are pure routing    *)
(* (mix-and-split with rational splits, phase split) are DEFINED here and  *)
(* the model checker verifies that the definitions close the balance for   *)
(* every input of the model; helpers that compute something (partition by  *)
(* given coefficients, moisture adjustment, the VLE / LLE wrappers, the    *)
(* material-balance solver) are contracts: any outcome that closes the     *)
(* balance and meets the helper's target is allowed.  Recorded executions  *)
(* log the slots before / after each call; TLC judges every call.          *)
(***************************************************************************)
EXTENDS Fx, FiniteSets, TLC

CONSTANTS NC, Slots, SplitVals, FlowVals, Ops,
          Tol,        \* quanta: allowed deviation of a balance (rounding of the log)
          RelTol      \* 1e-9: allowed relative deviation of measured targets
VARIABLES m, path
S == [m |-> m]
SetS(t) == m' = t.m
view == <<m>>
None == "none"
Chems == 1..NC
Abs2(x) == IF x < 0 THEN -x ELSE x

RECURSIVE SumSlots(_, _, _)
SumSlots(mm, q, i) == IF q = <<>> THEN 0 ELSE mm[Head(q)][i] + SumSlots(mm, Tail(q), i)
Range(q) == {q[k] : k \in DOMAIN q}
\* the balance every routing helper must close: outlets after the call hold what the inlets held before it
Closes(pre, post, ins, outs, tol) == \A i \in Chems : Abs2(SumSlots(post, outs, i) - SumSlots(pre, ins, i)) <= tol
NonNegS(mm, q) == \A k \in DOMAIN q, i \in Chems : mm[q[k]][i] >= 0
FrameOK(pre, post, touched) == \A s \in Slots \ touched : post[s] = pre[s]

\* floor / nearest integer of a rational times an integer
MulQ(n, q) == (2 * n * q[1] + q[2]) \div (2 * q[2])

---------------------------------------------------------------------------
(* definitions of the pure routing helpers *)
MixAndSplit(mm, ins, top, bot, split) ==
  LET tot == [i \in Chems |-> SumSlots(mm, ins, i)]
      t == [i \in Chems |-> MulQ(tot[i], split[i])]
  IN [mm EXCEPT ![top] = t, ![bot] = [i \in Chems |-> tot[i] - t[i]]]
PhaseSplit(mm, outs) == [mm EXCEPT ![outs[1]] = mm["msg"], ![outs[2]] = mm["msl"]]

\* C20 speaks of non-negative feeds; Bound keeps sums inside TLC's 32-bit integers (recorded flows are clipped beyond it)
Bound == 100000000
InOK(s, q) == Range(q) \subseteq Slots /\ NonNegS(s.m, q) /\ \A k \in DOMAIN q, i \in Chems : s.m[q[k]][i] <= Bound
Pre(s, op, a) ==
  CASE op = "mix_and_split" -> /\ InOK(s, a.ins) /\ {a.top, a.bot} \subseteq Slots /\ a.top # a.bot
                               /\ a.bot \notin Range(a.ins)
                               /\ \A i \in Chems : ~RLt(a.split[i], Zero) /\ ~RLt(One, a.split[i])
    [] op = "phase_split" -> Len(a.outs) = 2 /\ Range(a.outs) \subseteq Slots \ {"msg", "msl"} /\ a.outs[1] # a.outs[2] /\ InOK(s, <<"msg", "msl">>)
    \* a.enough: the two streams hold the water the requested moisture fraction needs (C20: "with sufficient water")
    [] op = "moisture" -> InOK(s, <<a.ret, a.perm>>) /\ a.enough /\ a.plain
    \* a feed that holds some of the partitioning chemicals
    [] op = "partition" -> InOK(s, <<a.feed>>) /\ (\E k \in DOMAIN a.ids : s.m[a.feed][a.ids[k]] > 0) /\ Cardinality({a.feed, a.top, a.bot}) = 3 /\ a.plain
    [] op \in {"sep_vle", "sep_lle"} -> InOK(s, <<a.feed>>) /\ (\E i \in Chems : s.m[a.feed][i] > 0) /\ a.plain
    [] op = "chemical_splits" -> InOK(s, <<a.a, a.b>>)
    \* every variable inlet holds some of the chosen chemicals (an empty inlet makes the system singular)
    [] op = "material_balance" -> InOK(s, a.var \o a.cin \o a.cout) /\ a.plain
                                  /\ \A k \in DOMAIN a.var : \E j \in DOMAIN a.ids : s.m[a.var[k]][a.ids[j]] > 1000
    [] op = "feed" -> TRUE
    [] OTHER -> FALSE
Post(s, op, a) ==
  CASE op = "mix_and_split" -> [s EXCEPT !.m = MixAndSplit(s.m, a.ins, a.top, a.bot, a.split)]
    [] op = "phase_split" -> [s EXCEPT !.m = PhaseSplit(s.m, a.outs)]
    [] OTHER -> s

\* recorded executions: e.post.m the slots after the call; e.obs measured targets (see the driver)
Judge(s, e) ==
  LET a == e.a
      o == e.obs
      u == e.post.m
      t == s.m IN
  IF e.op = "feed" THEN "ok"
  ELSE IF e.op = "mix_and_split" THEN
       IF o.exc # None THEN "exception"
       ELSE IF ~Closes(t, u, a.ins, <<a.top, a.bot>>, Tol) THEN "balance.mix_and_split"
       ELSE IF \E i \in Chems : Abs2(u[a.top][i] - MixAndSplit(t, a.ins, a.top, a.bot, a.split)[a.top][i]) > Tol THEN "target.split"
       ELSE IF ~NonNegS(u, <<a.top, a.bot>>) THEN "negative.mix_and_split"
       ELSE IF ~FrameOK(t, u, {a.top, a.bot}) THEN "frame"
       ELSE "ok"
  ELSE IF e.op = "phase_split" THEN
       IF o.exc # None THEN "exception"
       ELSE IF u # PhaseSplit(t, a.outs) THEN "target.phase_split"
       ELSE "ok"
  ELSE IF e.op = "moisture" THEN
       \* a.ret, a.perm, a.water (index), a.mc6 (requested mass fraction, 1e-6), a.enough (sufficient water)
       IF o.exc = "InfeasibleRegion" THEN (IF a.enough THEN "moisture.infeasibility_reported_with_sufficient_water" ELSE "ok")
       ELSE IF o.exc # None THEN "exception"
       ELSE IF ~Closes(t, u, <<a.ret, a.perm>>, <<a.ret, a.perm>>, Tol) THEN "balance.moisture"
       ELSE IF \E i \in Chems \ {a.water} : u[a.ret][i] # t[a.ret][i] \/ u[a.perm][i] # t[a.perm][i] THEN "moisture.other_chemical_moved"
       ELSE IF ~NonNegS(u, <<a.ret, a.perm>>) THEN "negative.moisture"
       ELSE IF a.enough /\ Abs2(o.mc6 - a.mc6) > 2 THEN "target.moisture_fraction"
       ELSE IF ~FrameOK(t, u, {a.ret, a.perm}) THEN "frame"
       ELSE "ok"
  ELSE IF e.op = "partition" THEN
       \* a.feed, a.top, a.bot, a.ids, a.topc, a.botc (index sets as sequences); o.reported (infeasibility warned / raised),
       \* o.kdev (max relative deviation of achieved K ratios, 1e-9; 0 when an outlet is empty)
       IF o.exc = "InfeasibleRegion" THEN "ok"
       ELSE IF o.exc # None THEN "exception"
       ELSE IF ~Closes(t, u, <<a.feed>>, <<a.top, a.bot>>, Tol) THEN "balance.partition"
       ELSE IF ~o.reported /\ ~NonNegS(u, <<a.top, a.bot>>) THEN "negative.partition"
       ELSE IF \E k \in DOMAIN a.topc : Abs2(u[a.bot][a.topc[k]]) > Tol THEN "partition.top_chemical_in_bottom"
       ELSE IF \E k \in DOMAIN a.botc : Abs2(u[a.top][a.botc[k]]) > Tol THEN "partition.bottom_chemical_in_top"
       ELSE IF ~o.reported /\ o.kdev > RelTol THEN "target.partition_coefficients"
       ELSE IF ~FrameOK(t, u, {a.top, a.bot}) THEN "frame"
       ELSE "ok"
  ELSE IF e.op \in {"sep_vle", "sep_lle"} THEN
       IF o.exc # None THEN "ok"           \* the equilibrium call itself raised: C03 / C04 / C15 territory
       ELSE IF ~Closes(t, u, <<a.feed>>, <<a.top, a.bot>>, Tol) THEN "balance." \o e.op
       ELSE IF ~NonNegS(u, <<a.top, a.bot>>) THEN "negative." \o e.op
       ELSE IF a.ms /\ (\E i \in Chems : Abs2(u["msg"][i] + u["msl"][i] - t[a.feed][i]) > Tol) THEN "balance.multi_stream_copy"
       ELSE IF ~FrameOK(t, u, {a.top, a.bot, "msg", "msl"}) THEN "frame"
       ELSE "ok"
  ELSE IF e.op = "chemical_splits" THEN
       IF o.exc # None THEN "exception" ELSE IF o.dev > RelTol THEN "target.chemical_splits" ELSE IF u # t THEN "frame" ELSE "ok"
  ELSE \* material_balance: a.ids, a.var, a.cin, a.cout; o.comp_dev (a variable inlet's composition changed), o.resid (relative residual, 1e-9)
       IF o.exc # None THEN "ok"           \* singular system: outside the quantifier
       ELSE IF o.resid > RelTol THEN "target.material_balance_residual"
       ELSE IF o.comp_dev > RelTol THEN "material_balance.inlet_composition_changed"
       ELSE IF ~FrameOK(t, u, Range(a.var)) THEN "frame"
       ELSE "ok"
Legal(s) == TRUE
ObsLegal(e) == TRUE
Suspended(e) == FALSE
InitFrom(r) == m = r.m /\ path = <<>>

---------------------------------------------------------------------------
(* model *)
Init == m \in [Slots -> [Chems -> FlowVals]] /\ path = <<>>
Act(op, a) == (Pre(S, op, a) = TRUE) /\ SetS(Post(S, op, a)) /\ path' = Append(path, [op |-> op, a |-> a])
Plain == Slots \ {"msg", "msl"}
MixSplit == "mix_and_split" \in Ops /\ \E i1 \in Plain, i2 \in Plain, tp \in Plain, bt \in Plain, sp \in [Chems -> SplitVals] :
              Act("mix_and_split", [ins |-> <<i1, i2>>, top |-> tp, bot |-> bt, split |-> sp])
PSplit == "phase_split" \in Ops /\ \E o1 \in Plain, o2 \in Plain : Act("phase_split", [outs |-> <<o1, o2>>])
Next == MixSplit \/ PSplit
vars == <<m, path>>
Spec == Init /\ [][Next]_vars
\* the routing definitions close the balance (inlets before = outlets after), also when an outlet is one of the inlets
BalanceClosed == [][Len(path') > Len(path) =>
                     LET e == path'[Len(path')] IN
                     IF e.op = "mix_and_split" THEN Closes(m, m', e.a.ins, <<e.a.top, e.a.bot>>, 0)
                     ELSE Closes(m, m', <<"msg", "msl">>, e.a.outs, 0)]_vars
NonNegative == \A s \in Slots, i \in Chems : m[s][i] >= 0
=============================================================================
