---------------------------- MODULE MC_Flowsheet ----------------------------
(* Model-checking universe for Flowsheet: three units with fixed and variable
   port counts (the universe named in property C18). *)
EXTENDS Flowsheet, Json

c_Units == {"A", "B", "C"}
c_NIns  == [u \in c_Units |-> CASE u = "A" -> 2 [] u = "B" -> 1 [] u = "C" -> 1]
c_NOuts == [u \in c_Units |-> CASE u = "A" -> 1 [] u = "B" -> 1 [] u = "C" -> 2]
c_InsFixed  == [u \in c_Units |-> u # "B"]
c_OutsFixed == [u \in c_Units |-> u # "C"]
c_S2 == {"s1", "s2"}
c_S3 == {"s1", "s2", "s3"}
c_S4 == {"s1", "s2", "s3", "s4"}
c_S5 == {"s1", "s2", "s3", "s4", "s5"}
c_AllOps == {"setitem", "setitem_ph", "pipe", "setslice", "pipe_streams", "pipe_units",
             "append", "insert", "extend", "pop", "remove", "replace", "empty", "clear",
             "disconnect_source", "disconnect_sink", "disconnect", "ph_disconnect",
             "unit_disconnect", "unit_disconnect_sel", "unit_insert", "take_place_of",
             "replace_with", "replace_with_none", "reconnect", "construct"}
\* larger universe, explored by -simulate only
b_Units == {"A", "B", "C", "D", "E", "F"}
b_NIns  == [u \in b_Units |-> CASE u = "A" -> 2 [] u = "B" -> 1 [] u = "C" -> 1 [] u = "D" -> 1 [] u = "E" -> 2 [] u = "F" -> 3]
b_NOuts == [u \in b_Units |-> CASE u = "A" -> 1 [] u = "B" -> 1 [] u = "C" -> 2 [] u = "D" -> 1 [] u = "E" -> 2 [] u = "F" -> 2]
b_InsFixed  == [u \in b_Units |-> u \notin {"B", "E"}]
b_OutsFixed == [u \in b_Units |-> u \notin {"C", "E"}]
b_Streams == {"s1", "s2", "s3", "s4", "s5", "s6", "s7", "s8", "s9", "s10"}
DepthBound == TLCGet("level") <= 4
\* -simulate: print the operation sequence of every finished behaviour
SimDepth == 40
EmitPath == (TLCGet("level") = SimDepth) => PrintT(<<"PATH", ToJson(path)>>)
=============================================================================
