----------------------------- MODULE MC_Streams -----------------------------
EXTENDS Streams
c_Names == {"a", "b", "c"}
c_Order == <<"a", "b", "c">>
c_Names2 == {"a", "b"}
c_Order2 == <<"a", "b">>
c_Pkgs == {"P", "Q", "P2"}
c_PkgChems == [p \in c_Pkgs |-> IF p = "P" THEN {1, 2} ELSE {2, 1}]
c_InitPkg == [x \in c_Names |-> IF x = "c" THEN "Q" ELSE "P"]
c_InitPkg2 == [x \in c_Names2 |-> "P"]
c_FlowVals == {0, 4}
c_TVals == {300, 350}
c_PVals == {100, 200}
c_Splits == {<<1, 2>>, <<1, 1>>, <<0, 1>>}
c_PhaseSets == {<<"g", "l">>, <<"l">>, <<"L", "l">>, <<"g">>}
c_PhaseSets12 == {<<"g", "l">>, <<"l">>, <<"L", "l">>, <<"L", "g">>, <<"g", "l", "s">>, <<"S", "s">>}
c_Phases == {"l", "g"}
c_OpsC01 == {"mix_from", "split_to", "separate_out", "copy_flow", "empty", "set_flow", "set_phases"}
c_OpsC12 == {"set_flow", "set_phases", "set_phase", "reduce_phases", "as_stream", "get_eq", "view_write", "save", "restore"}
c_OpsC13 == {"construct", "copy", "pickle", "copy_like", "proxy", "flow_proxy", "link_with", "unlink", "set_flow", "set_T", "set_phase"}
Depth4 == TLCGet("level") <= 4
Depth5 == TLCGet("level") <= 5
Depth6 == TLCGet("level") <= 6
=============================================================================
