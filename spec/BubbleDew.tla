----------------------------- MODULE BubbleDew -----------------------------
(***************************************************************************)
(* Bubble and dew points (C08; thermosteam/equilibrium/bubble_point.py,    *)
(* dew_point.py).                                                          *)
(*                                                                         *)
(* Exact sub-world: ideal package and synthetic chemicals whose vapour     *)
(* pressure is Psat_i(T) = A[i] T, so that for weights w (any positive     *)
(* multiple of a composition)                                              *)
(*    bubble:  P = T  sum(w_i A_i) / W        y_i = w_i A_i / sum(w A)     *)
(*    dew:     P = T  W / sum(w_i / A_i)      x_i = (w_i/A_i) / sum(w/A)   *)
(* and the temperatures at given pressure are the inverses.  Everything is *)
(* a rational number; TLC computes it and (1) checks on a grid of weights  *)
(* the statements of C08 for this definition (dew <= bubble pressure,      *)
(* bubble <= dew temperature, round trip, single component = saturation,   *)
(* normalised compositions, independence of scale and order), (2) compares *)
(* the values returned by the real BubblePoint / DewPoint objects built on *)
(* such chemicals.  For real packages (activity coefficients) the driver   *)
(* logs measured residuals and TLC judges the clauses.                     *)
(***************************************************************************)
EXTENDS IdealVLE

CONSTANTS WVals, TVals, PVals, Ops,
          TolT, TolP, TolC    \* allowed deviations of recorded values: 1e-6 K, 1e-6 kPa, 1e-9 (fractions)
VARIABLES w, path              \* model: current weights
S == [w |-> w]
SetS(t) == w' = t.w
view == <<w>>
None == "none"


---------------------------------------------------------------------------
(* recorded executions.  a.w: integer weights (the composition passed to the library is any positive multiple of w) *)
Pre(s, op, a) == op \in {"bubble_P", "bubble_T", "dew_P", "dew_T", "measured"} /\ (op # "measured" => Present(a.w) # {})
Post(s, op, a) == s
Judge(s, e) ==
  LET a == e.a
      o == e.obs
      v == a.w IN
  IF o.exc # None THEN "exception"
  ELSE IF e.op = "measured" THEN
       \* real package: residuals measured by the driver (1e-9 relative units)
       IF o.eq_dev > a.tol THEN "equation.fractions_do_not_sum_to_one"
       ELSE IF o.norm_dev > a.tol THEN "composition.not_normalised"
       ELSE IF o.rt_dev > a.tol THEN "roundtrip.not_the_original_value"
       ELSE IF ~o.order_ok THEN "bracket.bubble_above_dew"
       ELSE IF o.single_dev > a.tol THEN "single.not_the_saturation_value"
       ELSE IF o.atm_dev > a.tol THEN "roundtrip.from_one_atmosphere_not_the_original_value"
       ELSE IF o.scale_dev > a.tol THEN "composition.depends_on_scale"
       ELSE IF o.perm_dev > a.tol THEN "composition.depends_on_order"
       ELSE IF o.hist_dev > a.tol THEN "composition.depends_on_earlier_requests"
       ELSE "ok"
  ELSE \* exact sub-world: a.T in K (integer), a.P in kPa (integer); obs.T6 (1e-6 K), obs.P6 (1e-6 kPa), obs.c9 (1e-9)
       IF e.op = "bubble_P" THEN
            IF ~Near(o.P6, BubbleP(a.T, v), 2, TolP) THEN "exact.bubble_pressure"
            ELSE IF \E i \in Chems : ~Near(o.c9[i], Y(v, i), 3, TolC) THEN "exact.vapour_composition"
            ELSE "ok"
       ELSE IF e.op = "bubble_T" THEN
            IF ~Near(o.T6, BubbleT(R(a.P), v), 2, TolT) THEN "exact.bubble_temperature"
            ELSE IF \E i \in Chems : ~Near(o.c9[i], Y(v, i), 3, TolC) THEN "exact.vapour_composition"
            ELSE "ok"
       ELSE IF e.op = "dew_P" THEN
            IF ~Near(o.P6, DewP(a.T, v), 2, TolP) THEN "exact.dew_pressure"
            ELSE IF \E i \in Chems : ~Near(o.c9[i], X(v, i), 3, TolC) THEN "exact.liquid_composition"
            ELSE "ok"
       ELSE IF ~Near(o.T6, DewT(R(a.P), v), 2, TolT) THEN "exact.dew_temperature"
            ELSE IF \E i \in Chems : ~Near(o.c9[i], X(v, i), 3, TolC) THEN "exact.liquid_composition"
            ELSE "ok"
Legal(s) == TRUE
ObsLegal(e) == TRUE
\* measured cases whose bubble / dew pressure at the drawn temperature lies outside 5e3 - 3e6 Pa are outside the quantifier of C08
Suspended(e) == e.op = "measured" /\ ~e.obs.in_range
InitFrom(r) == w = r.w /\ path = <<>>

---------------------------------------------------------------------------
(* model: the statements of C08 on the definition *)
Init == w \in [Chems -> WVals] /\ Present(w) # {} /\ path = <<>>
Next == UNCHANGED <<w, path>>
vars == <<w, path>>
Spec == Init /\ [][Next]_vars
Bracket == \A T \in TVals, P \in PVals : RLeq(DewP(T, w), BubbleP(T, w)) /\ RLeq(BubbleT(R(P), w), DewT(R(P), w))
RoundTrip == \A T \in TVals : BubbleT(BubbleP(T, w), w) = R(T) /\ DewT(DewP(T, w), w) = R(T)
Normalised == SumF(LAMBDA i : Y(w, i), NC) = One /\ SumF(LAMBDA i : X(w, i), NC) = One
SingleComponent == Cardinality(Present(w)) = 1 => LET i == CHOOSE j \in Present(w) : TRUE IN
                     \A T \in TVals : BubbleP(T, w) = R(A[i] * T) /\ DewP(T, w) = R(A[i] * T)
ScaleFree == \A k \in {2, 7} : LET v == [i \in Chems |-> k * w[i]] IN
               \A T \in TVals : BubbleP(T, v) = BubbleP(T, w) /\ DewP(T, v) = DewP(T, w) /\ \A i \in Chems : Y(v, i) = Y(w, i)
=============================================================================
