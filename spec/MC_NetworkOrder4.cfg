SPECIFICATION Spec
CONSTANTS
  Units <- c_U4
  UnitOrder <- c_O4
  MaxBack = 2
VIEW view
INVARIANT NeverStuck
INVARIANT OrderOK
INVARIANT NoRepeat
CHECK_DEADLOCK FALSE
