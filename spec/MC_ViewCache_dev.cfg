SPECIFICATION Spec
CONSTANTS
  Temps = {300, 350}
  Press = {100, 200}
  PhasesV = {"l", "g"}
  Chems = {1, 2}
  Deviations = {"ignores_phase"}
VIEW view
INVARIANT VolFresh
CHECK_DEADLOCK FALSE
