----------------------------- MODULE MC_Naming -----------------------------
EXTENDS Naming, Json
c_O2 == {"o1", "o2"}
c_O3 == {"o1", "o2", "o3"}
c_Names == {"a", "b"}
c_Bad == {"1x"}
c_Aliases == {"k"}
c_Ints == {0, 2}
c_AllOps == {"set_id", "discard", "pop", "discard_name", "clear", "untrack", "track", "open_ctx", "close_ctx", "alias", "contains", "search"}
Depth4 == TLCGet("level") <= 4 /\ Bound
Depth5 == TLCGet("level") <= 5 /\ Bound
Depth6 == TLCGet("level") <= 6 /\ Bound
SimDepth == 30
SimBound == ticket <= 40 /\ Len(ctx) <= 3 /\ \A i \in DOMAIN ctx : Len(ctx[i]) <= 8
EmitPath == (TLCGet("level") = SimDepth) => PrintT(<<"PATH", ToJson(path)>>)
=============================================================================
