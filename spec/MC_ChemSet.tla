----------------------------- MODULE MC_ChemSet -----------------------------
EXTENDS ChemSet, Json
c_Cols == {"p", "q"}
c_C2 == {"A", "B"}
c_C3 == {"A", "B", "C"}
c_AN == {"x", "g"}
c_AllOps == {"new", "append", "extend", "extend_from", "compile", "set_alias", "define_group", "index", "contains", "getitem", "len"}
c_Mut == {"new", "append", "extend", "extend_from", "compile", "set_alias", "define_group"}
Depth4 == TLCGet("level") <= 4
Depth5 == TLCGet("level") <= 5
Depth6 == TLCGet("level") <= 6
SimDepth == 25
EmitPath == (TLCGet("level") = SimDepth) => PrintT(<<"PATH", ToJson(path)>>)
=============================================================================
