SPECIFICATION Spec
CONSTANTS
  Names <- c_Names2
  Kind <- c_Kind2
  NRows = 2
  NCols = 2
  Alphabet <- c_Alphabet
  Bound = 2
  DBound = 2
  Ops <- c_AllOps
VIEW view
INVARIANT TypeOK
INVARIANT ValuesBounded
PROPERTY InPlaceKeepsShape
PROPERTY ReadOnlyFrozen
CHECK_DEADLOCK FALSE
