SPECIFICATION Spec
CONSTANTS
  Names <- c_NamesA
  Kind <- c_KindA
  NRows = 2
  NCols = 2
  Alphabet <- c_Alphabet
  Bound = 1
  DBound = 1
  Ops <- c_AllOps
VIEW view
INVARIANT TypeOK
INVARIANT ValuesBounded
PROPERTY InPlaceKeepsShape
PROPERTY ReadOnlyFrozen
CHECK_DEADLOCK FALSE
