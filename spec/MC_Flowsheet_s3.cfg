SPECIFICATION Spec
CONSTANTS
  Units <- c_Units
  Streams <- c_S3
  NIns <- c_NIns
  NOuts <- c_NOuts
  InsFixed <- c_InsFixed
  OutsFixed <- c_OutsFixed
  MaxLen = 2
  MaxXs = 2
  Ops <- c_AllOps
VIEW view
INVARIANT TypeOK
INVARIANT InvConsistent
INVARIANT InvNoDuplicates
INVARIANT InvFixedSizes
CHECK_DEADLOCK FALSE
