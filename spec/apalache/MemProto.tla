------------------------------ MODULE MemProto ------------------------------
(* Apalache wrapper: the LLE memory protocol of LiquidEq.tla with unbounded temperatures (inductive invariant). *)
EXTENDS Integers

VARIABLES
  \* @type: Int;
  memT,
  \* @type: Str;
  memZ,
  \* @type: Str;
  memCs,
  \* @type: <<Int, Str, Str>>;
  memK,
  \* @type: <<Int, Str, Str>>;
  lastCall,
  \* @type: <<Int, Str, Str>>;
  lastK

Comps == {"z1", "z2", "z3"}
Sets == {"c1", "c2"}

Init == /\ memT = 0 /\ memZ = "none" /\ memCs = "none" /\ memK = <<0, "none", "none">>
        /\ lastCall = <<0, "none", "none">> /\ lastK = <<0, "none", "none">>

\* the corrected reuse test: same chemicals, same composition class, same temperature class
Call(T, z, cs, uc) ==
  LET reuse == uc /\ memCs = cs /\ memT = T /\ memZ = z
      tok == IF reuse THEN memK ELSE <<T, z, cs>> IN
  /\ memT' = T /\ memZ' = z /\ memCs' = cs /\ memK' = tok
  /\ lastCall' = <<T, z, cs>> /\ lastK' = tok

Next == \E T \in Int, z \in Comps, cs \in Sets, uc \in BOOLEAN : T > 0 /\ Call(T, z, cs, uc)

Fresh == lastK = lastCall
MemSound == memK = <<memT, memZ, memCs>>
IndInv == Fresh /\ MemSound
ZS == Comps \cup {"none"}
CS == Sets \cup {"none"}
IndInit == /\ memT \in Int /\ memZ \in ZS /\ memCs \in CS /\ memK \in Int \X ZS \X CS
           /\ lastCall \in Int \X ZS \X CS /\ lastK \in Int \X ZS \X CS
           /\ IndInv
=============================================================================
