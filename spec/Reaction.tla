------------------------------ MODULE Reaction ------------------------------
(***************************************************************************)
(* Stoichiometric reactions of thermosteam/reaction/_reaction.py           *)
(* (C05: applying reactions; C17: reaction arithmetic; algebra of C06).    *)
(*                                                                         *)
(* m      the feed: flow of every chemical (exact rationals)               *)
(* Rx[x]   the reaction held by slot x: stoichiometry nu (normalised to -1  *)
(*        on the reactant), reactant index r, conversion X; or NoRxn       *)
(* RS     a reaction set built from slots: kind + item records             *)
(* Reactions are values; every operator is a named action with a pure      *)
(* Post; the trace validator compares the real objects' stoichiometry,     *)
(* reactant and conversion (and the reacted feed) with it.                 *)
(***************************************************************************)
EXTENDS Fx, FiniteSets, TLC

CONSTANTS NC,          \* number of chemicals
          AtomNames,   \* set of element names
          Atoms,       \* [1..NC -> [AtomNames -> Int]]  formula of each chemical
          Lib,         \* sequence of balanced stoichiometries (vectors of rationals), not normalised
          Slots,       \* names of reaction slots
          XVals, KVals, ModelFeeds,   \* model: conversions, scalars, feed vectors
          Ops

VARIABLES m, Rx, RS, path
S == [m |-> m, Rx |-> Rx, RS |-> RS]
SetS(t) == m' = t.m /\ Rx' = t.Rx /\ RS' = t.RS
view == <<m, Rx, RS>>
None == "none"
NoRxn == [k |-> "none"]
NoSet == [kind |-> "none", items |-> <<>>]
IsRxn(x) == x.k = "rxn"
Rxn(nu, r, X) == [k |-> "rxn", nu |-> nu, r |-> r, X |-> X]

Vec(F(_)) == [c \in 1..NC |-> F(c)]
VAddR(a, b) == Vec(LAMBDA c : RAdd(a[c], b[c]))
VScale(q, a) == Vec(LAMBDA c : RMul(q, a[c]))
ZeroV == Vec(LAMBDA c : Zero)
\* stoichiometry normalised so that the reactant has coefficient -1
Normalise(nu, r) == VScale(RInv(RNeg(nu[r])), nu)
NonNegV(v) == \A c \in 1..NC : ~RLt(v[c], Zero)

\* applying reactions to a feed f
Apply1(x, f) == VAddR(f, VScale(RMul(f[x.r], x.X), x.nu))
RECURSIVE ApplySeries(_, _)
ApplySeries(items, f) == IF items = <<>> THEN f ELSE ApplySeries(Tail(items), Apply1(Head(items), f))
RECURSIVE ParallelDelta(_, _)
ParallelDelta(items, f) == IF items = <<>> THEN ZeroV
                           ELSE VAddR(VScale(RMul(f[Head(items).r], Head(items).X), Head(items).nu), ParallelDelta(Tail(items), f))
ApplyParallel(items, f) == VAddR(f, ParallelDelta(items, f))
ApplySet(set, f) == IF set.kind = "parallel" THEN ApplyParallel(set.items, f) ELSE ApplySeries(set.items, f)

\* element balance
RECURSIVE SumAtoms(_, _, _)
SumAtoms(v, e, c) == IF c > NC THEN Zero ELSE RAdd(RMul(R(Atoms[c][e]), v[c]), SumAtoms(v, e, c + 1))
AtomFlow(v) == [e \in AtomNames |-> SumAtoms(v, e, 1)]
Balanced(nu) == \A e \in AtomNames : SumAtoms(nu, e, 1) = Zero

---------------------------------------------------------------------------
(* reaction arithmetic (C17) as values *)
Combine(a, b, sign) ==      \* a + b (sign = 1) or a - b (sign = -1); same reactant
  LET Xb == IF sign = 1 THEN b.X ELSE RNeg(b.X)
      X == RAdd(a.X, Xb)
      s == VAddR(VScale(a.X, a.nu), VScale(Xb, b.nu))
  IN Rxn(Normalise(s, a.r), a.r, X)
Trivial(x) == RIsZero(x.X) \/ \A c \in 1..NC : RIsZero(x.nu[c])      \* "no reaction takes place"
AddR(a, b) == IF Trivial(b) THEN a ELSE Combine(a, b, 1)
SubR(a, b) == IF Trivial(b) THEN a ELSE Combine(a, b, -1)
MulR(a, q) == [a EXCEPT !.X = RMul(a.X, q)]
NegR(a) == [a EXCEPT !.X = RNeg(a.X)]
Backwards(a, p) == Rxn(Normalise(a.nu, p), p, a.X)       \* p, a product, becomes the reactant: all signs flip

Pre(s, op, a) ==
  CASE op = "load" -> /\ a.x \in Slots /\ a.i \in DOMAIN Lib /\ a.r \in 1..NC /\ RLt(Lib[a.i][a.r], Zero)
    [] op = "set_feed" -> Len(a.f) = NC /\ NonNegV(a.f)
    [] op = "react" -> a.x \in Slots /\ IsRxn(s.Rx[a.x]) /\ a.how \in {"stream", "stream_wt", "stream_wt_mol", "stream_other", "stream_other_reset", "array", "sparse"}
    [] op = "react_set" -> s.RS.kind # "none" /\ a.how \in {"stream", "stream_wt", "array"}
    [] op \in {"add", "sub"} -> /\ {a.d, a.x, a.y} \subseteq Slots /\ IsRxn(s.Rx[a.x]) /\ IsRxn(s.Rx[a.y])
                                /\ s.Rx[a.x].r = s.Rx[a.y].r
                                /\ ~Trivial(s.Rx[a.y]) => ~RIsZero(IF op = "add" THEN RAdd(s.Rx[a.x].X, s.Rx[a.y].X) ELSE RSub(s.Rx[a.x].X, s.Rx[a.y].X))
    [] op \in {"iadd", "isub"} -> /\ {a.x, a.y} \subseteq Slots /\ a.x # a.y /\ IsRxn(s.Rx[a.x]) /\ IsRxn(s.Rx[a.y])
                                  /\ s.Rx[a.x].r = s.Rx[a.y].r
                                  /\ ~Trivial(s.Rx[a.y]) => ~RIsZero(IF op = "iadd" THEN RAdd(s.Rx[a.x].X, s.Rx[a.y].X) ELSE RSub(s.Rx[a.x].X, s.Rx[a.y].X))
    [] op \in {"mul", "div", "rmul"} -> {a.d, a.x} \subseteq Slots /\ IsRxn(s.Rx[a.x]) /\ RLt(Zero, a.q)
    [] op \in {"imul", "idiv"} -> a.x \in Slots /\ IsRxn(s.Rx[a.x]) /\ RLt(Zero, a.q)
    [] op \in {"neg", "copy"} -> {a.d, a.x} \subseteq Slots /\ IsRxn(s.Rx[a.x])
    [] op = "backwards" -> /\ {a.d, a.x} \subseteq Slots /\ IsRxn(s.Rx[a.x]) /\ a.p \in 1..NC /\ RLt(Zero, s.Rx[a.x].nu[a.p])
                           \* a.auto: no reactant argument is passed; only defined when there is a single product
                           /\ a.auto => Cardinality({c \in 1..NC : RLt(Zero, s.Rx[a.x].nu[c])}) = 1
    [] op = "set_X" -> a.x \in Slots /\ IsRxn(s.Rx[a.x])
    [] op = "mkset" -> /\ a.kind \in {"parallel", "series", "system"} /\ a.xs # <<>>
                       /\ \A i \in DOMAIN a.xs : a.xs[i] \in Slots /\ IsRxn(s.Rx[a.xs[i]])
    [] op \in {"item_set_X", "set_set_X"} -> s.RS.kind \in {"parallel", "series"} /\ a.i \in DOMAIN s.RS.items
    [] op \in {"item_imul", "item_idiv"} -> s.RS.kind \in {"parallel", "series"} /\ a.i \in DOMAIN s.RS.items /\ RLt(Zero, a.q)
    [] op = "set_assign_X" -> s.RS.kind \in {"parallel", "series"} /\ Len(a.Xs) = Len(s.RS.items)
    [] op = "reduce" -> s.RS.kind = "parallel"
    \* copying a reaction set, optionally re-based (a.basis: "none", "wt", "mol"): a new set, the original untouched
    [] op = "set_copy" -> s.RS.kind \in {"parallel", "series"}
    \* the reaction of slot x rebuilt as a phase-tagged reaction (all chemicals in the gas phase) and copied / re-based / scaled /
    \* combined: the driver reports whether the tagged operand stayed as it was (a.how names the operation)
    [] op = "tagged_probe" -> a.x \in Slots /\ IsRxn(s.Rx[a.x])
    \* a system assembled from copies of the set's members whose members are then ALL switched to the other basis: the call
    \* is refused (the library's answer) or gives what the system gave before (re-basing does not change a reaction's meaning)
    [] op = "system_rebased" -> s.RS.kind = "system" /\ a.basis \in {"wt", "mol"}
    \* the same reaction re-based to weight (its molar meaning is unchanged)
    [] op \in {"to_wt", "to_mol"} -> {a.d, a.x} \subseteq Slots /\ IsRxn(s.Rx[a.x])
    [] OTHER -> FALSE

\* a reaction applied to the feed must raise instead of producing a negative flow
Expected(s, op, a) == IF op = "react" THEN Apply1(s.Rx[a.x], s.m) ELSE ApplySet(s.RS, s.m)
MustRaise(s, op, a) == op \in {"react", "react_set"} /\ ~NonNegV(Expected(s, op, a))

Post(s, op, a) ==
  CASE op = "load" -> [s EXCEPT !.Rx[a.x] = Rxn(Normalise(Lib[a.i], a.r), a.r, a.X)]
    [] op = "set_feed" -> [s EXCEPT !.m = a.f]
    [] op \in {"react", "react_set"} -> IF MustRaise(s, op, a) THEN s ELSE [s EXCEPT !.m = Expected(s, op, a)]
    [] op = "add" -> [s EXCEPT !.Rx[a.d] = AddR(s.Rx[a.x], s.Rx[a.y])]
    [] op = "sub" -> [s EXCEPT !.Rx[a.d] = SubR(s.Rx[a.x], s.Rx[a.y])]
    [] op = "iadd" -> [s EXCEPT !.Rx[a.x] = AddR(s.Rx[a.x], s.Rx[a.y])]
    [] op = "isub" -> [s EXCEPT !.Rx[a.x] = SubR(s.Rx[a.x], s.Rx[a.y])]
    [] op \in {"mul", "rmul"} -> [s EXCEPT !.Rx[a.d] = MulR(s.Rx[a.x], a.q)]
    [] op = "div" -> [s EXCEPT !.Rx[a.d] = MulR(s.Rx[a.x], RInv(a.q))]
    [] op = "imul" -> [s EXCEPT !.Rx[a.x] = MulR(s.Rx[a.x], a.q)]
    [] op = "idiv" -> [s EXCEPT !.Rx[a.x] = MulR(s.Rx[a.x], RInv(a.q))]
    [] op = "neg" -> [s EXCEPT !.Rx[a.d] = NegR(s.Rx[a.x])]
    [] op = "copy" -> [s EXCEPT !.Rx[a.d] = s.Rx[a.x]]
    [] op = "backwards" -> [s EXCEPT !.Rx[a.d] = Backwards(s.Rx[a.x], a.p)]
    [] op = "set_X" -> [s EXCEPT !.Rx[a.x].X = a.X]
    [] op = "mkset" -> [s EXCEPT !.RS = [kind |-> a.kind,      \* a reaction system applies its reactions in series
                                        items |-> [i \in DOMAIN a.xs |-> s.Rx[a.xs[i]]]]]
    [] op \in {"item_set_X", "set_set_X"} -> [s EXCEPT !.RS.items[a.i].X = a.X]
    [] op = "item_imul" -> [s EXCEPT !.RS.items[a.i].X = RMul(@, a.q)]
    [] op = "item_idiv" -> [s EXCEPT !.RS.items[a.i].X = RMul(@, RInv(a.q))]
    [] op = "set_assign_X" -> [s EXCEPT !.RS.items = [i \in DOMAIN s.RS.items |-> [s.RS.items[i] EXCEPT !.X = a.Xs[i]]]]
    [] op \in {"reduce", "set_copy", "tagged_probe", "system_rebased"} -> s
    [] op \in {"to_wt", "to_mol"} -> [s EXCEPT !.Rx[a.d] = s.Rx[a.x]]

---------------------------------------------------------------------------
TypeOKs(s) == /\ Len(s.m) = NC /\ \A c \in 1..NC : s.m[c][2] > 0
              /\ \A x \in Slots : s.Rx[x].k \in {"none", "rxn"}
              /\ \A x \in Slots : IsRxn(s.Rx[x]) => Len(s.Rx[x].nu) = NC /\ s.Rx[x].nu[s.Rx[x].r] = <<-1, 1>>
Legal(s) == TypeOKs(s)
TypeOK == TypeOKs(S)
\* every reaction reachable by arithmetic from balanced ones is balanced (C05 precondition is closed under C17)
AllBalanced == \A x \in Slots : IsRxn(Rx[x]) => Balanced(Rx[x].nu)
SetBalanced == \A i \in DOMAIN RS.items : Balanced(RS.items[i].nu)

\* magnitudes TLC's 32-bit integers can carry through a product; the driver does not log larger values (obs.too_big)
Lim == 2000
BigQ(x) == Abs(x[1]) > Lim \/ x[2] > Lim
BigRxn(x) == IsRxn(x) /\ (BigQ(x.X) \/ \E c \in 1..NC : BigQ(x.nu[c]))
TooBig(s) == (\E c \in 1..NC : BigQ(s.m[c])) \/ (\E x \in Slots : BigRxn(s.Rx[x])) \/ (\E i \in DOMAIN s.RS.items : BigRxn(s.RS.items[i]))
\* the slots an operation may write
Touched(e) == IF e.op \in {"add", "sub", "mul", "rmul", "div", "neg", "copy", "backwards", "to_wt", "to_mol"} THEN {e.a.d}
              ELSE IF e.op \in {"iadd", "isub", "imul", "idiv", "set_X", "load"} THEN {e.a.x} ELSE {}
\* e = [op, a, post, obs]: obs = [exc, same (result is the same object as an operand), operands_ok, setX_seen]
Judge(s, e) ==
  LET p == Post(s, e.op, e.a)
      u == e.post
  IN IF e.obs.too_big THEN      \* the real result has values beyond Lim (not logged): fine only if the expected result has, too
          (IF TooBig(p) \/ MustRaise(s, e.op, e.a) THEN "ok" ELSE "result.magnitude")
     ELSE IF e.op \in {"react", "react_set"} THEN
          IF MustRaise(s, e.op, e.a) THEN (IF e.obs.exc = None THEN "negative_flow_not_rejected" ELSE "ok")
          ELSE IF e.obs.exc # None THEN "exception"
          ELSE IF u.m # p.m THEN
               (IF \E c \in 1..NC : u.m[c][2] <= 0 THEN "products.not_a_number"
                ELSE IF AtomFlow(u.m) # AtomFlow(s.m) THEN "atoms_not_conserved"
                ELSE IF e.op = "react" /\ u.m[s.Rx[e.a.x].r] # p.m[s.Rx[e.a.x].r] THEN "conversion"
                ELSE "products")
          ELSE IF u.Rx # s.Rx \/ u.RS # s.RS THEN "reaction_changed_by_application"
          ELSE "ok"
     ELSE IF e.obs.exc # None THEN "exception"
     ELSE IF ~e.obs.tagged_ok THEN "tagged_operand_changed"
     ELSE IF e.obs.rebased THEN "operand_rebased_in_place"          \* a reaction object still held by a slot changed its basis
     ELSE IF ~e.obs.held_agree THEN "set_item_out_of_sync"       \* items obtained earlier and the set disagree on a conversion
     ELSE IF e.op = "reduce" /\ e.obs.reduced_m # ApplyParallel(s.RS.items, s.m) THEN "reduce.not_equivalent"
     ELSE IF e.op = "set_copy" /\ e.obs.reduced_m # ApplySet(s.RS, s.m) THEN "copy.not_equivalent"
     ELSE IF e.op = "set_copy" /\ e.obs.same THEN "result_is_operand"
     ELSE IF e.op = "system_rebased" /\ ~e.obs.refused /\ NonNegV(ApplySet(s.RS, s.m)) /\ e.obs.reduced_m # ApplySet(s.RS, s.m)
          THEN "system.rebased_member_not_equivalent"
     ELSE IF u.m # p.m THEN "feed_changed"
     ELSE IF \E x \in Slots : x \notin Touched(e) /\ u.Rx[x] # s.Rx[x] THEN "operand_changed"
     ELSE IF u.Rx # p.Rx THEN
          (IF \E x \in Slots : u.Rx[x].k = "rxn" /\ p.Rx[x].k = "rxn" /\ u.Rx[x].X # p.Rx[x].X THEN "result.X"
           ELSE IF \E x \in Slots : u.Rx[x].k = "rxn" /\ p.Rx[x].k = "rxn" /\ u.Rx[x].r # p.Rx[x].r THEN "result.reactant"
           ELSE "result.stoichiometry")
     ELSE IF u.RS # p.RS THEN "set"
     ELSE IF e.op \in {"add", "sub", "mul", "rmul", "div", "neg", "copy", "backwards", "to_wt", "to_mol"} /\ e.obs.same THEN "result_is_operand"
     ELSE "ok"
ObsLegal(e) == TRUE
Suspended(e) == FALSE
InitFrom(r) == m = r.m /\ Rx = r.Rx /\ RS = r.RS /\ path = <<>>

---------------------------------------------------------------------------
Init == /\ m = Vec(LAMBDA c : Zero) /\ Rx = [x \in Slots |-> NoRxn] /\ RS = NoSet /\ path = <<>>
Act(op, a) == /\ (Pre(S, op, a) = TRUE)
              /\ SetS(Post(S, op, a))
              /\ path' = Append(path, [op |-> op, a |-> a])
Feeds == ModelFeeds
Load == "load" \in Ops /\ \E x \in Slots, i \in DOMAIN Lib, r \in 1..NC, X \in XVals : Act("load", [x |-> x, i |-> i, r |-> r, X |-> X])
SetFeed == "set_feed" \in Ops /\ \E f \in Feeds : Act("set_feed", [f |-> f])
React == "react" \in Ops /\ \E x \in Slots : Act("react", [x |-> x, how |-> "stream"])
ReactSet == "react_set" \in Ops /\ Act("react_set", [how |-> "stream"])
Add == "add" \in Ops /\ \E d \in Slots, x \in Slots, y \in Slots : Act("add", [d |-> d, x |-> x, y |-> y])
Sub == "sub" \in Ops /\ \E d \in Slots, x \in Slots, y \in Slots : Act("sub", [d |-> d, x |-> x, y |-> y])
IAdd == "iadd" \in Ops /\ \E x \in Slots, y \in Slots : Act("iadd", [x |-> x, y |-> y])
ISub == "isub" \in Ops /\ \E x \in Slots, y \in Slots : Act("isub", [x |-> x, y |-> y])
Mul == "mul" \in Ops /\ \E d \in Slots, x \in Slots, q \in KVals : Act("mul", [d |-> d, x |-> x, q |-> q])
Div == "div" \in Ops /\ \E d \in Slots, x \in Slots, q \in KVals : Act("div", [d |-> d, x |-> x, q |-> q])
Neg == "neg" \in Ops /\ \E d \in Slots, x \in Slots : Act("neg", [d |-> d, x |-> x])
Back == "backwards" \in Ops /\ \E d \in Slots, x \in Slots, p \in 1..NC : Act("backwards", [d |-> d, x |-> x, p |-> p, auto |-> FALSE])
MkSet == "mkset" \in Ops /\ \E k \in {"parallel", "series"}, xs \in UNION {[1..n -> Slots] : n \in 1..2} : Act("mkset", [kind |-> k, xs |-> xs])
Next == Load \/ SetFeed \/ React \/ ReactSet \/ Add \/ Sub \/ IAdd \/ ISub \/ Mul \/ Div \/ Neg \/ Back \/ MkSet
vars == <<m, Rx, RS, path>>
Spec == Init /\ [][Next]_vars

\* C05 on the model: a successful application conserves every element and converts exactly X of the reactant
Last == path'[Len(path')]
ReactConserves == [][Len(path') > Len(path) /\ Last.op \in {"react", "react_set"} => AtomFlow(m') = AtomFlow(m)]_vars
ReactConverts  == [][Len(path') > Len(path) /\ Last.op = "react" /\ m' # m =>
                        m'[Rx[Last.a.x].r] = RMul(m[Rx[Last.a.x].r], RSub(One, Rx[Last.a.x].X))]_vars
\* C17 on the model: a + b acts like a and b in parallel, (a + b) - b like a, on every model feed
AddIsParallel == [][Len(path') > Len(path) /\ Last.op = "add" /\ ~Trivial(Rx[Last.a.y]) /\ ~Trivial(Rx[Last.a.x]) =>
                       \A f \in Feeds : Apply1(Rx'[Last.a.d], f) = ApplyParallel(<<Rx[Last.a.x], Rx[Last.a.y]>>, f)]_vars
SubUndoesAdd == \A x \in Slots, y \in Slots :
                  (IsRxn(Rx[x]) /\ IsRxn(Rx[y]) /\ Rx[x].r = Rx[y].r /\ ~Trivial(Rx[y]) /\ ~Trivial(Rx[x]) /\ ~RIsZero(RAdd(Rx[x].X, Rx[y].X)))
                  => SubR(AddR(Rx[x], Rx[y]), Rx[y]) = Rx[x]
=============================================================================
