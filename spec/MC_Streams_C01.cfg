SPECIFICATION Spec
CONSTANTS
  Names <- c_Names
  NameOrder <- c_Order
  InitPkg <- c_InitPkg
  NC = 2
  Pkgs <- c_Pkgs
  PkgChems <- c_PkgChems
  FlowVals <- c_FlowVals
  TVals <- c_TVals
  PVals <- c_PVals
  Splits <- c_Splits
  ModelPhaseSets <- c_PhaseSets
  ModelPhases <- c_Phases
  Ops <- c_OpsC01
VIEW view
INVARIANT TypeOK
INVARIANT InvSharing
CONSTRAINT Depth4
CHECK_DEADLOCK FALSE
