----------------------------- MODULE MC_PhaseEq -----------------------------
EXTENDS PhaseEq
c_Cls == <<"vol", "gas", "sol">>
\* start from tables holding at most 2 quanta of each chemical
SmallInit == \A i \in Chems : Total(tab, i) <= 2
MCInit == Init /\ SmallInit
MCSpec == MCInit /\ [][Next]_vars
\* quick: one chemical may hold 2 quanta, the others at most 1
QuickInit == Init /\ Total(tab, 1) <= 2 /\ \A i \in Chems \ {1} : Total(tab, i) <= 1
QuickSpec == QuickInit /\ [][Next]_vars
Depth == Len(path) <= 3
=============================================================================
