----------------------------- MODULE MC_PhaseEq -----------------------------
EXTENDS PhaseEq
c_Cls == <<"vol", "gas", "sol">>
\* start from tables holding at most 2 quanta of each chemical
SmallInit == \A i \in Chems : Total(tab, i) <= 2
MCInit == Init /\ SmallInit
MCSpec == MCInit /\ [][Next]_vars
Depth == Len(path) <= 3
=============================================================================
