------------------------------- MODULE Energy -------------------------------
(***************************************************************************)
(* Stream energy balance (C02): mixing with the energy balance on, energy- *)
(* balanced separation, and assignment of enthalpy / entropy.              *)
(*                                                                         *)
(* The state is an enthalpy ledger: for every stream slot its enthalpy     *)
(* flow H (fixed point, unit HUnit kJ/hr), pressure P and whether it is    *)
(* empty; temperatures are not modelled (they are whatever makes H come    *)
(* out right - that is the property).  The model checker runs all          *)
(* sequences of mixing / separation / enthalpy assignment over small       *)
(* integer enthalpies and checks that total enthalpy changes only by the   *)
(* heat added or by explicit assignment.  Recorded executions of the real  *)
(* streams log H (read through the library), P, T before and after each    *)
(* call; TLC checks the balance with the solver's documented temperature   *)
(* resolution:  |H_out - H_expected| <= Tol = Cflow * T_tol + rounding.    *)
(***************************************************************************)
EXTENDS Integers, Sequences, FiniteSets, TLC

CONSTANTS Names, HVals, PVals, QVals, Ops
VARIABLES H, P, E, added, path       \* E[x]: stream is empty;  added: net heat injected / assigned so far (model only)
S == [H |-> H, P |-> P, E |-> E]
SetS(t) == H' = t.H /\ P' = t.P /\ E' = t.E
view == <<H, P, E, added>>
AuxVars == <<added, path>>
None == "none"
Range(q) == {q[i] : i \in DOMAIN q}
RECURSIVE SumH(_, _)
SumH(s, q) == IF q = <<>> THEN 0 ELSE s.H[Head(q)] + SumH(s, Tail(q))
NonEmpty(s, ins) == SelectSeq(ins, LAMBDA y : ~s.E[y])
RECURSIVE MinP(_, _)
MinP(s, q) == IF Len(q) = 1 THEN s.P[q[1]] ELSE LET m == MinP(s, Tail(q)) IN IF s.P[q[1]] < m THEN s.P[q[1]] ELSE m
Abs(x) == IF x < 0 THEN -x ELSE x
Near(x, y, tol) == Abs(x - y) <= tol

Pre(s, op, a) ==
  \* a.reach: sum H_in + Q is an enthalpy the mixed material can have inside the model temperature range
  CASE op = "mix" -> a.r \in Names /\ (\A i \in DOMAIN a.ins : a.ins[i] \in Names) /\ a.reach
    \* a.reach: H(x) - H(y) is an enthalpy the remaining material can have inside the model temperature range
    [] op = "separate" -> {a.x, a.y} \subseteq Names /\ a.x # a.y /\ ~s.E[a.x] /\ a.reach
    \* a.reach: the target lies between the stream's values at the two ends of the model temperature range
    [] op \in {"set_H", "set_h", "set_S"} -> a.x \in Names /\ ~s.E[a.x] /\ a.reach
    [] op \in {"set_same_H", "set_same_h", "set_same_S"} -> a.x \in Names /\ ~s.E[a.x]
    [] OTHER -> FALSE
\* model-level (exact) effect
Post(s, op, a) ==
  CASE op = "mix" ->
         LET ne == NonEmpty(s, a.ins) IN
         IF ne = <<>> THEN [s EXCEPT !.H[a.r] = 0, !.E[a.r] = TRUE]
         ELSE [s EXCEPT !.H[a.r] = SumH(s, ne) + a.Q, !.P[a.r] = MinP(s, ne), !.E[a.r] = FALSE]
    [] op = "separate" -> IF s.E[a.y] THEN s ELSE [s EXCEPT !.H[a.x] = s.H[a.x] - s.H[a.y]]
    [] op = "set_H" -> [s EXCEPT !.H[a.x] = a.v]
    [] OTHER -> s

\* e = [op, a, post, obs]; obs carries the measured values: tol (allowed deviation in H units),
\*     Ttol_ok (|T_after - T_before| within the solver's resolution, for assignments of the current value),
\*     readback (for set_h / set_S: relative deviation of the value read back, in 1e-9)
Judge(s, e) ==
  LET a == e.a
      u == e.post
      ne == NonEmpty(s, a.ins) IN
  IF e.op = "separate" /\ ~s.E[a.y] /\ u.E[a.x] THEN "ok"        \* everything was separated out: no enthalpy left to speak of
  ELSE IF e.obs.exc # None THEN "exception"
  ELSE IF e.op = "mix" THEN
       IF ne = <<>> THEN (IF ~u.E[a.r] THEN "mix.empty" ELSE "ok")
       ELSE IF u.E[a.r] THEN "mix.lost_material"
       ELSE IF ~Near(u.H[a.r], SumH(s, ne) + a.Q, e.obs.tol) THEN
            (IF Len(ne) = 1 /\ a.Q # 0 /\ Near(u.H[a.r], SumH(s, ne), e.obs.tol) THEN "mix.heat_ignored" ELSE "mix.enthalpy")
       ELSE IF u.P[a.r] # MinP(s, ne) THEN "mix.pressure"
       ELSE IF \E x \in Names : x # a.r /\ (u.H[x] # s.H[x] \/ u.P[x] # s.P[x] \/ u.E[x] # s.E[x]) THEN "frame"
       ELSE "ok"
  ELSE IF e.op = "separate" THEN
       IF s.E[a.y] THEN (IF ~Near(u.H[a.x], s.H[a.x], e.obs.tol) THEN "separate.enthalpy" ELSE "ok")
       ELSE IF ~Near(u.H[a.x], s.H[a.x] - s.H[a.y], e.obs.tol) THEN "separate.enthalpy"
       ELSE "ok"
  ELSE IF e.op = "set_H" THEN
       IF ~Near(u.H[a.x], a.v, e.obs.tol) THEN "assign.readback"
       ELSE IF ~e.obs.T_in_range THEN "assign.temperature_left_model_range" ELSE "ok"
  ELSE IF e.op \in {"set_h", "set_S"} THEN
       \* readback: relative deviation in 1e-9 (set_S: in units of the temperature error it corresponds to); 100 = 1e-7,
       \* ten times the solver's documented resolution T_tol / T
       IF e.obs.readback > 100 THEN "assign.readback"
       ELSE IF ~e.obs.T_in_range THEN "assign.temperature_left_model_range" ELSE "ok"
  ELSE \* assigning the value the stream already has leaves the temperature where it is
       IF ~e.obs.Ttol_ok THEN "assign.same_value_moves_T" ELSE "ok"
Legal(s) == TRUE
ObsLegal(e) == TRUE
Suspended(e) == FALSE
InitFrom(r) == H = r.H /\ P = r.P /\ E = r.E /\ added = 0 /\ path = <<>>

Init == /\ H = [x \in Names |-> 0] /\ P = [x \in Names |-> CHOOSE p \in PVals : TRUE] /\ E = [x \in Names |-> TRUE]
        /\ added = 0 /\ path = <<>>
Total(s) == LET RECURSIVE f(_)
                f(set) == IF set = {} THEN 0 ELSE LET x == CHOOSE y \in set : TRUE IN (IF s.E[x] THEN 0 ELSE s.H[x]) + f(set \ {x})
            IN f(Names)
Act(op, a) == /\ (Pre(S, op, a) = TRUE) /\ SetS(Post(S, op, a))
              /\ added' = added + (Total(Post(S, op, a)) - Total(S))
              /\ path' = Append(path, [op |-> op, a |-> a])
Feed == "feed" \in Ops /\ \E x \in Names, h \in HVals, p \in PVals :
          /\ H' = [H EXCEPT ![x] = h] /\ P' = [P EXCEPT ![x] = p] /\ E' = [E EXCEPT ![x] = FALSE]
          /\ added' = added + (h - (IF E[x] THEN 0 ELSE H[x])) /\ path' = Append(path, [op |-> "feed", a |-> [x |-> x, h |-> h, p |-> p]])
Mix == "mix" \in Ops /\ \E r \in Names, ins \in UNION {[1..n -> Names] : n \in 0..2}, q \in QVals : Act("mix", [r |-> r, ins |-> ins, Q |-> q, reach |-> TRUE])
Sep == "separate" \in Ops /\ \E x \in Names, y \in Names : Act("separate", [x |-> x, y |-> y, reach |-> TRUE])
SetH == "set_H" \in Ops /\ \E x \in Names, v \in HVals : Act("set_H", [x |-> x, v |-> v, reach |-> TRUE])
Next == Feed \/ Mix \/ Sep \/ SetH
vars == <<H, P, E, added, path>>
Spec == Init /\ [][Next]_vars
\* mixing a receiver from streams that do not include it overwrites the receiver: the pool of enthalpy changes by
\* exactly the heat added (plus what the overwritten receiver held); the ledger `added` accounts for all of it
LedgerOK == Total(S) = added
\* the receiver's pressure is never above the pressure of any stream mixed into it
MixPressure == [][Len(path') > Len(path) /\ path'[Len(path')].op = "mix" =>
                    \A i \in DOMAIN path'[Len(path')].a.ins :
                        LET y == path'[Len(path')].a.ins[i] IN E[y] \/ P'[path'[Len(path')].a.r] <= P[y]]_vars
=============================================================================
