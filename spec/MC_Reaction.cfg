SPECIFICATION Spec
CONSTANTS
  NC = 6
  AtomNames <- c_AtomNames
  Atoms <- c_Atoms
  Lib <- c_Lib
  Slots <- c_Slots
  XVals <- c_XVals
  KVals <- c_KVals
  ModelFeeds <- c_Feeds
  Ops <- c_AllOps
VIEW view
INVARIANT TypeOK
INVARIANT AllBalanced
INVARIANT SetBalanced
INVARIANT SubUndoesAdd
PROPERTY ReactConserves
PROPERTY ReactConverts
PROPERTY AddIsParallel
CONSTRAINT Depth4
CHECK_DEADLOCK FALSE
