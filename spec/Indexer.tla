------------------------------ MODULE Indexer ------------------------------
(***************************************************************************)
(* Name-keyed access to flow data (thermosteam/indexer.py, _chemicals.py,  *)
(* utils/cache.py) -- property C10.                                        *)
(*                                                                         *)
(* data[p][i] is the flow of chemical i (1..N) in phase p.  A lookup key   *)
(* is resolved by Classify, a pure function of the chemical table; the     *)
(* code memoises resolutions in two bounded caches which are modelled here *)
(* as implemented (FIFO eviction at CapC; trimming of TrimM entries above  *)
(* CapM; cross-package mixing also writes the chemical cache).  The        *)
(* property is that what a lookup returns / a write stores is the dense    *)
(* meaning of the key, whatever the history (CacheCoherent + ResultOK).    *)
(* Deviations names transcriptions of code defects; with Deviations = {}   *)
(* the model is the intended (and, after the fix: commits, actual) design. *)
(***************************************************************************)
EXTENDS Integers, Sequences, FiniteSets, TLC

CONSTANTS N,           \* number of chemicals
          Names,       \* set of all chemical names (IDs, CAS numbers, aliases)
          NameIdx,     \* [Names -> 1..N]
          Groups,      \* set of group names
          GroupIdx,    \* [Groups -> Seq(1..N)]
          GroupComp,   \* [Groups -> Seq(<<num, den>>)]  default composition (sums to one)
          Phases,      \* sequence of phase names; <<"x">> with Multi = FALSE for a single-phase indexer
          Multi,
          CapC, CapM, TrimM,
          Deviations,  \* subset of {"overlap_kind0", "trim_raises"}
          Values,      \* model: values written
          ModelKeys,   \* model: chemical keys used (records)
          CasTuples,   \* model: name tuples used by cross-package mixing
          Ops

VARIABLES data, cacheC, cacheM, path

S == [data |-> data, cacheC |-> cacheC, cacheM |-> cacheM]
SetS(t) == data' = t.data /\ cacheC' = t.cacheC /\ cacheM' = t.cacheM
view == <<data, cacheC, cacheM>>
None == "none"

Range(q) == {q[i] : i \in DOMAIN q}
PhaseSet == Range(Phases)
PhaseIx(p) == CHOOSE i \in DOMAIN Phases : Phases[i] = p

---------------------------------------------------------------------------
(* chemical keys:  [k |-> "name", n |-> str]  [k |-> "tuple", ns |-> seq]  [k |-> "all"]
   resolution   :  [kind, idx]  kind in chem group nested list all undef *)
Resolve1(n) == IF n \in Names THEN [g |-> FALSE, i |-> NameIdx[n], m |-> <<>>]
               ELSE [g |-> TRUE, i |-> 0, m |-> GroupIdx[n]]
Defined(n) == n \in Names \/ n \in Groups
Classify(ck) ==
  CASE ck.k = "all"  -> [kind |-> "all", idx |-> <<>>]
    [] ck.k = "name" -> IF ~Defined(ck.n) THEN [kind |-> "undef", idx |-> <<>>]
                        ELSE IF ck.n \in Names THEN [kind |-> "chem", idx |-> <<Resolve1(ck.n)>>]
                        ELSE [kind |-> "group", idx |-> <<Resolve1(ck.n)>>]
    [] ck.k = "tuple" -> IF \E j \in DOMAIN ck.ns : ~Defined(ck.ns[j]) THEN [kind |-> "undef", idx |-> <<>>]
                         ELSE [kind |-> IF \E j \in DOMAIN ck.ns : ck.ns[j] \in Groups THEN "nested" ELSE "list",
                               idx |-> [j \in DOMAIN ck.ns |-> Resolve1(ck.ns[j])]]

RECURSIVE SumSeq(_)
SumSeq(q) == IF q = <<>> THEN 0 ELSE Head(q) + SumSeq(Tail(q))
ValOf(row, r) == IF r.g THEN SumSeq([j \in DOMAIN r.m |-> row[r.m[j]]]) ELSE row[r.i]
RowSum(d) == [i \in 1..N |-> SumSeq([p \in DOMAIN Phases |-> d[Phases[p]][i]])]

\* results are tensors [nd, e] (nd = 0 scalar, 1 vector, 2 phase x vector)
T(nd, e) == [nd |-> nd, e |-> e]
ReadRow(row, c) ==          \* c: a resolution
  CASE c.kind = "all" -> T(1, row)
    [] c.kind \in {"chem", "group"} -> T(0, ValOf(row, c.idx[1]))
    [] c.kind \in {"nested", "list"} -> T(1, [j \in DOMAIN c.idx |-> ValOf(row, c.idx[j])])

\* full keys: [p, c]: p = "nophase" (single-phase indexer), "sum" (multi-phase, no phase given),
\*                    "all" (ellipsis as phase), or a phase name; c = chemical key or [k |-> "none"]
KeyOK(key) == /\ (Multi => key.p \in {"sum", "all"} \cup PhaseSet) /\ (~Multi => key.p = "nophase")
              /\ key.c.k = "none" => key.p \in PhaseSet
              /\ key.p = "all" => key.c.k \in {"name", "tuple"}
Undefined(key) == key.c.k # "none" /\ Classify(key.c).kind = "undef"
Read(d, key) ==
  LET c == IF key.c.k = "none" THEN [kind |-> "all", idx |-> <<>>] ELSE Classify(key.c) IN
  CASE key.p = "nophase" -> ReadRow(d[Phases[1]], c)
    [] key.p = "sum"     -> ReadRow(RowSum(d), c)
    [] key.p = "all"     -> IF c.kind = "all" THEN T(2, [p \in DOMAIN Phases |-> d[Phases[p]]])
                            ELSE LET r(p) == ReadRow(d[Phases[p]], c) IN
                                 T(r(1).nd + 1, [p \in DOMAIN Phases |-> r(p).e])
    [] OTHER             -> ReadRow(d[key.p], c)

\* writes: v = [nd, e] with nd = 0 (scalar) or 1 (vector)
Frac(x, q) == (x * q[1]) \div q[2]
Divisible(x, q) == (x * q[1]) % q[2] = 0
\* value stored at position i of the row by writing v through resolution c (or "keep")
WriteRow(row, c, v, ck) ==
  LET elt(j) == IF v.nd = 0 THEN v.e ELSE v.e[j]
      gname(j) == IF ck.k = "name" THEN ck.n ELSE ck.ns[j]
      hits(i) == {j \in DOMAIN c.idx : IF c.idx[j].g THEN \E m \in DOMAIN c.idx[j].m : c.idx[j].m[m] = i ELSE c.idx[j].i = i}
      last(i) == CHOOSE j \in hits(i) : \A j2 \in hits(i) : j2 <= j
      gpos(r, i) == CHOOSE m \in DOMAIN r.m : r.m[m] = i
  IN IF c.kind = "all" THEN [i \in 1..N |-> IF v.nd = 0 THEN v.e ELSE v.e[i]]
     ELSE IF c.kind = "group" /\ v.nd = 1 THEN      \* a list written to a group name goes element by element
          [i \in 1..N |-> IF \E m \in DOMAIN c.idx[1].m : c.idx[1].m[m] = i THEN v.e[gpos(c.idx[1], i)] ELSE row[i]]
     ELSE [i \in 1..N |-> IF hits(i) = {} THEN row[i]
                          ELSE LET j == last(i)
                                   r == c.idx[j]
                               IN IF r.g THEN Frac(elt(j), GroupComp[gname(j)][gpos(r, i)]) ELSE elt(j)]
WriteOK(c, v, ck) ==       \* shapes agree and group shares are whole numbers (model values are integers)
  /\ v.nd \in {0, 1}
  /\ c.kind = "all" => (v.nd = 0 \/ Len(v.e) = N)
  /\ c.kind = "chem" => v.nd = 0
  /\ c.kind = "group" => IF v.nd = 0 THEN \A m \in DOMAIN c.idx[1].m : Divisible(v.e, GroupComp[ck.n][m])
                         ELSE Len(v.e) = Len(c.idx[1].m)
  /\ c.kind \in {"nested", "list"} =>
        /\ v.nd = 1 => Len(v.e) = Len(c.idx)
        /\ \A j \in DOMAIN c.idx : c.idx[j].g =>
              \A m \in DOMAIN c.idx[j].m : Divisible(IF v.nd = 0 THEN v.e ELSE v.e[j], GroupComp[ck.ns[j]][m])
        \* positions named twice make the result order-dependent: outside the contract
        /\ \A j1, j2 \in DOMAIN c.idx : j1 # j2 =>
              LET ps(r) == IF r.g THEN Range(r.m) ELSE {r.i} IN ps(c.idx[j1]) \cap ps(c.idx[j2]) = {}

---------------------------------------------------------------------------
(* the caches, as implemented.  Entries are <<key, resolution>>. *)
Keys(cache) == {cache[i][1] : i \in DOMAIN cache}
Cached(cache, key) == (CHOOSE i \in DOMAIN cache : cache[i][1] = key)
InsertC(cache, key, res) ==
  IF key \in Keys(cache) THEN cache
  ELSE LET c1 == Append(cache, <<key, res>>) IN IF Len(c1) > CapC THEN Tail(c1) ELSE c1
InsertM(cache, key, res) ==
  IF key \in Keys(cache) THEN cache
  ELSE LET c1 == Append(cache, <<key, res>>) IN IF Len(c1) > CapM THEN SubSeq(c1, TrimM + 1, Len(c1)) ELSE c1
\* resolution of a chemical key through the chemical cache
ResolveC(cache, ck) == IF ck \in Keys(cache) THEN cache[Cached(cache, ck)][2] ELSE Classify(ck)

\* cross-package mixing resolves the CAS numbers of the other package's non-empty chemicals in this
\* package and memoises the position list under the CAS tuple in the SAME chemical cache
OverlapEntry(names) ==
  [kind |-> IF "overlap_kind0" \in Deviations THEN "chem" ELSE "list",
   idx  |-> [j \in DOMAIN names |-> Resolve1(names[j])]]

CacheCoherent(s) == /\ \A i \in DOMAIN s.cacheC : s.cacheC[i][2] = Classify(s.cacheC[i][1])
                    /\ \A i \in DOMAIN s.cacheM : s.cacheM[i][2] = Classify(s.cacheM[i][1].c)
CachesBounded(s) == Len(s.cacheC) <= CapC /\ Len(s.cacheM) <= CapM

---------------------------------------------------------------------------
(* operations:  get(key)   set(key, v)   overlap(names)   *)
Pre(s, op, a) ==
  CASE op = "get" -> KeyOK(a.key)
    [] op = "set" -> /\ KeyOK(a.key) /\ a.key.p \notin {"all"}
                     /\ ~Undefined(a.key) /\ a.key.p # "sum" =>
                           WriteOK(IF a.key.c.k = "none" THEN [kind |-> "all", idx |-> <<>>] ELSE Classify(a.key.c), a.v, a.key.c)
    [] op = "overlap" -> \A j \in DOMAIN a.names : a.names[j] \in Names
    [] op = "twin_get" -> TRUE        \* a lookup on an indexer of ANOTHER package with the same IDs: no effect here
    [] OTHER -> FALSE

\* the resolution the implementation will actually use (through its caches)
UsedRes(s, key) ==
  IF key.c.k = "none" THEN [kind |-> "all", idx |-> <<>>]
  ELSE IF Multi /\ [p |-> key.p, c |-> key.c] \in Keys(s.cacheM) THEN s.cacheM[Cached(s.cacheM, key)][2]
  ELSE ResolveC(s.cacheC, key.c)

\* exception the call must end with
Exc(s, op, a) ==
  CASE op = "get" -> IF Undefined(a.key) THEN "UndefinedChemicalAlias" ELSE None
    [] op = "set" -> IF Undefined(a.key) THEN "UndefinedChemicalAlias"
                     ELSE IF a.key.p = "sum" THEN "IndexError" ELSE None
    [] OTHER -> None

PostData(s, op, a) ==
  IF op = "set" /\ Exc(s, op, a) = None
  THEN LET c == IF a.key.c.k = "none" THEN [kind |-> "all", idx |-> <<>>] ELSE Classify(a.key.c)
           p == IF a.key.p = "nophase" THEN Phases[1] ELSE a.key.p
       IN [s.data EXCEPT ![p] = WriteRow(@, c, a.v, a.key.c)]
  ELSE s.data

PostCaches(s, op, a) ==        \* <<cacheC', cacheM'>>
  IF op = "twin_get" THEN <<s.cacheC, s.cacheM>>
  ELSE IF op = "overlap" THEN <<InsertC(s.cacheC, [k |-> "tuple", ns |-> a.names], OverlapEntry(a.names)), s.cacheM>>
  ELSE IF a.key.c.k = "none" \/ Undefined(a.key) THEN <<s.cacheC, s.cacheM>>
  ELSE LET r == UsedRes(s, a.key) IN
       << InsertC(s.cacheC, a.key.c, r),
          IF Multi THEN InsertM(s.cacheM, a.key, r) ELSE s.cacheM >>
Post(s, op, a) == [data |-> PostData(s, op, a), cacheC |-> PostCaches(s, op, a)[1], cacheM |-> PostCaches(s, op, a)[2]]

Res(s, op, a) == IF op = "get" /\ ~Undefined(a.key) THEN Read(s.data, a.key) ELSE T(-1, <<>>)

\* design-level statement of C10 on the model: the resolution reached through the caches is the
\* pure classification, for every key that could be looked up next
ResultOK(s) == \A ck \in ModelKeys : Classify(ck).kind # "undef" =>
                  /\ ResolveC(s.cacheC, ck) = Classify(ck)
                  /\ Multi => \A p \in PhaseSet \cup {"sum"} : UsedRes(s, [p |-> p, c |-> ck]) = Classify(ck)

TypeOKs(s) == \A p \in PhaseSet : Len(s.data[p]) = N
InvCoherent == CacheCoherent(S)
InvBounded  == CachesBounded(S)
InvResult   == ResultOK(S)
TypeOK      == TypeOKs(S)

---------------------------------------------------------------------------
(* binding to recorded executions: only observable results and data are constrained *)
InitFrom(r) == data = r.data /\ cacheC = <<>> /\ cacheM = <<>> /\ path = <<>>
Legal(s) == TypeOKs(s)
Suspended(e) == FALSE
ObsLegal(e) == TRUE
TEq(x, y) == x.nd = y.nd /\ x = y
Judge(s, e) ==
  IF e.obs.exc # Exc(s, e.op, e.a) THEN "exception"
  ELSE IF e.op = "get" /\ Exc(s, e.op, e.a) = None /\ ~TEq(e.obs.res, Res(s, e.op, e.a)) THEN "result"
  ELSE IF e.post.data # PostData(s, e.op, e.a) THEN (IF e.op = "set" THEN "post.data" ELSE "post.data_changed_by_read")
  ELSE "ok"

---------------------------------------------------------------------------
Init == /\ data = [p \in PhaseSet |-> [i \in 1..N |-> 0]]
        /\ cacheC = <<>> /\ cacheM = <<>> /\ path = <<>>

Act(op, a) == /\ (Pre(S, op, a) = TRUE)      \* "= TRUE": evaluate as a value, not as an action (no branching on \/)
              /\ SetS(Post(S, op, a))
              /\ path' = Append(path, [op |-> op, a |-> a])
PKeys == IF Multi THEN PhaseSet \cup {"sum"} ELSE {"nophase"}
Get == "get" \in Ops /\ \E p \in PKeys, ck \in ModelKeys : Act("get", [key |-> [p |-> p, c |-> ck]])
SetScalar == "set" \in Ops /\ \E p \in PKeys, ck \in ModelKeys, x \in Values :
               Act("set", [key |-> [p |-> p, c |-> ck], v |-> T(0, x)])
Overlap == "overlap" \in Ops /\ \E q \in CasTuples : Act("overlap", [names |-> q])
Next == Get \/ SetScalar \/ Overlap
vars == <<data, cacheC, cacheM, path>>
Spec == Init /\ [][Next]_vars
=============================================================================
