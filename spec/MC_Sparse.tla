------------------------------ MODULE MC_Sparse ------------------------------
EXTENDS Sparse
c_Names3 == {"v", "w", "b"}
c_Kind3 == [n \in c_Names3 |-> CASE n = "v" -> "vec" [] n = "w" -> "vec" [] n = "b" -> "lvec"]
c_Names2 == {"v", "b"}
c_Kind2 == [n \in c_Names2 |-> CASE n = "v" -> "vec" [] n = "b" -> "lvec"]
c_NamesA == {"v", "b", "A"}
c_KindA == [n \in c_NamesA |-> CASE n = "v" -> "vec" [] n = "b" -> "lvec" [] n = "A" -> "arr"]
c_Alphabet == {<<0, 1>>, <<1, 1>>, <<-1, 1>>, <<2, 1>>}
c_AlphabetH == {<<0, 1>>, <<1, 1>>, <<-1, 1>>, <<2, 1>>, <<1, 2>>}
c_AllOps == {"iop", "ilog", "setitem", "clear", "copy_like", "mix_from", "setflags"}
DepthBound == TLCGet("level") <= 3
=============================================================================
