----------------------------- MODULE FreeEnergy -----------------------------
(***************************************************************************)
(* Pure-component and ideal-mixture enthalpy / entropy (C07;               *)
(* thermosteam/free_energy.py, _chemical.py _init_energies, mixture).      *)
(*                                                                         *)
(* A synthetic chemical has heat capacities Cn_phase(T) = 2 c_phase T,     *)
(* melting / boiling points Tm < Tb, latent heats Hfus, Hvap, absolute     *)
(* entropy S0 and a reference phase.  Enthalpy and entropy are DEFINED     *)
(* here as the sum of signed segments along the physical path from the     *)
(* reference state (ref phase, T_ref) to (phase, T): heat within a phase,  *)
(* cross Tm, cross Tb - independent of the nine hand-wired functors of the *)
(* library.  Everything is an integer: temperatures in 1/20 K (T20),       *)
(* enthalpies in 1/400 J/mol (H400), entropies in 1/20 J/mol/K (S20).      *)
(*   int Cn dT   from a to b = c (b^2 - a^2)      -> c (b20^2 - a20^2) /400 *)
(*   int Cn/T dT from a to b = 2 c (b - a)        -> 2 c (b20 - a20)   /20  *)
(* The gas pressure term -R ln(P/P_ref) is removed by the driver for the   *)
(* pressures P_ref 2^k it uses (field Sg); for condensed phases the raw    *)
(* entropy must not depend on pressure.                                    *)
(***************************************************************************)
EXTENDS Integers, Sequences, FiniteSets, TLC

CONSTANTS Tref20,      \* 20 x 298.15 = 5963
          Grid         \* model: set of parameter records explored by the model checker

VARIABLES par, mix, path
S == [par |-> par, mix |-> mix]
SetS(t) == par' = t.par /\ mix' = t.mix
view == <<par, mix>>
None == "none"

Rank(ph) == CASE ph = "s" -> 1 [] ph = "l" -> 2 [] ph = "g" -> 3
Cof(p, r) == CASE r = 1 -> p.cs [] r = 2 -> p.cl [] r = 3 -> p.cg
Tt(p, r) == IF r = 1 THEN p.Tm20 ELSE p.Tb20            \* transition above phase rank r
LatH(p, r) == IF r = 1 THEN p.Hfus400 ELSE p.Hvap400
LatS(p, r) == IF r = 1 THEN p.Sfus20 ELSE p.Svap20
Seg(c, a, b) == c * (b * b - a * a)
SegS(c, a, b) == 2 * c * (b - a)

RECURSIVE HPath(_, _, _, _, _)
HPath(p, cur, Tcur, tgt, T) ==
  IF cur = tgt THEN Seg(Cof(p, cur), Tcur, T)
  ELSE IF cur < tgt THEN Seg(Cof(p, cur), Tcur, Tt(p, cur)) + LatH(p, cur) + HPath(p, cur + 1, Tt(p, cur), tgt, T)
  ELSE Seg(Cof(p, cur), Tcur, Tt(p, cur - 1)) - LatH(p, cur - 1) + HPath(p, cur - 1, Tt(p, cur - 1), tgt, T)
RECURSIVE SPath(_, _, _, _, _)
SPath(p, cur, Tcur, tgt, T) ==
  IF cur = tgt THEN SegS(Cof(p, cur), Tcur, T)
  ELSE IF cur < tgt THEN SegS(Cof(p, cur), Tcur, Tt(p, cur)) + LatS(p, cur) + SPath(p, cur + 1, Tt(p, cur), tgt, T)
  ELSE SegS(Cof(p, cur), Tcur, Tt(p, cur - 1)) - LatS(p, cur - 1) + SPath(p, cur - 1, Tt(p, cur - 1), tgt, T)

\* a phase-locked chemical (p.lock # "none") exists in one phase only: whatever phase label it is asked for, it is that
\* phase, and its reference state is (lock phase, T_ref) with H = 0, S = S0
EvPh(p, ph) == IF p.lock = "none" THEN ph ELSE p.lock
RefPh(p) == IF p.lock = "none" THEN p.ref ELSE p.lock
H400(p, ph, T20) == HPath(p, Rank(RefPh(p)), Tref20, Rank(EvPh(p, ph)), T20)
S20(p, ph, T20)  == p.S0_20 + SPath(p, Rank(RefPh(p)), Tref20, Rank(EvPh(p, ph)), T20)
Cn20(p, ph, T20) == 2 * Cof(p, Rank(EvPh(p, ph))) * T20          \* 20 x Cn = 20 x 2 c T = 2 c T20

ParOK(p) == /\ p.ref \in {"s", "l", "g"} /\ p.lock \in {"none", "s", "l", "g"} /\ p.Tm20 # p.Tb20 /\ p.cs > 0 /\ p.cl > 0 /\ p.cg > 0
            /\ p.Sfus20 * p.Tm20 = p.Hfus400 /\ p.Svap20 * p.Tb20 = p.Hvap400      \* S = H / T in these units

---------------------------------------------------------------------------
(* operations (observations of the real objects built from par):
   eval(ph, T20, k): obs H400, S20 (raw), Sg20 (gas pressure term removed), Cn20
   mix(ph, n, T20): obs H400 of the mixture of the two chemicals par/mix.other, S20 with the ideal mixing term removed *)
Pre(s, op, a) ==
  CASE op = "eval" -> a.ph \in {"s", "l", "g"} /\ a.T20 > 0 /\ ParOK(s.par)
    [] op = "mix" -> a.ph \in {"s", "l", "g"} /\ a.T20 > 0 /\ ParOK(s.par) /\ ParOK(s.mix) /\ a.n1 >= 0 /\ a.n2 >= 0 /\ a.n1 + a.n2 > 0
    \* the multi-phase forms (xH, xCn, xS): rows of <<phase label, n1, n2>> with labels s, l, g, S, L, every label at most once
    [] op = "xmix" -> /\ a.T20 > 0 /\ ParOK(s.par) /\ ParOK(s.mix) /\ a.rows # <<>>
                      /\ \A i \in DOMAIN a.rows : a.rows[i][1] \in {"s", "l", "g", "S", "L"} /\ a.rows[i][2] >= 0 /\ a.rows[i][3] >= 0
                                                  /\ a.rows[i][2] + a.rows[i][3] > 0
                      /\ \A i, j \in DOMAIN a.rows : i # j => a.rows[i][1] # a.rows[j][1]
    \* a chemical of the bundled database built with reference phase a.ref: measured identities, deviations in ppm
    [] op = "db" -> a.ref \in {"s", "l", "g"}
    [] OTHER -> FALSE
Lower(ph) == CASE ph = "S" -> "s" [] ph = "L" -> "l" [] OTHER -> ph
RECURSIVE SumRows(_, _)
SumRows(F(_), rows) == IF rows = <<>> THEN 0 ELSE F(Head(rows)) + SumRows(F, Tail(rows))
Post(s, op, a) == s
Near(x, y, tol) == x - y <= tol /\ y - x <= tol
Judge(s, e) ==
  LET p == s.par
      a == e.a IN
  IF e.obs.exc # None THEN "exception"
  ELSE IF e.post # s THEN "frame"
  ELSE IF e.op = "eval" THEN
       IF ~Near(e.obs.H400, H400(p, a.ph, a.T20), 1) THEN "enthalpy"
       ELSE IF EvPh(p, a.ph) = "g" /\ ~Near(e.obs.Sg20, S20(p, a.ph, a.T20), 1) THEN "entropy.gas"
       ELSE IF EvPh(p, a.ph) # "g" /\ ~Near(e.obs.S20, S20(p, a.ph, a.T20), 1) THEN "entropy.condensed"
       ELSE IF ~Near(e.obs.Cn20, Cn20(p, a.ph, a.T20), 1) THEN "heat_capacity"
       ELSE "ok"
  ELSE IF e.op = "db" THEN
       LET o == e.obs IN
       IF o.refH > 10 THEN "db.reference_enthalpy_not_zero"
       ELSE IF o.refS > 10 THEN "db.reference_entropy_not_S0"
       ELSE IF o.jHvap > 10 THEN "db.jump_at_Tb_not_Hvap"
       ELSE IF o.jSvap > 10 THEN "db.jump_at_Tb_not_Hvap_over_Tb"
       ELSE IF o.jHfus > 10 THEN "db.jump_at_Tm_not_Hfus"
       ELSE IF o.jSfus > 10 THEN "db.jump_at_Tm_not_Hfus_over_Tm"
       ELSE IF o.press > 10 THEN "db.gas_entropy_pressure_term"
       ELSE IF o.dH > 500 THEN "db.dH_dT_not_Cn"
       ELSE IF o.dS > 500 THEN "db.dS_dT_not_Cn_over_T"
       ELSE IF o.switch > 5000 THEN "db.Cn_after_method_switch_not_dH_dT"
       ELSE "ok"
  ELSE IF e.op = "xmix" THEN
       LET q == s.mix
           XH(r) == r[2] * H400(p, Lower(r[1]), a.T20) + r[3] * H400(q, Lower(r[1]), a.T20)
           XC(r) == r[2] * Cn20(p, Lower(r[1]), a.T20) + r[3] * Cn20(q, Lower(r[1]), a.T20)
           XS(r) == r[2] * S20(p, Lower(r[1]), a.T20) + r[3] * S20(q, Lower(r[1]), a.T20) IN
       IF ~Near(e.obs.H400, SumRows(XH, a.rows), 3) THEN "multiphase.enthalpy"
       ELSE IF ~Near(e.obs.Cn20, SumRows(XC, a.rows), 3) THEN "multiphase.heat_capacity"
       \* the pure-component part (the mixing term the library actually adds removed): every phase counted once
       ELSE IF ~Near(e.obs.Slib20, SumRows(XS, a.rows), 3) /\ ~Near(e.obs.Sres20, SumRows(XS, a.rows), 3) THEN "multiphase.entropy_sum"
       ELSE IF ~Near(e.obs.Sres20, SumRows(XS, a.rows), 3) THEN "multiphase.entropy"
       ELSE "ok"
  ELSE \* mixture: mole-weighted sums; entropy exceeds them by the ideal mixing term (removed by the driver)
       LET q == s.mix IN
       IF ~Near(e.obs.H400, a.n1 * H400(p, a.ph, a.T20) + a.n2 * H400(q, a.ph, a.T20), 2) THEN "mixture.enthalpy"
       ELSE IF ~Near(e.obs.Cn20, a.n1 * Cn20(p, a.ph, a.T20) + a.n2 * Cn20(q, a.ph, a.T20), 2) THEN "mixture.heat_capacity"
       ELSE IF ~Near(e.obs.Slib20, a.n1 * S20(p, a.ph, a.T20) + a.n2 * S20(q, a.ph, a.T20), 2)
               /\ ~Near(e.obs.Sres20, a.n1 * S20(p, a.ph, a.T20) + a.n2 * S20(q, a.ph, a.T20), 2) THEN "mixture.entropy_sum"
       ELSE IF ~Near(e.obs.Sres20, a.n1 * S20(p, a.ph, a.T20) + a.n2 * S20(q, a.ph, a.T20), 2) THEN "mixture.entropy"
       ELSE IF e.obs.dSmix_negative THEN "mixing_lowers_entropy"
       ELSE "ok"
Legal(s) == TRUE
ObsLegal(e) == TRUE
Suspended(e) == FALSE
InitFrom(r) == par = r.par /\ mix = r.mix /\ path = <<>>

---------------------------------------------------------------------------
(* model: the whole parameter grid; the identities the property lists, checked on the path definition *)
Init == par \in Grid /\ mix \in Grid /\ path = <<>>
Next == UNCHANGED <<par, mix, path>>
vars == <<par, mix, path>>
Spec == Init /\ [][Next]_vars
Phs == {"s", "l", "g"}
ReferenceState == H400(par, RefPh(par), Tref20) = 0 /\ S20(par, RefPh(par), Tref20) = par.S0_20
\* d/dT: the difference over one grid step equals the integral of Cn (resp. Cn/T) over it
Derivatives == \A ph \in Phs, T \in {5000, 6000, 8000} :
                 /\ H400(par, ph, T + 20) - H400(par, ph, T) = Seg(Cof(par, Rank(EvPh(par, ph))), T, T + 20)
                 /\ S20(par, ph, T + 20) - S20(par, ph, T) = SegS(Cof(par, Rank(EvPh(par, ph))), T, T + 20)
\* jumps at the normal melting / boiling point
Jumps == par.lock = "none" =>
         /\ H400(par, "g", par.Tb20) - H400(par, "l", par.Tb20) = par.Hvap400
         /\ H400(par, "l", par.Tm20) - H400(par, "s", par.Tm20) = par.Hfus400
         /\ S20(par, "g", par.Tb20) - S20(par, "l", par.Tb20) = par.Svap20
         /\ S20(par, "l", par.Tm20) - S20(par, "s", par.Tm20) = par.Sfus20
\* the choice of reference phase only shifts H and S by a constant
\* a phase-locked chemical has no jumps: every phase label gives the same value
LockedOnePhase == par.lock # "none" => \A ph1 \in Phs, ph2 \in Phs, T \in {5000, 8000} :
                    H400(par, ph1, T) = H400(par, ph2, T) /\ S20(par, ph1, T) = S20(par, ph2, T)
RefShift == par.lock = "none" /\ mix.lock = "none" => \A ph1 \in Phs, ph2 \in Phs, T1 \in {5000, 8000}, T2 \in {6000, 9000} :
              H400(par, ph1, T1) - H400(par, ph2, T2) = H400([par EXCEPT !.ref = mix.ref], ph1, T1) - H400([par EXCEPT !.ref = mix.ref], ph2, T2)
=============================================================================
