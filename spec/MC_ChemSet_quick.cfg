SPECIFICATION Spec
CONSTANTS
  Cols <- c_Cols
  Chems <- c_C2
  ANames <- c_AN
  Ops <- c_Mut
VIEW view
INVARIANT NoDuplicates
INVARIANT TabFunctional
INVARIANT TabInside
PROPERTY Frozen
PROPERTY AliasStable
CONSTRAINT Depth6
CHECK_DEADLOCK FALSE
