SPECIFICATION Spec
CONSTANTS
  NC = 2
  Slots <- c_Slots
  SplitVals <- c_Splits
  FlowVals = {0, 4}
  Ops = {"mix_and_split", "phase_split"}
  Tol = 0
  RelTol = 0
VIEW view
CONSTRAINT Depth
INVARIANT NonNegative
PROPERTY BalanceClosed
CHECK_DEADLOCK FALSE
