----------------------------- MODULE ViewCache -----------------------------
(***************************************************************************)
(* The molar-volume memo of the volumetric flow view (C11;                 *)
(* thermosteam/base/dictionary_view.py VolumetricFlowDict), as implemented:*)
(* per chemical index the view remembers (T, P[, phase]) -> V and reuses V *)
(* while the stream's thermal condition "is in equilibrium with" the       *)
(* remembered one.  Reads and writes through the view convert with V.      *)
(* Property: the V used is the molar volume of the CURRENT phase, T, P.    *)
(* Deviations = {"ignores_phase"} is the original code (phase not part of  *)
(* the memo) and must violate VolFresh.                                    *)
(***************************************************************************)
EXTENDS Integers, Sequences, TLC
CONSTANTS Temps, Press, PhasesV, Chems, Deviations
VARIABLES T, P, phase, memo, used, path
vars == <<T, P, phase, memo, used, path>>
view == <<T, P, phase, memo, used>>
NoMemo == [T |-> 0, P |-> 0, phase |-> "none", V |-> <<>>]
Vtok(c, ph, t, p) == <<c, ph, t, p>>          \* uninterpreted molar volume of chemical c at (phase, T, P)

Init == /\ T \in Temps /\ P \in Press /\ phase \in PhasesV
        /\ memo = [c \in Chems |-> NoMemo] /\ used = <<>> /\ path = <<>>

\* output(index, value) and input(index, value) both go through this
Convert(c) ==
  LET m == memo[c]
      hit == m.T = T /\ m.P = P /\ ("ignores_phase" \in Deviations \/ m.phase = phase) /\ m.V # <<>>
      V == IF hit THEN m.V ELSE Vtok(c, phase, T, P)
  IN /\ used' = <<c, V>>
     /\ memo' = [memo EXCEPT ![c] = IF hit THEN m ELSE [T |-> T, P |-> P, phase |-> phase, V |-> V]]
     /\ UNCHANGED <<T, P, phase>>
     /\ path' = Append(path, [op |-> "convert", c |-> c])
SetT(t) == T' = t /\ t # T /\ used' = <<>> /\ UNCHANGED <<P, phase, memo>> /\ path' = Append(path, [op |-> "set_T", v |-> t])
SetP(p) == P' = p /\ p # P /\ used' = <<>> /\ UNCHANGED <<T, phase, memo>> /\ path' = Append(path, [op |-> "set_P", v |-> p])
SetPhase(ph) == phase' = ph /\ ph # phase /\ used' = <<>> /\ UNCHANGED <<T, P, memo>> /\ path' = Append(path, [op |-> "set_phase", v |-> ph])
Next == (\E c \in Chems : Convert(c)) \/ (\E t \in Temps : SetT(t)) \/ (\E p \in Press : SetP(p)) \/ (\E ph \in PhasesV : SetPhase(ph))
Spec == Init /\ [][Next]_vars
VolFresh == used # <<>> => used[2] = Vtok(used[1], phase, T, P)
=============================================================================
