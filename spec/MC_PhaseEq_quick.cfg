SPECIFICATION QuickSpec
CONSTANTS
  NC = 3
  Cls <- c_Cls
  MaxQ = 2
  Tol = 0
  Ops = {"vle", "lle", "sle", "vlle"}
VIEW view
CONSTRAINT Depth
INVARIANT NonNeg
PROPERTY Ledger
PROPERTY LockedKept
CHECK_DEADLOCK FALSE
