SPECIFICATION SimSpec
CONSTANTS
  Units <- b_Units
  Streams <- b_Streams
  NIns <- b_NIns
  NOuts <- b_NOuts
  InsFixed <- b_InsFixed
  OutsFixed <- b_OutsFixed
  MaxLen = 4
  MaxXs = 3
  Ops <- c_AllOps
INVARIANT TypeOK
INVARIANT InvConsistent
INVARIANT InvNoDuplicates
INVARIANT InvFixedSizes
INVARIANT EmitPath
CHECK_DEADLOCK FALSE
