---------------------------- MODULE NetworkOrder ----------------------------
(***************************************************************************)
(* Simulation order derived from a flowsheet (C19; Network.from_units).    *)
(*                                                                         *)
(* The acceptable outputs are exactly the behaviours of a nondeterministic *)
(* scheduler: a unit may be emitted once every unit that feeds it has been *)
(* emitted or lies in the same recycle loop (strongly connected component);*)
(* at the end every unit has been emitted exactly once, and recycle        *)
(* streams are reported iff the flowsheet has a cycle.  The model checker  *)
(* shows for EVERY flowsheet over the unit universe (forward edges of a    *)
(* DAG plus up to MaxBack back-edges) that this scheduler cannot get stuck,*)
(* i.e. the contract is satisfiable; recorded paths of the real            *)
(* Network.from_units are then validated as behaviours of the scheduler.   *)
(***************************************************************************)
EXTENDS Integers, Sequences, FiniteSets, TLC

CONSTANTS Units,        \* set of unit names
          UnitOrder,    \* the same as a sequence: forward edges go from earlier to later units
          MaxBack       \* model: maximal number of back-edges added to the DAG

VARIABLES edges,        \* sequence of <<source unit, sink unit>> pairs: one per connecting stream
          emitted,      \* sequence of units emitted so far
          recycles,     \* the sequence of reported recycle edges (set by Finish)
          done,         \* Finish has happened
          path

S == [edges |-> edges, emitted |-> emitted, recycles |-> recycles, done |-> done]
SetS(t) == edges' = t.edges /\ emitted' = t.emitted /\ recycles' = t.recycles /\ done' = t.done
view == <<edges, emitted, recycles, done>>
Range(q) == {q[i] : i \in DOMAIN q}
E(s) == Range(s.edges)
Succ(s, X) == {v \in Units : \E u \in X : <<u, v>> \in E(s)}
RECURSIVE ReachN(_, _, _)
ReachN(s, X, n) == IF n = 0 THEN X ELSE ReachN(s, X \cup Succ(s, X), n - 1)
Reach(s, u) == ReachN(s, {u}, Cardinality(Units))
SameLoop(s, u, v) == u = v \/ (v \in Reach(s, u) /\ u \in Reach(s, v))
Feeders(s, u) == {f \in Units : <<f, u>> \in E(s)}
Cyclic(s) == \E u \in Units : u \in ReachN(s, Succ(s, {u}), Cardinality(Units))
Ready(s, u) == /\ u \notin Range(s.emitted)
               /\ \A f \in Feeders(s, u) : f \in Range(s.emitted) \/ SameLoop(s, f, u)
Pos(s, u) == CHOOSE i \in DOMAIN s.emitted : s.emitted[i] = u

\* ---- operations of the recorded output: emit(u) for every path element in order, then finish(recycle edges)
Pre(s, op, a) == TRUE
\* (in a flowsheet with cycles the flattened path may list a unit of a nested recycle loop again; positions are
\*  those of the first occurrence)
Post(s, op, a) == CASE op = "emit" -> IF a.u \in Range(s.emitted) THEN s ELSE [s EXCEPT !.emitted = Append(@, a.u)]
                    [] op = "finish" -> [s EXCEPT !.recycles = a.recycles, !.done = TRUE]
Judge(s, e) ==
  IF e.op = "emit" THEN
       IF e.a.u \notin Units THEN "unknown_unit"
       ELSE IF e.a.u \in Range(s.emitted) THEN (IF Cyclic(s) THEN (IF e.post = s THEN "ok" ELSE "post") ELSE "unit_twice")
       ELSE IF ~Ready(s, e.a.u) THEN "order"          \* a feeder outside the unit's recycle loop comes later
       ELSE IF e.post # Post(s, e.op, e.a) THEN "post" ELSE "ok"
  ELSE \* finish
       IF Range(s.emitted) # Units THEN "incomplete"
       ELSE IF ~Cyclic(s) /\ e.a.recycles # <<>> THEN "recycle_in_acyclic_flowsheet"
       ELSE IF Cyclic(s) /\ e.a.recycles = <<>> THEN "no_recycle_in_cyclic_flowsheet"
       \* (which streams are reported as recycles is not constrained beyond "none / at least one")
       \* every stream running against the order connects two units of one loop (implied by Ready; restated)
       ELSE IF \E i \in DOMAIN s.edges : Pos(s, s.edges[i][1]) > Pos(s, s.edges[i][2]) /\ ~SameLoop(s, s.edges[i][1], s.edges[i][2]) THEN "backward_stream_outside_loop"
       ELSE "ok"
Legal(s) == TRUE
ObsLegal(e) == TRUE
Suspended(e) == FALSE
InitFrom(r) == edges = r.edges /\ emitted = r.emitted /\ recycles = r.recycles /\ done = r.done /\ path = <<>>

\* ---- model: every flowsheet over the universe
Index(u) == CHOOSE i \in DOMAIN UnitOrder : UnitOrder[i] = u
Forward == {p \in Units \X Units : Index(p[1]) < Index(p[2])}
Backward == {p \in Units \X Units : Index(p[1]) > Index(p[2])}
Rank(p) == Index(p[1]) * 100 + Index(p[2])
RECURSIVE SeqOf(_)
SeqOf(set) == IF set = {} THEN <<>>
              ELSE LET p == CHOOSE x \in set : \A y \in set : Rank(x) <= Rank(y) IN <<p>> \o SeqOf(set \ {p})
Init == /\ \E F \in SUBSET Forward, B \in SUBSET Backward : Cardinality(B) <= MaxBack /\ edges = SeqOf(F \cup B)
        /\ emitted = <<>> /\ recycles = <<>> /\ done = FALSE /\ path = <<>>
Emit(u) == /\ ~done /\ Ready(S, u)
           /\ emitted' = Append(emitted, u) /\ UNCHANGED <<edges, recycles, done>>
           /\ path' = Append(path, [op |-> "emit", a |-> [u |-> u]])
Finish == /\ ~done /\ Range(emitted) = Units /\ done' = TRUE
          /\ recycles' = (IF Cyclic(S) THEN <<CHOOSE p \in E(S) : SameLoop(S, p[1], p[2]) /\ Pos(S, p[1]) >= Pos(S, p[2])>> ELSE <<>>)
          /\ UNCHANGED <<edges, emitted>>
          /\ path' = Append(path, [op |-> "finish", a |-> [recycles |-> recycles']])
Next == (\E u \in Units : Emit(u)) \/ Finish
vars == <<edges, emitted, recycles, done, path>>
Spec == Init /\ [][Next]_vars

\* the scheduler never gets stuck before every unit is emitted (so an acceptable order always exists)
NeverStuck == (~done /\ Range(emitted) # Units) => \E u \in Units : Ready(S, u)
\* what it emits is a linear extension of the flow relation modulo loops
OrderOK == \A i \in DOMAIN edges :
             (edges[i][1] \in Range(emitted) /\ edges[i][2] \in Range(emitted) /\ Pos(S, edges[i][1]) > Pos(S, edges[i][2]))
             => SameLoop(S, edges[i][1], edges[i][2])
NoRepeat == \A i, j \in DOMAIN emitted : i # j => emitted[i] # emitted[j]
=============================================================================
