SPECIFICATION Spec
CONSTANTS
  Objs <- c_O2
  Names <- c_Names
  BadNames <- c_Bad
  Aliases <- c_Aliases
  Ints <- c_Ints
  Prefix = "s"
  MaxTicket = 6
  Ops <- c_AllOps
VIEW view
INVARIANT @INV@
CONSTRAINT Depth5
CHECK_DEADLOCK FALSE
