SPECIFICATION Spec
CONSTANTS
  Names <- c_Names3
  Kind <- c_Kind3
  NRows = 2
  NCols = 2
  Alphabet <- c_Alphabet
  Bound = 2
  DBound = 2
  Ops <- c_AllOps
VIEW view
INVARIANT TypeOK
INVARIANT ValuesBounded
PROPERTY InPlaceKeepsShape
PROPERTY ReadOnlyFrozen
CHECK_DEADLOCK FALSE
