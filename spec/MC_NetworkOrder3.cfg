SPECIFICATION Spec
CONSTANTS
  Units <- c_U3
  UnitOrder <- c_O3
  MaxBack = 2
VIEW view
INVARIANT NeverStuck
INVARIANT OrderOK
INVARIANT NoRepeat
CHECK_DEADLOCK FALSE
