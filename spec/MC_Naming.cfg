SPECIFICATION Spec
CONSTANTS
  Objs <- c_O3
  Names <- c_Names
  BadNames <- c_Bad
  Aliases <- c_Aliases
  Ints <- c_Ints
  Prefix = "s"
  MaxTicket = 6
  Ops <- c_AllOps
VIEW view
INVARIANT Functional
INVARIANT OnePrimary
INVARIANT NamedIsFound
PROPERTY AutoFresh
PROPERTY NameTaken
CONSTRAINT Depth6
CHECK_DEADLOCK FALSE
