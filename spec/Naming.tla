------------------------------- MODULE Naming -------------------------------
(***************************************************************************)
(* Registration and naming of streams and units (extension of the          *)
(* specification beyond the listed properties; thermosteam/utils/          *)
(* registry.py Registry and utils/decorators/registered.py: the ID         *)
(* property of every registered class, ticket numbers, aliases, context    *)
(* levels, track / untrack).                                               *)
(*                                                                         *)
(* An exact model of what the code does: the registry `data` maps IDs to   *)
(* objects, every object remembers its own ID, a ticket counter names      *)
(* objects that are given the empty ID, objects replaced under their ID    *)
(* raise a warning unless they were marked safe to replace, context levels *)
(* collect the objects registered while they are open.  The model checker  *)
(* decides which naming guarantees the design gives (the invariants below) *)
(* and finds the situations in which weaker ones fail (see Deviations).    *)
(* Behaviours of this model are replayed on real AbstractStream objects    *)
(* and every recorded step is validated against it.                        *)
(***************************************************************************)
EXTENDS Integers, Sequences, FiniteSets, TLC

CONSTANTS Objs,        \* object names
          Names,       \* valid IDs a user may assign
          BadNames,    \* invalid IDs (rejected by check_valid_ID)
          Aliases,     \* alias strings
          Ints,        \* ticket numbers a user may set
          Prefix,      \* ticket name of the class ("s" for streams)
          MaxTicket,   \* model bound
          Ops

VARIABLES data,        \* set of <<ID, object>>: the registry (functional in the ID)
          id,          \* [Objs -> STRING]: the object's own ID ("" = none)
          ticket,      \* last ticket number taken
          safe,        \* objects marked safe to replace
          reg,         \* objects the registry counts as registered (listed once per context level)
          ctx,         \* open context levels, innermost last: sequences of objects
          akeys,       \* model history: keys last written as aliases
          path
None == "none"
AsData(q) == {<<q[i][1], q[i][2]>> : i \in DOMAIN q}      \* logged as a list of pairs
AsSet(q) == {q[i] : i \in DOMAIN q}
S == [data |-> data, id |-> id, ticket |-> ticket, safe |-> safe, reg |-> reg, ctx |-> ctx]
Norm(t) == [data |-> AsData(t.data), id |-> t.id, ticket |-> t.ticket, safe |-> AsSet(t.safe), reg |-> AsSet(t.reg), ctx |-> t.ctx]
SetS(t) == LET n == Norm(t) IN data' = n.data /\ id' = n.id /\ ticket' = n.ticket /\ safe' = n.safe /\ reg' = n.reg /\ ctx' = n.ctx
AuxVars == <<akeys, path>>
view == <<data, id, ticket, safe, reg, ctx, akeys>>

Has(d, k) == \E p \in d : p[1] = k
Get(d, k) == (CHOOSE p \in d : p[1] = k)[2]
Del(d, k) == {p \in d : p[1] # k}
Put(d, k, o) == Del(d, k) \cup {<<k, o>>}
\* `data.get(obj._ID) is obj`
Owns(s, o) == Has(s.data, s.id[o]) /\ Get(s.data, s.id[o]) = o
Tick(n) == Prefix \o ToString(n)
RECURSIVE NextFree(_, _)
NextFree(d, n) == IF Has(d, Tick(n)) THEN NextFree(d, n + 1) ELSE n
AppendAll(c, o) == [i \in DOMAIN c |-> Append(c[i], o)]
RemoveFirst(q, o) == IF \E i \in DOMAIN q : q[i] = o
                     THEN LET k == CHOOSE i \in DOMAIN q : q[i] = o /\ \A j \in DOMAIN q : q[j] = o => i <= j
                          IN SubSeq(q, 1, k - 1) \o SubSeq(q, k + 1, Len(q))
                     ELSE q
RemoveAll(c, o) == [i \in DOMAIN c |-> RemoveFirst(c[i], o)]
Range(q) == {q[i] : i \in DOMAIN q}

\* _open_registration / _close_registration
Open(s, o) == IF s.id[o] # "" /\ Owns(s, o) THEN Del(s.data, s.id[o]) ELSE s.data
Close(s, d, k, o) == [s EXCEPT !.data = Put(d, k, o), !.id[o] = k, !.reg = @ \cup {o},
                               !.ctx = IF o \in s.reg THEN @ ELSE AppendAll(@, o)]
Unregister(s, o) == IF Owns(s, o) THEN Del(s.data, s.id[o]) ELSE s.data

\* the warning register_safely issues: the ID is taken by another object that was not marked safe to replace
WarnOf(s, o, k) == LET d == Open(s, o) IN
                   IF Has(d, k) /\ Get(d, k) # o /\ Get(d, k) \notin s.safe
                   THEN (IF s.id[o] # "" THEN "renaming" ELSE "replaced") ELSE None
Auto(s, o, from) == LET n == NextFree(s.data, from + 1) IN Close([s EXCEPT !.ticket = n], Open(s, o), Tick(n), o)
RECURSIVE Track(_, _)
Track(s, os) == IF os = <<>> THEN s
                ELSE Track([s EXCEPT !.safe = @ \ {Head(os)}, !.data = Put(@, s.id[Head(os)], Head(os))], Tail(os))

Pre(s, op, a) ==
  CASE op = "set_id" -> /\ a.o \in Objs /\ a.kind \in {"none", "auto", "dot", "int", "name"}
                        /\ a.kind \in {"dot", "name"} => a.v \in Names \cup BadNames
                        /\ a.kind = "int" => a.v \in Nat
    [] op \in {"discard", "pop", "contains"} -> a.o \in Objs
    [] op \in {"discard_name", "search"} -> TRUE
    [] op = "clear" -> TRUE
    [] op = "untrack" -> Range(a.os) \subseteq Objs
    [] op = "track" -> Range(a.os) \subseteq Objs /\ \A i \in DOMAIN a.os : s.id[a.os[i]] # ""
    [] op = "open_ctx" -> TRUE
    [] op = "close_ctx" -> s.ctx # <<>>
    [] op = "alias" -> a.o \in Objs /\ a.k \in Aliases /\ a.mode \in {"safe_none", "safe_false", "safe_true", "unsafe_true", "unsafe_none"}
    [] OTHER -> FALSE

\* calls that raise and leave everything as it was
Refused(s, op, a) ==
  CASE op = "set_id" -> a.kind = "name" /\ a.v \in BadNames
    [] op = "alias" -> a.mode = "safe_false" /\ Has(s.data, a.k) /\ Get(s.data, a.k) # a.o /\ Get(s.data, a.k) \notin s.safe
    [] OTHER -> FALSE

Post(s, op, a) ==
  IF Refused(s, op, a) THEN s ELSE
  CASE op = "set_id" ->
         (CASE a.kind = "none" -> [s EXCEPT !.data = Unregister(s, a.o), !.id[a.o] = ""]
            [] a.kind = "dot"  -> [s EXCEPT !.data = Unregister(s, a.o), !.id[a.o] = a.v]
            [] a.kind = "auto" -> Auto(s, a.o, s.ticket)
            [] a.kind = "int"  -> Auto(s, a.o, a.v)
            [] a.kind = "name" -> Close(s, Open(s, a.o), a.v, a.o))
    [] op = "discard" -> [s EXCEPT !.data = Unregister(s, a.o), !.ctx = RemoveAll(@, a.o), !.reg = @ \ {a.o}]
    [] op = "pop" -> [s EXCEPT !.data = Unregister(s, a.o), !.ctx = RemoveAll(@, a.o)]
    [] op = "discard_name" -> IF Has(s.data, a.k)
                              THEN LET o == Get(s.data, a.k) IN [s EXCEPT !.data = Del(@, a.k), !.ctx = RemoveAll(@, o), !.reg = @ \ {o}]
                              ELSE s
    [] op = "clear" -> [s EXCEPT !.data = {}]
    [] op = "untrack" -> [s EXCEPT !.safe = @ \cup Range(a.os)]
    [] op = "track" -> Track(s, a.os)
    [] op = "open_ctx" -> [s EXCEPT !.ctx = Append(@, <<>>)]
    [] op = "close_ctx" -> [s EXCEPT !.ctx = SubSeq(@, 1, Len(@) - 1)]
    [] op = "alias" ->
         LET write == a.mode \in {"safe_none", "safe_false", "safe_true", "unsafe_true"} \/ ~Has(s.data, a.k)
         IN [s EXCEPT !.data = IF write THEN Put(@, a.k, a.o) ELSE @, !.ctx = AppendAll(@, a.o)]
    [] op \in {"contains", "search"} -> s

\* what the call reports
Warn(s, op, a) ==
  IF Refused(s, op, a) THEN None
  ELSE IF op = "set_id" /\ a.kind = "name" THEN WarnOf(s, a.o, a.v)
  ELSE IF op = "alias" /\ a.mode = "safe_none" /\ Has(s.data, a.k) /\ Get(s.data, a.k) # a.o /\ Get(s.data, a.k) \notin s.safe THEN "alias_replaced"
  ELSE None
Result(s, op, a) ==
  CASE op = "contains" -> IF Owns(s, a.o) THEN "yes" ELSE "no"
    [] op = "search" -> IF Has(s.data, a.k) THEN Get(s.data, a.k) ELSE None
    [] op = "pop" -> a.o
    [] OTHER -> None

Judge(s, e) ==
  LET p == Post(s, e.op, e.a)
      u == Norm(e.post) IN
  IF Refused(s, e.op, e.a) /\ e.obs.exc = None THEN "not_refused"
  ELSE IF ~Refused(s, e.op, e.a) /\ e.obs.exc # None THEN "exception"
  ELSE IF u.data # p.data THEN "registry"
  ELSE IF u.id # p.id THEN "object_id"
  ELSE IF u.ticket # p.ticket THEN "ticket"
  ELSE IF u.safe # p.safe THEN "safe_to_replace"
  ELSE IF u.reg # p.reg THEN "registered_objects"
  ELSE IF u.ctx # p.ctx THEN "context_levels"
  ELSE IF e.obs.warn # Warn(s, e.op, e.a) THEN "warning"
  ELSE IF e.op = "close_ctx" /\ e.obs.level # s.ctx[Len(s.ctx)] THEN "closed_level"
  ELSE IF e.obs.res # Result(s, e.op, e.a) THEN "result"
  ELSE "ok"
Legal(s) == TRUE
ObsLegal(e) == TRUE
Suspended(e) == FALSE
InitFrom(r) == LET n == Norm(r) IN
               data = n.data /\ id = n.id /\ ticket = n.ticket /\ safe = n.safe /\ reg = n.reg /\ ctx = n.ctx /\ akeys = {} /\ path = <<>>

---------------------------------------------------------------------------
(* model *)
Init == /\ data = {} /\ id = [o \in Objs |-> ""] /\ ticket = 0 /\ safe = {} /\ reg = {} /\ ctx = <<>> /\ akeys = {} /\ path = <<>>
SetM(t) == data' = t.data /\ id' = t.id /\ ticket' = t.ticket /\ safe' = t.safe /\ reg' = t.reg /\ ctx' = t.ctx
Keys(d) == {q[1] : q \in d}
Act(op, a) == /\ op \in Ops /\ (Pre(S, op, a) = TRUE)
              /\ LET p == Post(S, op, a) IN
                 /\ SetM(p)
                 /\ akeys' = (IF Refused(S, op, a) THEN akeys
                              ELSE IF op = "alias" THEN (IF <<a.k, a.o>> \in p.data /\ p.data # data THEN akeys \cup {a.k} ELSE akeys)
                              ELSE IF op = "set_id" /\ a.kind \in {"name", "auto", "int"} THEN (akeys \ {p.id[a.o]}) \cap Keys(p.data)
                              ELSE IF op = "track" THEN akeys \ {id[a.os[i]] : i \in DOMAIN a.os}
                              ELSE akeys \cap Keys(p.data))
              /\ path' = Append(path, [op |-> op, a |-> a])
Next == \/ \E o \in Objs : \/ Act("set_id", [o |-> o, kind |-> "none", v |-> 0])
                           \/ Act("set_id", [o |-> o, kind |-> "auto", v |-> 0])
                           \/ \E v \in Names \cup BadNames : Act("set_id", [o |-> o, kind |-> "name", v |-> v])
                           \/ \E v \in Names : Act("set_id", [o |-> o, kind |-> "dot", v |-> v])
                           \/ \E v \in Ints : Act("set_id", [o |-> o, kind |-> "int", v |-> v])
                           \/ Act("discard", [o |-> o]) \/ Act("pop", [o |-> o]) \/ Act("contains", [o |-> o])
                           \/ Act("untrack", [os |-> <<o>>]) \/ Act("track", [os |-> <<o>>])
                           \/ \E k \in Aliases, md \in {"safe_none", "safe_false", "safe_true", "unsafe_true", "unsafe_none"} :
                                 Act("alias", [o |-> o, k |-> k, mode |-> md])
        \/ \E k \in Names \cup Aliases \cup {Tick(1), Tick(2)} : Act("discard_name", [k |-> k]) \/ Act("search", [k |-> k])
        \/ Act("clear", [x |-> 0]) \/ Act("open_ctx", [x |-> 0]) \/ Act("close_ctx", [x |-> 0])
vars == <<data, id, ticket, safe, reg, ctx, akeys, path>>
Spec == Init /\ [][Next]_vars
Bound == ticket <= MaxTicket /\ Len(ctx) <= 2 /\ \A i \in DOMAIN ctx : Len(ctx[i]) <= 3

\* ---- what the design guarantees -------------------------------------------------------------------------------------
Functional == \A p, q \in data : p[1] = q[1] => p = q
\* an automatically chosen ID never takes an ID that is in use
Last == path'[Len(path')]
AutoFresh == [][(Len(path') > Len(path) /\ Last.op = "set_id" /\ Last.a.kind \in {"auto", "int"})
                  => ~Has(data, id'[Last.a.o]) /\ <<id'[Last.a.o], Last.a.o>> \in data']_vars
\* an object is filed under at most one ID of its own (aliases apart)
OnePrimary == \A o \in Objs : Cardinality({p \in data : p[2] = o /\ p[1] \notin akeys}) <= 1
\* a registered ID is found again and names the object that holds it
NamedIsFound == \A o \in Objs : Owns(S, o) => Get(data, id[o]) = o
\* assigning a valid name registers the object under exactly that name
NameTaken == [][(Len(path') > Len(path) /\ Last.op = "set_id" /\ Last.a.kind = "name" /\ Last.a.v \in Names)
                  => id'[Last.a.o] = Last.a.v /\ <<Last.a.v, Last.a.o>> \in data']_vars

\* ---- weaker expectations that the design does NOT meet (kept as documentation; TLC produces the scenarios) ------------
\* no object appears twice in one context level  (fails: an alias lists the object again)
NoDuplicateListing == \A i \in DOMAIN ctx : \A j, k \in DOMAIN ctx[i] : j # k => ctx[i][j] # ctx[i][k]
\* an object that believes it has an ID is the one filed under it (fails: replaced objects keep their ID)
NoStaleID == \A o \in Objs : id[o] # "" /\ Has(data, id[o]) => Get(data, id[o]) = o
=============================================================================
