----------------------------- MODULE PropCache -----------------------------
(***************************************************************************)
(* The memoisation protocol of Stream._get_property (C14), as implemented. *)
(*                                                                         *)
(* cell[c] is a thermodynamic state (phase, T, composition class, total);  *)
(* streams point to cells (proxies and links share the cell of their       *)
(* original).  memo[m] maps property names to the TOKEN of the state the   *)
(* value was computed for; key[x] is the (literal, composition) pair the   *)
(* stream object x saw last.  A read follows the code: on a key hit the    *)
(* memo entry is returned, otherwise the memo is cleared and recomputed.   *)
(* The property: every read returns the token of the reader's CURRENT      *)
(* state (Fresh).  Deviations = {"proxy_shares_memo"} transcribes the      *)
(* original proxy() (shared memo dictionary, private key) and must violate *)
(* Fresh; with Deviations = {} (proxy gets its own memo) Fresh holds.      *)
(***************************************************************************)
EXTENDS Integers, Sequences, FiniteSets, TLC

CONSTANTS Names, Temps, PhasesC, Comps, Totals, Props, NoPhaseProps, Deviations, Ops
VARIABLES cellOf, cell, memoOf, memo, key, last, path

vars == <<cellOf, cell, memoOf, memo, key, last, path>>
view == <<cellOf, cell, memoOf, memo, key, last>>
NoKey == <<"none">>
NoRead == [x |-> "none", p |-> "none", v |-> <<>>]

State(x) == cell[cellOf[x]]
\* what a freshly created stream would compute for property p in the state of x
Token(x, p) == IF p \in NoPhaseProps THEN <<p, State(x).T, State(x).comp>>
               ELSE <<p, State(x).phase, State(x).T, State(x).comp>>
Literal(x, p) == IF p \in NoPhaseProps THEN <<"np", State(x).T>> ELSE <<State(x).phase, State(x).T>>
KeyNow(x, p) == <<Literal(x, p), State(x).comp>>

Init == /\ cellOf = [x \in Names |-> x]
        /\ cell = [x \in Names |-> [phase |-> "l", T |-> CHOOSE t \in Temps : \A u \in Temps : t <= u,
                                    comp |-> CHOOSE c \in Comps : TRUE, total |-> 1]]
        /\ memoOf = [x \in Names |-> x]
        /\ memo = [x \in Names |-> [p \in Props |-> <<>>]]
        /\ key = [x \in Names |-> NoKey]
        /\ last = NoRead
        /\ path = <<>>

Log(op, a) == path' = Append(path, [op |-> op, a |-> a])

Read(x, p) ==
  LET hit == key[x] = KeyNow(x, p)
      m == memoOf[x]
      have == hit /\ memo[m][p] # <<>>
      v == IF have THEN memo[m][p] ELSE Token(x, p)
      m1 == IF hit THEN memo[m] ELSE [q \in Props |-> <<>>]
  IN /\ State(x).total # 0
     /\ last' = [x |-> x, p |-> p, v |-> v]
     /\ memo' = [memo EXCEPT ![m] = [m1 EXCEPT ![p] = v]]
     /\ key' = [key EXCEPT ![x] = KeyNow(x, p)]
     /\ UNCHANGED <<cellOf, cell, memoOf>>
     /\ Log("read", [x |-> x, p |-> p])

Mutate(x, f, val, opname) ==
  /\ cell' = [cell EXCEPT ![cellOf[x]][f] = val]
  /\ cell[cellOf[x]][f] # val
  /\ last' = NoRead
  /\ UNCHANGED <<cellOf, memoOf, memo, key>>
  /\ Log(opname, [x |-> x, v |-> val])

SetT(x, t) == Mutate(x, "T", t, "set_T")
SetPhase(x, ph) == Mutate(x, "phase", ph, "set_phase")
SetComp(x, c) == Mutate(x, "comp", c, "set_comp")
Scale(x, n) == Mutate(x, "total", n, "scale")

\* d becomes a proxy of x: same state cell; the original code shares the memo dictionary but copies the key
Proxy(d, x) ==
  /\ d # x /\ cellOf[d] = d /\ \A y \in Names : y # d => cellOf[y] # d      \* d is a free slot
  /\ cellOf' = [cellOf EXCEPT ![d] = cellOf[x]]
  /\ IF "proxy_shares_memo" \in Deviations
     THEN memoOf' = [memoOf EXCEPT ![d] = memoOf[x]] /\ key' = [key EXCEPT ![d] = key[x]] /\ UNCHANGED memo
     ELSE memoOf' = [memoOf EXCEPT ![d] = d] /\ key' = [key EXCEPT ![d] = NoKey]
          /\ memo' = [memo EXCEPT ![d] = [p \in Props |-> <<>>]]
  /\ last' = NoRead /\ UNCHANGED cell
  /\ Log("proxy", [d |-> d, x |-> x])

\* d is linked with x (flows, phase, T, P): same state cell, own memo and key (reset by nothing!)
Link(d, x) ==
  /\ d # x /\ cellOf[d] = d /\ \A y \in Names : y # d => cellOf[y] # d
  /\ cellOf' = [cellOf EXCEPT ![d] = cellOf[x]]
  /\ last' = NoRead /\ UNCHANGED <<cell, memoOf, memo, key>>
  /\ Log("link", [d |-> d, x |-> x])

Next == \/ "read" \in Ops /\ \E x \in Names, p \in Props : Read(x, p)
        \/ "set_T" \in Ops /\ \E x \in Names, t \in Temps : SetT(x, t)
        \/ "set_phase" \in Ops /\ \E x \in Names, ph \in PhasesC : SetPhase(x, ph)
        \/ "set_comp" \in Ops /\ \E x \in Names, c \in Comps : SetComp(x, c)
        \/ "scale" \in Ops /\ \E x \in Names, n \in Totals : Scale(x, n)
        \/ "proxy" \in Ops /\ \E d \in Names, x \in Names : Proxy(d, x)
        \/ "link" \in Ops /\ \E d \in Names, x \in Names : Link(d, x)
Spec == Init /\ [][Next]_vars

\* C14 on the model: the value just read is the one a fresh stream in the reader's state would give
Fresh == last # NoRead => last.v = Token(last.x, last.p)
\* every memo entry that a read could hit is for the state it would be hit in
MemoSound == \A x \in Names, p \in Props :
               (key[x] = KeyNow(x, p) /\ memo[memoOf[x]][p] # <<>>) => memo[memoOf[x]][p] = Token(x, p)
=============================================================================
