------------------------------- MODULE Sparse -------------------------------
(***************************************************************************)
(* Dense (NumPy) semantics of thermosteam/base/sparse.py  (C09).           *)
(*                                                                         *)
(* State: a few named sparse objects, each represented by its DENSE image  *)
(* (a tensor [nd, b, e]: number of dimensions, boolean-valued?, elements;  *)
(* numbers are exact rationals <<num, den>>), plus a read-only flag.       *)
(* Mutating calls (in-place arithmetic, item assignment, clear, copy_like, *)
(* mix_from, setflags) are the state-changing actions; pure calls (binary  *)
(* operators, comparisons, reductions, indexing, copies) are observations  *)
(* that must return the NumPy result and leave every object unchanged.     *)
(* The representation clause (stored entries = non-zero elements, indices  *)
(* inside the size) is RepOK, evaluated on the logged dictionaries.        *)
(***************************************************************************)
EXTENDS Fx, FiniteSets, TLC

CONSTANTS Names,      \* names of the objects in the universe (strings)
          Kind,       \* [Names -> {"vec", "lvec", "arr"}]
          NRows, NCols,   \* array rows (m), vector size / array columns (n)
          Alphabet,   \* model: set of rationals used for literal operands
          Bound,      \* model: |num| <= Bound and den <= DBound for every stored value (0: unbounded)
          DBound,
          Ops

VARIABLES objs, ro, path

S == [objs |-> objs, ro |-> ro]
SetS(t) == objs' = t.objs /\ ro' = t.ro
view == <<objs, ro>>
None == "none"

---------------------------------------------------------------------------
(* tensors *)
Reject == [nd |-> -1, b |-> FALSE, e |-> <<>>]
T0(x, b) == [nd |-> 0, b |-> b, e |-> x]
T1(q, b) == [nd |-> 1, b |-> b, e |-> q]
T2(q, b) == [nd |-> 2, b |-> b, e |-> q]
Rows(t) == IF t.nd = 2 THEN Len(t.e) ELSE 0
Cols(t) == CASE t.nd = 0 -> 0 [] t.nd = 1 -> Len(t.e) [] t.nd = 2 -> Len(t.e[1])
Raw(t, i, j) ==
  CASE t.nd = 0 -> t.e
    [] t.nd = 1 -> t.e[IF Len(t.e) = 1 THEN 1 ELSE j]
    [] t.nd = 2 -> LET r == t.e[IF Len(t.e) = 1 THEN 1 ELSE i] IN r[IF Len(r) = 1 THEN 1 ELSE j]
ToNum(isb, x) == IF isb THEN (IF x THEN One ELSE Zero) ELSE x
At(t, i, j)  == ToNum(t.b, Raw(t, i, j))                 \* element as a number
AtB(t, i, j) == IF t.b THEN Raw(t, i, j) ELSE ~RIsZero(Raw(t, i, j))   \* element as a truth value
Dim(a, b) == IF a = b THEN a ELSE IF a = 0 THEN b ELSE IF b = 0 THEN a
             ELSE IF a = 1 THEN b ELSE IF b = 1 THEN a ELSE -1
Mk(rows, cols, F(_, _), isb) ==
  IF rows = 0 /\ cols = 0 THEN T0(F(1, 1), isb)
  ELSE IF rows = 0 THEN T1([j \in 1..cols |-> F(1, j)], isb)
  ELSE T2([i \in 1..rows |-> [j \in 1..cols |-> F(i, j)]], isb)
SameShape(x, y) == Rows(x) = Rows(y) /\ Cols(x) = Cols(y) /\ x.nd = y.nd

Arith == {"add", "sub", "mul", "truediv"}
Cmp   == {"eq", "ne", "lt", "gt", "le", "ge"}
Logic == {"and", "or", "xor"}

NumOp(f, a, b) == CASE f = "add" -> RAdd(a, b) [] f = "sub" -> RSub(a, b)
                    [] f = "mul" -> RMul(a, b) [] f = "truediv" -> RDiv(a, b)
CmpOp(f, a, b) == CASE f = "eq" -> a = b [] f = "ne" -> a # b [] f = "lt" -> RLt(a, b)
                    [] f = "gt" -> RLt(b, a) [] f = "le" -> RLeq(a, b) [] f = "ge" -> RLeq(b, a)
LogOp(f, a, b) == CASE f = "and" -> a /\ b [] f = "or" -> a \/ b [] f = "xor" -> a # b

\* NumPy broadcasting of two tensors under an element-wise operator
BinT(f, x, y) ==
  LET rows == Dim(Rows(x), Rows(y))
      cols == Dim(Cols(x), Cols(y))
  IN IF rows = -1 \/ cols = -1 THEN Reject
     ELSE IF f \in Arith THEN Mk(rows, cols, LAMBDA i, j : NumOp(f, At(x, i, j), At(y, i, j)), FALSE)
     ELSE IF f \in Cmp THEN Mk(rows, cols, LAMBDA i, j : CmpOp(f, At(x, i, j), At(y, i, j)), TRUE)
     ELSE Mk(rows, cols, LAMBDA i, j : LogOp(f, AtB(x, i, j), AtB(y, i, j)), TRUE)

\* all elements of a tensor, row-major
Flat(t) == CASE t.nd = 0 -> <<t.e>> [] t.nd = 1 -> t.e
             [] t.nd = 2 -> [k \in 1..(Len(t.e) * Len(t.e[1])) |->
                               t.e[((k - 1) \div Len(t.e[1])) + 1][((k - 1) % Len(t.e[1])) + 1]]
RECURSIVE FoldSeq(_, _, _)
FoldSeq(F(_, _), acc, q) == IF q = <<>> THEN acc ELSE FoldSeq(F, F(acc, Head(q)), Tail(q))
NumSeq(t) == [k \in DOMAIN Flat(t) |-> ToNum(t.b, Flat(t)[k])]
HasZero(t) == \E k \in DOMAIN NumSeq(t) : RIsZero(NumSeq(t)[k])
InBound(t) == IF Bound = 0 \/ t.b THEN TRUE
              ELSE \A kb \in DOMAIN Flat(t) : Abs(Flat(t)[kb][1]) <= Bound /\ Flat(t)[kb][2] <= DBound

---------------------------------------------------------------------------
(* reductions: f in any all sum mean max min; axis "none", "a0", "a1"; keepdims *)
RedSeq(f, q, isb) ==      \* q: non-empty sequence of numbers
  CASE f = "sum"  -> FoldSeq(RAdd, Zero, q)
    [] f = "mean" -> RDiv(FoldSeq(RAdd, Zero, q), R(Len(q)))
    [] f = "max"  -> FoldSeq(RMax, q[1], q)
    [] f = "min"  -> FoldSeq(RMin, q[1], q)
    [] f = "any"  -> \E k \in DOMAIN q : ~RIsZero(q[k])
    [] f = "all"  -> \A k \in DOMAIN q : ~RIsZero(q[k])
RedIsBool(f, isb) == f \in {"any", "all"} \/ (isb /\ f \in {"max", "min"})
RedVal(f, q, isb) == IF isb /\ f \in {"max", "min"} THEN ~RIsZero(RedSeq(f, q, isb)) ELSE RedSeq(f, q, isb)
Reduce(f, t, axis, keep) ==
  LET rb == RedIsBool(f, t.b)
      col(j) == [i \in 1..Rows(t) |-> At(t, i, j)]
      row(i) == [j \in 1..Cols(t) |-> At(t, i, j)]
  IN IF t.nd = 1 THEN
        IF axis = "a1" THEN Reject
        ELSE IF keep THEN T1(<<RedVal(f, NumSeq(t), t.b)>>, rb) ELSE T0(RedVal(f, NumSeq(t), t.b), rb)
     ELSE \* nd = 2
        IF axis = None THEN
            IF keep THEN T2(<<<<RedVal(f, NumSeq(t), t.b)>>>>, rb) ELSE T0(RedVal(f, NumSeq(t), t.b), rb)
        ELSE IF axis = "a0" THEN
            LET q == [j \in 1..Cols(t) |-> RedVal(f, col(j), t.b)] IN IF keep THEN T2(<<q>>, rb) ELSE T1(q, rb)
        ELSE
            LET q == [i \in 1..Rows(t) |-> RedVal(f, row(i), t.b)] IN
            IF keep THEN T2([i \in 1..Rows(t) |-> <<q[i]>>], rb) ELSE T1(q, rb)

---------------------------------------------------------------------------
(* indexing.  ix = [k, ...]; all positions are 1-based in the specification
     vectors: int(i) slice(lo,hi: python bounds) all fancy(idx) mask(m)
     arrays : row(i) cell(i,j) col(j) all rowslice(i,lo,hi) *)
PosOf(t, ix) ==           \* vectors: the sequence of selected positions
  CASE ix.k = "int"   -> <<ix.i>>
    [] ix.k = "slice" -> [k \in 1..(ix.hi - ix.lo) |-> ix.lo + k]
    [] ix.k = "all"   -> [k \in 1..Len(t.e) |-> k]
    [] ix.k = "fancy" -> ix.idx
    [] ix.k = "mask"  -> LET RECURSIVE sel(_)
                             sel(k) == IF k > Len(ix.m) THEN <<>>
                                       ELSE (IF ix.m[k] THEN <<k>> ELSE <<>>) \o sel(k + 1)
                         IN sel(1)
IxOK(t, ix) ==
  IF t.nd = 1 THEN
    CASE ix.k = "int"   -> ix.i \in 1..Len(t.e)
      [] ix.k = "slice" -> ix.lo \in 0..Len(t.e) /\ ix.hi \in ix.lo..Len(t.e)
      [] ix.k = "all"   -> TRUE
      [] ix.k = "fancy" -> \A k \in DOMAIN ix.idx : ix.idx[k] \in 1..Len(t.e)
      [] ix.k = "mask"  -> Len(ix.m) = Len(t.e)
      [] OTHER -> FALSE
  ELSE
    CASE ix.k = "row"  -> ix.i \in 1..Rows(t)
      [] ix.k = "cell" -> ix.i \in 1..Rows(t) /\ ix.j \in 1..Cols(t)
      [] ix.k = "col"  -> ix.j \in 1..Cols(t)
      [] ix.k = "all"  -> TRUE
      [] ix.k = "rowslice" -> ix.i \in 1..Rows(t) /\ ix.lo \in 0..Cols(t) /\ ix.hi \in ix.lo..Cols(t)
      [] ix.k = "rows"    -> Len(ix.idx) >= 1 /\ \A k \in DOMAIN ix.idx : ix.idx[k] \in 1..Rows(t)
      [] ix.k = "rowscol" -> Len(ix.idx) >= 1 /\ ix.j \in 1..Cols(t) /\ \A k \in DOMAIN ix.idx : ix.idx[k] \in 1..Rows(t)
      [] ix.k = "cells"   -> /\ Len(ix.idx) >= 1 /\ Len(ix.idx) = Len(ix.jdx)
                             /\ \A k \in DOMAIN ix.idx : ix.idx[k] \in 1..Rows(t) /\ ix.jdx[k] \in 1..Cols(t)
      [] OTHER -> FALSE
\* item assignment through an index list is specified only when no position is named twice
IxDistinct(ix) ==
  CASE ix.k \in {"rows", "rowscol"} -> \A k1, k2 \in DOMAIN ix.idx : k1 # k2 => ix.idx[k1] # ix.idx[k2]
    [] ix.k = "cells" -> \A k1, k2 \in DOMAIN ix.idx : k1 # k2 => <<ix.idx[k1], ix.jdx[k1]>> # <<ix.idx[k2], ix.jdx[k2]>>
    [] OTHER -> TRUE
GetItem(t, ix) ==
  IF t.nd = 1 THEN
     IF ix.k = "int" THEN T0(t.e[ix.i], t.b)
     ELSE LET p == PosOf(t, ix) IN T1([k \in DOMAIN p |-> t.e[p[k]]], t.b)
  ELSE
    CASE ix.k = "row"  -> T1(t.e[ix.i], t.b)
      [] ix.k = "cell" -> T0(t.e[ix.i][ix.j], t.b)
      [] ix.k = "col"  -> T1([i \in 1..Rows(t) |-> t.e[i][ix.j]], t.b)
      [] ix.k = "all"  -> t
      [] ix.k = "rowslice" -> T1([k \in 1..(ix.hi - ix.lo) |-> t.e[ix.i][ix.lo + k]], t.b)
      [] ix.k = "rows"    -> T2([k \in DOMAIN ix.idx |-> t.e[ix.idx[k]]], t.b)
      [] ix.k = "rowscol" -> T1([k \in DOMAIN ix.idx |-> t.e[ix.idx[k]][ix.j]], t.b)
      [] ix.k = "cells"   -> T1([k \in DOMAIN ix.idx |-> t.e[ix.idx[k]][ix.jdx[k]]], t.b)

\* value conversion when storing into a float / boolean container
Store(tb, y, i, j) == IF tb THEN AtB(y, i, j) ELSE At(y, i, j)
LastIdx(p, pos) == CHOOSE k \in DOMAIN p : p[k] = pos /\ \A k2 \in DOMAIN p : p[k2] = pos => k2 <= k
SetItem(t, ix, y) ==      \* new tensor or Reject
  IF t.nd = 1 THEN
     LET p == PosOf(t, ix) IN
     IF y.nd = 2 /\ ~(Rows(y) = 1) THEN Reject
     ELSE IF ix.k = "int" THEN (IF Cols(y) \in {0, 1} THEN T1([t.e EXCEPT ![ix.i] = Store(t.b, y, 1, 1)], t.b) ELSE Reject)
     ELSE IF Cols(y) \notin {0, 1, Len(p)} THEN Reject
     ELSE T1([pos \in 1..Len(t.e) |-> IF \E k \in DOMAIN p : p[k] = pos
                                       THEN Store(t.b, y, 1, LastIdx(p, pos)) ELSE t.e[pos]], t.b)
  ELSE
    CASE ix.k = "cell" -> IF Rows(y) \in {0, 1} /\ Cols(y) \in {0, 1} THEN T2([t.e EXCEPT ![ix.i][ix.j] = Store(t.b, y, 1, 1)], t.b) ELSE Reject
      [] ix.k = "row"  -> IF Rows(y) \in {0, 1} /\ Cols(y) \in {0, 1, Cols(t)}
                          THEN T2([t.e EXCEPT ![ix.i] = [j \in 1..Cols(t) |-> Store(t.b, y, 1, j)]], t.b) ELSE Reject
      [] ix.k = "rowslice" -> IF Rows(y) \in {0, 1} /\ Cols(y) \in {0, 1, ix.hi - ix.lo}
                          THEN T2([t.e EXCEPT ![ix.i] = [j \in 1..Cols(t) |-> IF j > ix.lo /\ j <= ix.hi
                                                           THEN Store(t.b, y, 1, j - ix.lo) ELSE t.e[ix.i][j]]], t.b) ELSE Reject
      [] ix.k = "col"  -> IF (y.nd <= 1 \/ Rows(y) = 1) /\ Cols(y) \in {0, 1, Rows(t)}
                          THEN T2([i \in 1..Rows(t) |-> [t.e[i] EXCEPT ![ix.j] = Store(t.b, y, 1, i)]], t.b) ELSE Reject
      [] ix.k = "all"  -> IF Rows(y) \in {0, 1, Rows(t)} /\ Cols(y) \in {0, 1, Cols(t)}
                          THEN T2([i \in 1..Rows(t) |-> [j \in 1..Cols(t) |-> Store(t.b, y, i, j)]], t.b) ELSE Reject
      [] ix.k = "rows" -> IF Rows(y) \in {0, 1, Len(ix.idx)} /\ Cols(y) \in {0, 1, Cols(t)}
                          THEN T2([i \in 1..Rows(t) |-> IF \E k \in DOMAIN ix.idx : ix.idx[k] = i
                                     THEN [j \in 1..Cols(t) |-> Store(t.b, y, CHOOSE k \in DOMAIN ix.idx : ix.idx[k] = i, j)]
                                     ELSE t.e[i]], t.b) ELSE Reject
      [] ix.k = "rowscol" -> IF (y.nd <= 1 \/ Rows(y) = 1) /\ Cols(y) \in {0, 1, Len(ix.idx)}
                          THEN T2([i \in 1..Rows(t) |-> IF \E k \in DOMAIN ix.idx : ix.idx[k] = i
                                     THEN [t.e[i] EXCEPT ![ix.j] = Store(t.b, y, 1, CHOOSE k \in DOMAIN ix.idx : ix.idx[k] = i)]
                                     ELSE t.e[i]], t.b) ELSE Reject
      [] ix.k = "cells" -> IF (y.nd <= 1 \/ Rows(y) = 1) /\ Cols(y) \in {0, 1, Len(ix.idx)}
                          THEN T2([i \in 1..Rows(t) |-> [j \in 1..Cols(t) |->
                                     IF \E k \in DOMAIN ix.idx : ix.idx[k] = i /\ ix.jdx[k] = j
                                     THEN Store(t.b, y, 1, CHOOSE k \in DOMAIN ix.idx : ix.idx[k] = i /\ ix.jdx[k] = j)
                                     ELSE t.e[i][j]]], t.b) ELSE Reject

---------------------------------------------------------------------------
(* operands: o = [k, ref, t];  k = "ref": the object named o.ref, otherwise the literal
   tensor o.t given as python scalar ("py"), python list ("list") or ndarray ("nd") *)
Val(s, o) == IF o.k = "ref" THEN s.objs[o.ref] ELSE o.t
\* the supported operand shapes: one element, one row, or the full shape (DESIGN C09: column
\* operands (m,1) are outside the supported operations)
Supported(x, y) == /\ y.nd \in {0, 1, 2}
                   /\ y.nd = 2 => (Rows(y) = 1 \/ Cols(y) # 1 \/ Cols(x) = 1)
                   \* a 2-d operand with one row is treated as that row by 1-d sparse objects (NumPy would
                   \* return / demand a 2-d result): outside the contract
                   /\ (x.nd = 1 /\ y.nd = 2) => Rows(y) # 1
\* == and != also accept a dense column (m,1) next to a sparse 2-d array (every row is compared with its own length-1
\* operand); arithmetic and ordering with such operands is refused by the library and stays outside the contract
ColumnCmp(f, x, o, y) == /\ f \in {"eq", "ne"} /\ o.k \in {"list", "nd"} /\ x.nd = 2 /\ y.nd = 2
                         /\ Cols(y) = 1 /\ Rows(y) = Rows(x) /\ Cols(x) > 1
ZerosT(t) == Mk(Rows(t), Cols(t), LAMBDA i, j : IF t.b THEN FALSE ELSE Zero, t.b)

\* ---- mutating operations: PostM gives <<new state, raises?>> ----------------
Mutating == {"iop", "ilog", "setitem", "clear", "copy_like", "mix_from", "setflags"}
Pure == {"bin", "rbin", "un", "red", "getitem"}

RECURSIVE SumRefs(_, _, _)
SumRefs(s, refs, acc) == IF refs = <<>> THEN acc
                         ELSE SumRefs(s, Tail(refs), BinT("add", acc, s.objs[Head(refs)]))

Pre(s, op, a) ==
  CASE op = "iop" -> /\ a.tgt \in Names /\ Kind[a.tgt] \in {"vec", "arr"} /\ a.f \in Arith
                     /\ (a.o.k = "ref" => a.o.ref \in Names)
                     /\ LET x == s.objs[a.tgt]
                            y == Val(s, a.o) IN
                        /\ Supported(x, y)
                        /\ a.f = "truediv" => ~HasZero(y)
                        /\ LET r == BinT(a.f, x, y) IN r.nd # -1 /\ SameShape(r, x) => InBound(r)
    [] op = "ilog" -> /\ a.tgt \in Names /\ Kind[a.tgt] = "lvec" /\ a.f \in Logic
                      /\ (a.o.k = "ref" => a.o.ref \in Names)
                      /\ Val(s, a.o).b /\ Supported(s.objs[a.tgt], Val(s, a.o))
    [] op = "setitem" -> /\ a.tgt \in Names /\ IxOK(s.objs[a.tgt], a.ix) /\ IxDistinct(a.ix)
                         /\ (a.o.k = "ref" => a.o.ref \in Names)
                         /\ Val(s, a.o).nd \in {0, 1, 2}
                         /\ a.ix.k = "mask" => Val(s, a.o).nd # 2     \* NumPy itself refuses 2-d values for boolean-mask assignment
                         /\ s.objs[a.tgt].b => Val(s, a.o).b
                         /\ InBound(Val(s, a.o))
    [] op = "clear" -> a.tgt \in Names /\ Kind[a.tgt] # "lvec"        \* no such method on logical vectors
    [] op = "setflags" -> a.tgt \in Names /\ Kind[a.tgt] # "lvec"      \* logical vectors have no read-only flag
    [] op = "copy_like" -> /\ a.tgt \in Names /\ a.src \in Names /\ Kind[a.tgt] = Kind[a.src] /\ ~s.ro[a.tgt] /\ Kind[a.tgt] # "lvec"
                           /\ SameShape(s.objs[a.tgt], s.objs[a.src])
    [] op = "mix_from" -> /\ a.tgt \in Names /\ Kind[a.tgt] = "vec" /\ ~s.ro[a.tgt]
                          /\ \A k \in DOMAIN a.srcs : a.srcs[k] \in Names /\ Kind[a.srcs[k]] = "vec"
                          /\ InBound(SumRefs(s, a.srcs, ZerosT(s.objs[a.tgt])))
    [] op = "bin" -> /\ a.x \in Names /\ a.f \in Arith \cup Cmp \cup Logic
                     /\ (a.o.k = "ref" => a.o.ref \in Names)
                     /\ LET x == s.objs[a.x]
                            y == Val(s, a.o) IN
                        /\ Supported(x, y) \/ ColumnCmp(a.f, x, a.o, y)
                        /\ a.f \in Arith => ~x.b /\ (a.f = "truediv" => ~HasZero(y))
                        /\ a.f \in Logic => x.b /\ y.b
                        /\ a.f \in Cmp \ {"eq", "ne"} => ~x.b /\ ~y.b
    [] op = "rbin" -> /\ a.x \in Names /\ a.f \in Arith /\ ~s.objs[a.x].b /\ a.o.k = "py" /\ ~a.o.t.b
                      /\ a.f = "truediv" => ~HasZero(s.objs[a.x])
    [] op = "un" -> /\ a.x \in Names /\ a.f \in {"neg", "abs", "invert", "copy", "to_array"}
                    /\ a.f \in {"neg", "abs"} => ~s.objs[a.x].b
                    /\ a.f = "invert" => s.objs[a.x].b
    [] op = "red" -> /\ a.x \in Names /\ a.f \in {"any", "all", "sum", "mean", "max", "min"}
                     /\ a.axis \in {None, "a0", "a1"}
    [] op = "getitem" -> a.x \in Names /\ IxOK(s.objs[a.x], a.ix)
    [] OTHER -> FALSE

\* does the (in-contract) call have to be refused?
Refused(s, op, a) ==
  CASE op = "iop" -> \/ s.ro[a.tgt]
                     \/ LET r == BinT(a.f, s.objs[a.tgt], Val(s, a.o)) IN r.nd = -1 \/ ~SameShape(r, s.objs[a.tgt])
    [] op = "ilog" -> \/ s.ro[a.tgt]
                      \/ LET r == BinT(a.f, s.objs[a.tgt], Val(s, a.o)) IN r.nd = -1 \/ ~SameShape(r, s.objs[a.tgt])
    [] op = "setitem" -> s.ro[a.tgt] \/ SetItem(s.objs[a.tgt], a.ix, Val(s, a.o)).nd = -1
    [] op = "clear" -> s.ro[a.tgt]
    [] op = "bin" -> BinT(a.f, s.objs[a.x], Val(s, a.o)).nd = -1
    [] op = "red" -> Reduce(a.f, s.objs[a.x], a.axis, a.keep).nd = -1
    [] OTHER -> FALSE

Post(s, op, a) ==
  IF op \in Pure \/ Refused(s, op, a) THEN s
  ELSE CASE op = "iop"  -> [s EXCEPT !.objs[a.tgt] = BinT(a.f, s.objs[a.tgt], Val(s, a.o))]
         [] op = "ilog" -> [s EXCEPT !.objs[a.tgt] = BinT(a.f, s.objs[a.tgt], Val(s, a.o))]
         [] op = "setitem" -> [s EXCEPT !.objs[a.tgt] = SetItem(s.objs[a.tgt], a.ix, Val(s, a.o))]
         [] op = "clear" -> [s EXCEPT !.objs[a.tgt] = ZerosT(s.objs[a.tgt])]
         [] op = "setflags" -> [s EXCEPT !.ro[a.tgt] = TRUE]
         [] op = "copy_like" -> [s EXCEPT !.objs[a.tgt] = s.objs[a.src]]
         [] op = "mix_from" -> [s EXCEPT !.objs[a.tgt] = SumRefs(s, a.srcs, ZerosT(s.objs[a.tgt]))]

\* result of a pure call (dense image)
Res(s, op, a) ==
  CASE op = "bin"  -> BinT(a.f, s.objs[a.x], Val(s, a.o))
    [] op = "rbin" -> BinT(a.f, a.o.t, s.objs[a.x])
    [] op = "un"   -> LET x == s.objs[a.x] IN
                      CASE a.f = "neg" -> BinT("sub", T0(Zero, FALSE), x)
                        [] a.f = "abs" -> Mk(Rows(x), Cols(x), LAMBDA i, j : RAbs(At(x, i, j)), FALSE)
                        [] a.f = "invert" -> Mk(Rows(x), Cols(x), LAMBDA i, j : ~AtB(x, i, j), TRUE)
                        [] OTHER -> x
    [] op = "red"  -> Reduce(a.f, s.objs[a.x], a.axis, a.keep)
    [] op = "getitem" -> GetItem(s.objs[a.x], a.ix)
    [] OTHER -> Reject

---------------------------------------------------------------------------
(* representation clause, evaluated on what the implementation actually stores:
   rep = sequence of rows [size, keys (sorted, 0-based), vals] for a dense image t *)
RowImage(t, i) == IF t.nd = 2 THEN t.e[i] ELSE t.e
RepRowOK(r, img, isb) ==
  /\ \A k \in DOMAIN r.keys : r.keys[k] \in 0..(r.size - 1)
  /\ \A k \in 1..(Len(r.keys) - 1) : r.keys[k] < r.keys[k + 1]
  /\ r.size = Len(img)
  /\ ~isb => \A k \in DOMAIN r.keys : ~RIsZero(r.vals[k]) /\ img[r.keys[k] + 1] = r.vals[k]
  /\ \A p \in 1..Len(img) : (\A k \in DOMAIN r.keys : r.keys[k] # p - 1) => (IF isb THEN ~img[p] ELSE RIsZero(img[p]))
  /\ isb => \A k \in DOMAIN r.keys : img[r.keys[k] + 1]
RepOK(rep, t) == /\ Len(rep) = (IF t.nd = 2 THEN Len(t.e) ELSE 1)
                 /\ \A i \in DOMAIN rep : RepRowOK(rep[i], RowImage(t, i), t.b)

TensorOK(t, kind) ==
  /\ t.nd = (IF kind = "arr" THEN 2 ELSE 1)
  /\ t.b = (kind = "lvec")
  /\ Cols(t) = NCols /\ (kind = "arr" => Rows(t) = NRows)
TypeOKs(s) == \A n \in Names : TensorOK(s.objs[n], Kind[n]) /\ s.ro[n] \in BOOLEAN
TypeOK == TypeOKs(S)
ValuesBounded == \A n \in Names : InBound(objs[n])

---------------------------------------------------------------------------
(* binding to recorded executions *)
TEq(x, y) == x.nd = y.nd /\ x.b = y.b /\ x = y
\* equal dense images up to the element type (True = 1, False = 0)
NumImage(x) == Mk(Rows(x), Cols(x), LAMBDA i, j : At(x, i, j), FALSE)
NEq(x, y) == x.nd = y.nd /\ (IF x.b = y.b THEN x = y
                              ELSE IF x.nd = 1 /\ (Len(x.e) = 0 \/ Len(y.e) = 0) THEN Len(x.e) = Len(y.e)
                              ELSE SameShape(x, y) /\ NumImage(x) = NumImage(y))      \* rank and dtype first: TLC cannot compare values of different type
InitFrom(r) == objs = r.objs /\ ro = r.ro /\ path = <<>>
WellFormed(t) == \A k \in DOMAIN Flat(t) : t.b \/ Flat(t)[k][2] > 0
Legal(s) == TypeOKs(s) /\ \A n \in Names : WellFormed(s.objs[n])

RECURSIVE FirstBadRep(_, _, _)
FirstBadRep(names, reps, t) ==       \* names: sequence; reps, t: records by name
  IF names = <<>> THEN "ok"
  ELSE IF ~RepOK(reps[Head(names)], t[Head(names)]) THEN "representation." \o Head(names)
  ELSE FirstBadRep(Tail(names), reps, t)

Suspended(e) == FALSE
ObsLegal(e) == FirstBadRep(e.obs.names, e.obs.rep, e.post.objs) = "ok"

\* e = [op, a, post, obs];  obs = [exc, res (tensor or Reject), resrep (rows, <<>> if dense), rep (by name), names (seq)]
Judge(s, e) ==
  LET t == Post(s, e.op, e.a)
      refused == Refused(s, e.op, e.a)
  IN IF e.obs.npexc = None /\ refused THEN "SPEC_VS_NUMPY.rejects"
     ELSE IF e.obs.npexc # None /\ ~refused THEN "SPEC_VS_NUMPY.accepts"
     ELSE IF ~refused /\ e.op \in Pure /\ ~TEq(e.obs.np, Res(s, e.op, e.a)) THEN "SPEC_VS_NUMPY.result"
     ELSE IF ~refused /\ e.op \in Mutating \ {"setflags"} /\ ~TEq(e.obs.np, t.objs[e.a.tgt]) THEN "SPEC_VS_NUMPY.target"
     ELSE IF refused /\ e.obs.exc = None THEN "not_rejected"
     ELSE IF ~refused /\ e.obs.exc # None THEN "exception"
     ELSE IF e.post.ro # t.ro THEN "post.ro"
     ELSE IF \E n \in Names : ~TEq(e.post.objs[n], t.objs[n]) /\ e.op \in Mutating /\ n = e.a.tgt THEN "post.target"
     ELSE IF \E n \in Names : ~TEq(e.post.objs[n], t.objs[n]) THEN "post.other_object_changed"
     ELSE IF e.op \in Pure /\ ~refused /\ e.obs.res.nd # Res(s, e.op, e.a).nd THEN "result.ndim"
     ELSE IF e.op \in Pure /\ ~refused /\ ~NEq(e.obs.res, Res(s, e.op, e.a)) THEN "result.value"
     ELSE IF e.op \in Pure /\ ~refused /\ e.obs.resrep # <<>> /\ ~RepOK(e.obs.resrep, e.obs.res) THEN "representation.result"
     ELSE FirstBadRep(e.obs.names, e.obs.rep, e.post.objs)

---------------------------------------------------------------------------
(* behaviour specification (model): literal operands are drawn from Alphabet *)
AlphaT0 == {T0(x, FALSE) : x \in Alphabet}
AlphaT1 == {T1(q, FALSE) : q \in [1..NCols -> Alphabet]} \cup {T1(<<x>>, FALSE) : x \in Alphabet}
BoolT0  == {T0(x, TRUE) : x \in BOOLEAN}
BoolT1  == {T1(q, TRUE) : q \in [1..NCols -> BOOLEAN]}
Lit(k, t) == [k |-> k, ref |-> "", t |-> t]
Ref(n) == [k |-> "ref", ref |-> n, t |-> Reject]
\* operand families (kept apart: TLC cannot build a set of tensors of different rank)
Fam == << {Lit("py", t) : t \in AlphaT0}, {Lit("list", t) : t \in AlphaT1}, {Lit("nd", t) : t \in AlphaT1},
          {Ref(n) : n \in Names},
          {Lit("py", t) : t \in BoolT0}, {Lit("list", t) : t \in BoolT1} >>
NumFam == 1..4
BoolFam == 4..6
VecIx == {[k |-> "int", i |-> i] : i \in 1..NCols} \cup {[k |-> "all"]}
         \cup {[k |-> "slice", lo |-> lo, hi |-> hi] : lo \in 0..NCols, hi \in 0..NCols}
         \cup {[k |-> "mask", m |-> m] : m \in [1..NCols -> BOOLEAN]}
         \cup {[k |-> "fancy", idx |-> <<i, j>>] : i \in 1..NCols, j \in 1..NCols}
ArrIx == {[k |-> "row", i |-> i] : i \in 1..NRows} \cup {[k |-> "all"]}
         \cup {[k |-> "cell", i |-> i, j |-> j] : i \in 1..NRows, j \in 1..NCols}
         \cup {[k |-> "col", j |-> j] : j \in 1..NCols}
IxFor(n) == IF Kind[n] = "arr" THEN ArrIx ELSE VecIx

Init == /\ objs = [n \in Names |-> ZerosT(CASE Kind[n] = "arr" -> T2([i \in 1..NRows |-> [j \in 1..NCols |-> Zero]], FALSE)
                                            [] Kind[n] = "vec" -> T1([j \in 1..NCols |-> Zero], FALSE)
                                            [] Kind[n] = "lvec" -> T1([j \in 1..NCols |-> FALSE], TRUE))]
        /\ ro = [n \in Names |-> FALSE]
        /\ path = <<>>

Act(op, a) == /\ (Pre(S, op, a) = TRUE)      \* "= TRUE": evaluate as a value, not as an action (no branching on \/)
              /\ SetS(Post(S, op, a))
              /\ path' = Append(path, [op |-> op, a |-> a])

IOp      == "iop" \in Ops /\ \E n \in Names, f \in Arith, k \in 1..6 : \E o \in Fam[k] : Act("iop", [tgt |-> n, f |-> f, o |-> o])
ILog     == "ilog" \in Ops /\ \E n \in Names, f \in Logic, k \in BoolFam : \E o \in Fam[k] : Act("ilog", [tgt |-> n, f |-> f, o |-> o])
SetItemA == "setitem" \in Ops /\ \E n \in Names, k \in 1..6 : \E ix \in IxFor(n), o \in Fam[k] :
               Act("setitem", [tgt |-> n, ix |-> ix, o |-> o])
Clear    == "clear" \in Ops /\ \E n \in Names : Act("clear", [tgt |-> n])
SetFlags == "setflags" \in Ops /\ \E n \in Names : Act("setflags", [tgt |-> n])
CopyLike == "copy_like" \in Ops /\ \E n \in Names, m \in Names : Act("copy_like", [tgt |-> n, src |-> m])
MixFrom  == "mix_from" \in Ops /\ \E n \in Names, q \in UNION {[1..k -> Names] : k \in 0..2} : Act("mix_from", [tgt |-> n, srcs |-> q])
Next == IOp \/ ILog \/ SetItemA \/ Clear \/ SetFlags \/ CopyLike \/ MixFrom

vars == <<objs, ro, path>>
Spec == Init /\ [][Next]_vars

\* design-level sanity of the dense semantics (checked by TLC on the model)
InPlaceKeepsShape == [][\A n \in Names : SameShape(objs[n], objs'[n])]_vars
ReadOnlyFrozen    == [][\A n \in Names : ro[n] => (objs'[n] = objs[n] /\ ro'[n])]_vars
=============================================================================
