---------------------------- MODULE MC_FreeEnergy ----------------------------
EXTENDS FreeEnergy
P(ref, lock, cs, cl, cg, Tm20, Tb20, Sfus20, Svap20, S0_20) ==
  [ref |-> ref, lock |-> lock, cs |-> cs, cl |-> cl, cg |-> cg, Tm20 |-> Tm20, Tb20 |-> Tb20, Sfus20 |-> Sfus20, Svap20 |-> Svap20,
   Hfus400 |-> Sfus20 * Tm20, Hvap400 |-> Svap20 * Tb20, S0_20 |-> S0_20]
\* melting / boiling points on both sides of T_ref = 298.15 K (5963): (250, 400), (300, 350), (200, 280), (320, 450), and one
\* chemical that melts ABOVE its boiling point (350, 280: sublimes at atmospheric pressure, like CO2)
c_Grid == {P(ref, "none", cs, cl, cg, tt[1], tt[2], sf, 7, s0) :
             ref \in {"s", "l", "g"}, cs \in {1, 2}, cl \in {1, 3}, cg \in {2}, tt \in {<<5000, 8000>>, <<6000, 7000>>, <<4000, 5600>>, <<6400, 9000>>, <<7000, 5600>>},
             sf \in {2}, s0 \in {0, 100}}
          \cup {P(lk, lk, 1, cl, 2, tt[1], tt[2], 2, 7, s0) : lk \in {"s", "l", "g"}, cl \in {1, 3}, tt \in {<<5000, 8000>>, <<6000, 7000>>}, s0 \in {0, 100}}
=============================================================================
