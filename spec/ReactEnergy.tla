---------------------------- MODULE ReactEnergy ----------------------------
(***************************************************************************)
(* Heat of reaction and adiabatic reaction (C06;                           *)
(* thermosteam/reaction/_reaction.py dH, adiabatic_reaction, __call__;     *)
(* Stream.Hnet / Hf).                                                      *)
(*                                                                         *)
(* Synthetic chemicals: heat of formation Hf, molar mass MW, reference     *)
(* phase ref, latent heats Hvap, Hfus and ONE constant heat capacity c in  *)
(* every phase, so that the molar enthalpy is exactly                      *)
(*      h(i, ph, T) = c_i (T - T_ref) + Lat(ref_i -> ph)                   *)
(* and the latent heat is the same at every temperature.  The stream is a  *)
(* phase x chemical table of exact rationals; temperature is d3 = Scale x (T *)
(* - T_ref), an integer; enthalpy flows are integers in 1/Scale kJ/hr.     *)
(*                                                                         *)
(* A reaction is (nu, r, X, tag): stoichiometry normalised to -1 on the    *)
(* reactant, conversion, and either tag = <<>> (phase-less: acts on the    *)
(* single phase of the stream) or tag[i] = phase of chemical i.  The heat  *)
(* of reaction is DEFINED by the property:                                 *)
(*    dH = X sum_i nu_i (Hf_i + Lat(ref_i -> tag_i))   (/ MW_r by weight)  *)
(* The model checker verifies on the model that reacting isothermally at   *)
(* T_ref with every participant in the phase the definition assumes moves  *)
(* Hnet by exactly dH x reactant fed (items of parallel / series sets see  *)
(* the feed / the running composition), that in general the change is the  *)
(* reaction heat at the stream's temperature and phases, and that the      *)
(* adiabatic temperature rule closes the balance Hnet' = Hnet + Q.         *)
(***************************************************************************)
EXTENDS Fx, FiniteSets, TLC

Scale == 100       \* fixed point: temperatures in 1/Scale K, enthalpy flows in 1/Scale kJ/hr, molar enthalpies in 1/Scale J/mol

CONSTANTS NC,          \* number of chemicals
          Chem,        \* <<[Hf, MW, ref, Hvap, Hfus, c] ...>>
          Lib,         \* stoichiometries (vectors of rationals, not normalised)
          Tags,        \* model: tag vectors (<<>> = phase-less)
          ModelFeeds,  \* model: [kind, m] records
          XVals, QVals, DVals, HfChems, HfVals, Ops

VARIABLES kind,        \* phases of the stream: "g", "l" (single-phase) or "gl", "gs", "ls", "gls" (multi-phase)
          m,           \* [ {"g","l","s"} -> [1..NC -> rational] ]
          d3,          \* Scale x (T - T_ref)
          rs,          \* loaded reaction (set): [kind |-> "none"|"single"|"parallel"|"series", basis, items]
          hf,          \* heats of formation as the compiled chemicals hold them (users may change them and refresh)
          added, path  \* model history: enthalpy ledger
S == [kind |-> kind, m |-> m, d3 |-> d3, rs |-> rs, hf |-> hf]
SetS(t) == kind' = t.kind /\ m' = t.m /\ d3' = t.d3 /\ rs' = t.rs /\ hf' = t.hf
view == <<kind, m, d3, rs, hf, added>>
AuxVars == <<added, path>>
None == "none"
NoSet == [kind |-> "none", basis |-> "mol", items |-> <<>>]
Phs == {"g", "l", "s"}
PhasesOf(k) == CASE k = "g" -> {"g"} [] k = "l" -> {"l"} [] k = "s" -> {"s"} [] k = "gl" -> {"g", "l"} [] k = "gs" -> {"g", "s"}
                 [] k = "ls" -> {"l", "s"} [] k = "gls" -> {"g", "l", "s"} [] OTHER -> {}
KindOf(ps) == CHOOSE k \in {"g", "l", "s", "gl", "gs", "ls", "gls"} : PhasesOf(k) = ps
Chems == 1..NC

\* latent heat from the reference phase of chemical i to phase ph (integers, J/mol)
Lat(i, ph) ==
  LET c == Chem[i] IN
  IF c.ref = ph THEN 0
  ELSE CASE c.ref = "l" /\ ph = "g" -> c.Hvap
         [] c.ref = "l" /\ ph = "s" -> -c.Hfus
         [] c.ref = "g" /\ ph = "l" -> -c.Hvap
         [] c.ref = "g" /\ ph = "s" -> -(c.Hvap + c.Hfus)
         [] c.ref = "s" /\ ph = "l" -> c.Hfus
         [] c.ref = "s" /\ ph = "g" -> c.Hfus + c.Hvap
\* molar total enthalpy (formation + latent + sensible) in 1/Scale J/mol at temperature offset dd3
HMol3(h, i, ph, dd3) == (h[i] + Lat(i, ph)) * Scale + Chem[i].c * dd3

RECURSIVE SumOver(_, _)
SumOver(F(_), set) == IF set = {} THEN Zero ELSE LET x == CHOOSE y \in set : TRUE IN RAdd(F(x), SumOver(F, set \ {x}))
Cells == Phs \X Chems
\* total enthalpy flow including formation, 1/Scale kJ/hr (rational)
Hnet3(s) == SumOver(LAMBDA pc : RMul(s.m[pc[1]][pc[2]], R(HMol3(s.hf, pc[2], pc[1], s.d3))), Cells)
\* heat capacity flow, kJ/hr/K (rational)
CFlow(mm) == SumOver(LAMBDA pc : RMul(mm[pc[1]][pc[2]], R(Chem[pc[2]].c)), Cells)
\* formation + latent part only
HForm3(h, mm) == SumOver(LAMBDA pc : RMul(mm[pc[1]][pc[2]], R((h[pc[2]] + Lat(pc[2], pc[1])) * Scale)), Cells)

---------------------------------------------------------------------------
(* reactions *)
Tagged(it) == it.tag # <<>>
Participants(it) == {i \in Chems : ~RIsZero(it.nu[i])}
TagPhases(it) == {it.tag[i] : i \in Participants(it)}
\* the phase in which chemical i is taken / produced by item it on a stream of kind k
PhaseIn(it, k, i) == IF Tagged(it) THEN it.tag[i] ELSE k
\* phases a (set of) reaction(s) implements; a stream must offer exactly these
SetPhases(set) == UNION {TagPhases(set.items[j]) : j \in DOMAIN set.items}
AllTagged(set) == \A j \in DOMAIN set.items : Tagged(set.items[j])
NoneTagged(set) == \A j \in DOMAIN set.items : ~Tagged(set.items[j])
Fits(set, k) == \/ NoneTagged(set) /\ k \in {"g", "l"}
                \/ AllTagged(set) /\ PhasesOf(k) = SetPhases(set)

\* the heat of reaction as the property defines it, J/mol reactant (mol) or J/g reactant (wt), rational
DH(h, it, basis) ==
  LET tot == SumOver(LAMBDA i : RMul(it.nu[i], R(h[i] + (IF Tagged(it) THEN Lat(i, it.tag[i]) ELSE 0))), Participants(it))
      q == RMul(it.X, tot)
  IN IF basis = "wt" THEN RDiv(q, R(Chem[it.r].MW)) ELSE q
\* amount of reactant in the basis unit (kmol/hr or kg/hr) that item it sees in table mm
Seen(it, k, mm, basis) == LET n == mm[PhaseIn(it, k, it.r)][it.r] IN IF basis = "wt" THEN RMul(n, R(Chem[it.r].MW)) ELSE n

\* change of the table when item it reacts the amount n (kmol/hr) of its reactant
Delta(it, k, n) == [ph \in Phs |-> [i \in Chems |-> IF ~RIsZero(it.nu[i]) /\ PhaseIn(it, k, i) = ph THEN RMul(RMul(n, it.X), it.nu[i]) ELSE Zero]]
TAdd(a, b) == [ph \in Phs |-> [i \in Chems |-> RAdd(a[ph][i], b[ph][i])]]
ZeroT == [ph \in Phs |-> [i \in Chems |-> Zero]]
Apply1(it, k, mm) == TAdd(mm, Delta(it, k, mm[PhaseIn(it, k, it.r)][it.r]))
RECURSIVE ApplySeries(_, _, _)
ApplySeries(items, k, mm) == IF items = <<>> THEN mm ELSE ApplySeries(Tail(items), k, Apply1(Head(items), k, mm))
RECURSIVE ParDelta(_, _, _)
ParDelta(items, k, mm) == IF items = <<>> THEN ZeroT
                          ELSE TAdd(Delta(Head(items), k, mm[PhaseIn(Head(items), k, Head(items).r)][Head(items).r]), ParDelta(Tail(items), k, mm))
ApplySet(set, k, mm) == IF set.kind = "parallel" THEN TAdd(mm, ParDelta(set.items, k, mm)) ELSE ApplySeries(set.items, k, mm)
NonNegT(mm) == \A ph \in Phs, i \in Chems : ~RLt(mm[ph][i], Zero)

\* heat released to the stream's Hnet ledger when the set reacts isothermally, by the DEFINITION (valid when the
\* definition's assumptions hold: T = T_ref and every participant in its tagged / reference phase); 1/Scale kJ/hr
RECURSIVE HeatSeries(_, _, _, _, _)
HeatSeries(h, items, k, mm, basis) ==
  IF items = <<>> THEN Zero
  ELSE RAdd(RMul(RMul(DH(h, Head(items), basis), Seen(Head(items), k, mm, basis)), R(Scale)),
            HeatSeries(h, Tail(items), k, Apply1(Head(items), k, mm), basis))
RECURSIVE HeatParallel(_, _, _, _, _)
HeatParallel(h, items, k, mm, basis) ==
  IF items = <<>> THEN Zero
  ELSE RAdd(RMul(RMul(DH(h, Head(items), basis), Seen(Head(items), k, mm, basis)), R(Scale)), HeatParallel(h, Tail(items), k, mm, basis))
HeatByDefinition(h, set, k, mm) == IF set.kind = "parallel" THEN HeatParallel(h, set.items, k, mm, set.basis) ELSE HeatSeries(h, set.items, k, mm, set.basis)
\* the definition's assumptions
InDefinitionPhase(it, k) == \A i \in Participants(it) : PhaseIn(it, k, i) = (IF Tagged(it) THEN it.tag[i] ELSE Chem[i].ref)
DefinitionApplies(s) == s.d3 = 0 /\ \A j \in DOMAIN s.rs.items : InDefinitionPhase(s.rs.items[j], s.kind)

\* the temperature after an adiabatic reaction with heat input Q (kJ/hr): Scale (T' - T_ref) as a rational
AdiabaticD3(s, mm, Q) == RDiv(RSub(RAdd(Hnet3(s), R(Q * Scale)), HForm3(s.hf, mm)), CFlow(mm))

---------------------------------------------------------------------------
WellFormed(s) == /\ PhasesOf(s.kind) # {}
                 /\ \A ph \in Phs \ PhasesOf(s.kind), i \in Chems : RIsZero(s.m[ph][i])
                 /\ NonNegT(s.m)
ItemOK(it) == /\ Len(it.nu) = NC /\ it.r \in Chems /\ it.nu[it.r] = <<-1, 1>>
              /\ (Tagged(it) => Len(it.tag) = NC /\ \A i \in Chems : IF RIsZero(it.nu[i]) THEN it.tag[i] = "-" ELSE it.tag[i] \in Phs)
              /\ ~RLt(it.X, Zero) /\ ~RLt(One, it.X)
SetOK(set) == /\ set.kind \in {"single", "parallel", "series", "system"}      \* a reaction system applies its members in series /\ set.basis \in {"mol", "wt"} /\ set.items # <<>>
              /\ (set.kind = "single" => Len(set.items) = 1)
              /\ \A j \in DOMAIN set.items : ItemOK(set.items[j])
              /\ (AllTagged(set) \/ NoneTagged(set))
              /\ (AllTagged(set) => \A j \in DOMAIN set.items : TagPhases(set.items[j]) = SetPhases(set))
Pre(s, op, a) ==
  CASE op = "set_feed" -> WellFormed([kind |-> a.kind, m |-> a.m])
    [] op = "load" -> SetOK(a.set)
    [] op = "dH" -> s.rs.kind # None /\ a.j \in DOMAIN s.rs.items
    \* the user assigns a chemical's heat of formation and refreshes the compiled constants
    [] op = "set_Hf" -> a.i \in Chems
    \* the conversion of one member is assigned (through the member or through the set): later heats of reaction use it
    [] op = "set_X" -> s.rs.kind # None /\ a.j \in DOMAIN s.rs.items /\ ~RLt(a.X, Zero) /\ ~RLt(One, a.X)
    \* a conversion that would make a flow negative (in the phase the reaction names) must be refused (C05): judged below
    [] op = "react" -> /\ s.rs.kind # None /\ Fits(s.rs, s.kind)
    [] op = "adiabatic" -> /\ s.rs.kind # None /\ Fits(s.rs, s.kind) /\ NonNegT(ApplySet(s.rs, s.kind, s.m))
                           /\ RLt(Zero, CFlow(ApplySet(s.rs, s.kind, s.m)))
    [] OTHER -> FALSE

Round(q) == (q[1] + q[2] \div 2) \div q[2]       \* nearest integer (q[2] > 0)
Post(s, op, a) ==
  CASE op = "set_feed" -> [s EXCEPT !.kind = a.kind, !.m = a.m, !.d3 = a.d3]
    [] op = "load" -> [s EXCEPT !.rs = a.set]
    [] op = "dH" -> s
    [] op = "set_Hf" -> [s EXCEPT !.hf[a.i] = a.v]
    [] op = "set_X" -> [s EXCEPT !.rs.items[a.j].X = a.X]
    [] op = "react" -> [s EXCEPT !.m = ApplySet(s.rs, s.kind, s.m)]
    [] op = "adiabatic" -> LET mm == ApplySet(s.rs, s.kind, s.m) IN [s EXCEPT !.m = mm, !.d3 = Round(AdiabaticD3(s, mm, a.Q))]

\* |o - q| <= tol for an integer o and a rational q
NearQ(o, q, tol) == Abs(o * q[2] - q[1]) <= tol * q[2]
Ceil(q) == -((-q[1]) \div q[2])
\* e.obs: Hnet0, Hnet1 (1/Scale kJ/hr, read from the real stream before / after), dH (list, 1/Scale J per mol or g), T_same
Judge(s, e) ==
  LET a == e.a
      u == e.post
      exp == Post(s, e.op, a) IN
  IF e.obs.exc # None /\ ~(e.op = "react" /\ ~NonNegT(ApplySet(s.rs, s.kind, s.m))) THEN "exception"
  ELSE IF e.op \in {"set_feed", "load", "set_Hf", "set_X"} THEN (IF u # exp THEN "frame" ELSE "ok")
  ELSE IF e.op = "dH" THEN
       IF u # s THEN "frame"
       ELSE IF ~NearQ(e.obs.dH, RMul(DH(s.hf, s.rs.items[a.j], s.rs.basis), R(Scale)), 1) THEN "dH.value" ELSE "ok"
  ELSE IF e.op = "react" /\ ~NonNegT(ApplySet(s.rs, s.kind, s.m)) THEN
       \* C05: whenever the call returns normally no chemical has a negative flow - this conversion must raise
       (IF e.obs.exc = None THEN "negative_flow_not_rejected" ELSE "ok")
  ELSE \* react / adiabatic
       LET tolv == 2 + Ceil(CFlow(exp.m)) IN       \* the logged temperature is rounded to 1/Scale K
       IF u.m # exp.m THEN "react.material"
       ELSE IF u.kind # s.kind \/ u.rs # s.rs THEN "frame"
       \* the enthalpy the real stream reports is the model's (formation, latent, sensible) at every step
       ELSE IF ~NearQ(e.obs.Hnet0, Hnet3(s), 2 + Ceil(CFlow(s.m))) THEN "hnet.before"
       ELSE IF e.op = "react" THEN
            IF u.d3 # s.d3 THEN "isothermal.temperature_moved"
            ELSE IF ~NearQ(e.obs.Hnet1, Hnet3(u), tolv) THEN "hnet.after"
            ELSE IF DefinitionApplies(s) /\ ~NearQ(e.obs.Hnet1 - e.obs.Hnet0, HeatByDefinition(s.hf, s.rs, s.kind, s.m), 2) THEN "isothermal.heat_of_reaction"
            ELSE "ok"
       ELSE IF Abs(e.obs.Hnet1 - (e.obs.Hnet0 + a.Q * Scale)) > 2 + Ceil(CFlow(exp.m)) \div 100 THEN "adiabatic.balance"
            ELSE IF ~NearQ(u.d3, AdiabaticD3(s, exp.m, a.Q), 2) THEN "adiabatic.temperature"
            \* the same material and heat input scaled by 2^-30 ends at the same temperature (1e-6 K units; 1e-3 K allowed)
            ELSE IF e.obs.scaled_dT > 1000 THEN "adiabatic.not_scale_invariant"
            ELSE "ok"
Legal(s) == WellFormed(s) /\ (s.rs.kind = None \/ SetOK(s.rs))
ObsLegal(e) == TRUE
Suspended(e) == FALSE
InitFrom(r) == kind = r.kind /\ m = r.m /\ d3 = r.d3 /\ rs = r.rs /\ hf = r.hf /\ added = Zero /\ path = <<>>

---------------------------------------------------------------------------
(* model *)
\* canonical form: chemicals that do not take part carry the tag "-"
Item(i, r, X, tag) == LET v == Lib[i] IN
  [nu |-> [c \in Chems |-> RDiv(v[c], RNeg(v[r]))], r |-> r, X |-> X,
   tag |-> IF tag = <<>> THEN <<>> ELSE [c \in Chems |-> IF RIsZero(v[c]) THEN "-" ELSE tag[c]]]
Hf0 == [i \in Chems |-> Chem[i].Hf]
Init == \E f \in ModelFeeds : kind = f.kind /\ m = f.m /\ d3 = 0 /\ rs = NoSet /\ hf = Hf0
                              /\ added = Hnet3([kind |-> f.kind, m |-> f.m, d3 |-> 0, hf |-> Hf0]) /\ path = <<>>
\* the reaction heat at the stream's own temperature and phases (general form of the ledger)
RECURSIVE HeatAtSeries(_, _, _, _)
HeatAt1(it, k, mm, dd) == SumOver(LAMBDA i : RMul(RMul(RMul(mm[PhaseIn(it, k, it.r)][it.r], it.X), it.nu[i]), R(HMol3(hf, i, PhaseIn(it, k, i), dd))), Participants(it))
HeatAtSeries(items, k, mm, dd) == IF items = <<>> THEN Zero ELSE RAdd(HeatAt1(Head(items), k, mm, dd), HeatAtSeries(Tail(items), k, Apply1(Head(items), k, mm), dd))
RECURSIVE HeatAtParallel(_, _, _, _)
HeatAtParallel(items, k, mm, dd) == IF items = <<>> THEN Zero ELSE RAdd(HeatAt1(Head(items), k, mm, dd), HeatAtParallel(Tail(items), k, mm, dd))
HeatAt(s) == IF s.rs.kind = "parallel" THEN HeatAtParallel(s.rs.items, s.kind, s.m, s.d3) ELSE HeatAtSeries(s.rs.items, s.kind, s.m, s.d3)

Act(op, a) == /\ (Pre(S, op, a) = TRUE) /\ SetS(Post(S, op, a))
              /\ added' = (CASE op = "react" -> RAdd(added, HeatAt(S))
                             [] op = "adiabatic" -> Hnet3(Post(S, op, a))      \* re-based: the temperature is rounded (see AdiabaticBalance)
                             [] op \in {"set_feed", "set_Hf"} -> Hnet3(Post(S, op, a))
                             [] OTHER -> added)
              /\ path' = Append(path, [op |-> op, a |-> a])
Load == "load" \in Ops /\ rs.kind = None /\ \E k \in {"single", "parallel", "series", "system"}, b \in {"mol", "wt"}, tg \in Tags, i1 \in DOMAIN Lib, i2 \in DOMAIN Lib,
                             r1 \in Chems, r2 \in Chems, x1 \in XVals, x2 \in XVals :
          /\ RLt(Lib[i1][r1], Zero) /\ RLt(Lib[i2][r2], Zero)
          /\ (k = "single" => i2 = i1 /\ r2 = r1 /\ x2 = x1)
          /\ Act("load", [set |-> [kind |-> k, basis |-> b,
                                  items |-> IF k = "single" THEN <<Item(i1, r1, x1, tg)>> ELSE <<Item(i1, r1, x1, tg), Item(i2, r2, x2, tg)>>]])
React == "react" \in Ops /\ rs.kind # None /\ NonNegT(ApplySet(rs, kind, m)) /\ Act("react", [x |-> 0])
Adiabatic == "adiabatic" \in Ops /\ \E q \in QVals : Act("adiabatic", [Q |-> q])
SetHf == "set_Hf" \in Ops /\ \E i \in HfChems, v \in HfVals : Act("set_Hf", [i |-> i, v |-> v])
Warm == "warm" \in Ops /\ \E dd \in DVals : Act("set_feed", [kind |-> kind, m |-> m, d3 |-> dd])
SetX == "set_X" \in Ops /\ rs.kind # None /\ \E j \in DOMAIN rs.items, x \in XVals : Act("set_X", [j |-> j, X |-> x])
Next == Load \/ React \/ Adiabatic \/ Warm \/ SetHf \/ SetX
vars == <<kind, m, d3, rs, hf, added, path>>
Spec == Init /\ [][Next]_vars

\* the enthalpy ledger: isothermal reactions move Hnet by the reaction heat at the stream's own temperature and phases
LedgerOK == Hnet3(S) = added
\* the property's first-law statement for the DEFINED heat of reaction: under the definition's assumptions an isothermal
\* reaction moves Hnet by exactly dH x reactant fed (item by item for sets, by mol or by weight)
HeatOfReaction == [][Len(path') > Len(path) /\ path'[Len(path')].op = "react" /\ DefinitionApplies(S)
                      => RSub(Hnet3(S'), Hnet3(S)) = HeatByDefinition(hf, rs, kind, m)]_vars
\* an adiabatic reaction with heat input Q closes the balance up to the rounding of the temperature
AdiabaticBalance == [][Len(path') > Len(path) /\ path'[Len(path')].op = "adiabatic"
                        => RLeq(RAbs(RSub(Hnet3(S'), RAdd(Hnet3(S), R(path'[Len(path')].a.Q * Scale)))), CFlow(m'))]_vars
\* the weight-basis heat of reaction is the molar one per unit mass of reactant
BasisConsistent == rs.kind # None => \A j \in DOMAIN rs.items :
                     RMul(DH(hf, rs.items[j], "wt"), R(Chem[rs.items[j].r].MW)) = DH(hf, rs.items[j], "mol")
=============================================================================
