------------------------------ MODULE PhaseEq ------------------------------
(***************************************************************************)
(* Phase-equilibrium calls as material-moving operations (C03;             *)
(* thermosteam/equilibrium/vle.py, lle.py, sle.py, Stream.vlle).           *)
(*                                                                         *)
(* The state is the phase x chemical table of a stream in integer quanta   *)
(* (one quantum = 1e-8 of the chemical's total in recorded executions).    *)
(* What the solvers compute is not modelled: an equilibrium call is a      *)
(* NONDETERMINISTIC action that may produce ANY table the contract allows: *)
(*   - per chemical, the sum over phases is what it was;                   *)
(*   - no entry is negative;                                               *)
(*   (in the model the candidates differ from the current table only in    *)
(*   the phases the calculation works on - vle: g, l; lle: l, L; sle: l,   *)
(*   s; vlle: g, l, L; recorded executions are not held to that: a single- *)
(*   phase stream is re-labelled before the calculation);                  *)
(*   - after vle / vlle a gas-only chemical has nothing in l and a         *)
(*     liquid- or solid-only chemical has nothing in g.                    *)
(* The model checker runs all interleavings of such calls on small tables  *)
(* (ledger invariant, locked-chemical rule as action property); recorded   *)
(* executions of the real solvers are accepted iff every step is one the   *)
(* contract allows.                                                        *)
(***************************************************************************)
EXTENDS Integers, Sequences, FiniteSets, TLC

CONSTANTS NC,      \* number of chemicals
          Cls,     \* <<"vol" | "gas" | "liq" | "sol", ...>>  volatile / gas-only / liquid-only / solid-only
          MaxQ,    \* model: largest entry
          Tol,     \* allowed deviation of a per-chemical total in quanta (rounding of the log: 0 in the model)
          Ops
VARIABLES tab, path
S == [tab |-> tab]
SetS(t) == tab' = t.tab
view == <<tab>>
None == "none"
Phs == {"g", "l", "L", "s"}
Chems == 1..NC

Total(t, i) == t["g"][i] + t["l"][i] + t["L"][i] + t["s"][i]
Abs(x) == IF x < 0 THEN -x ELSE x
Works(op) == CASE op = "vle" -> {"g", "l"} [] op = "lle" -> {"l", "L"} [] op = "sle" -> {"l", "s"} [] op = "vlle" -> {"g", "l", "L"} [] OTHER -> {}

\* first contract clause that table u (after) violates with respect to table t (before); "ok" if none
Verdict(op, a, t, u) ==
  IF \E ph \in Phs, i \in Chems : u[ph][i] < 0 THEN "material.negative_flow"
  ELSE IF \E i \in Chems : Abs(Total(u, i) - Total(t, i)) > Tol THEN "material.not_conserved"
  ELSE IF op \in {"vle", "vlle"} /\ \E i \in Chems : Cls[i] = "gas" /\ (u["l"][i] > 0 \/ (op = "vlle" /\ u["L"][i] > 0)) THEN "locked.gas_only_in_liquid"
  ELSE IF op \in {"vle", "vlle"} /\ \E i \in Chems : Cls[i] \in {"liq", "sol"} /\ u["g"][i] > 0 THEN "locked.condensed_only_in_gas"
  ELSE "ok"

\* the property speaks of material distributed over the phases: a table that already holds a negative flow (left by a
\* call that was itself rejected) is no starting point
InputOK(s) == \A ph \in Phs, i \in Chems : s.tab[ph][i] >= 0
Pre(s, op, a) ==
  CASE op \in {"vle", "lle", "vlle"} -> InputOK(s)
    [] op = "sle" -> a.solute \in Chems /\ InputOK(s)
    [] op = "shuffle" -> TRUE            \* state shaping in recorded executions: the table is replaced
    [] OTHER -> FALSE
\* e.obs.exc: the call raised (not judged: the property speaks of calls that return normally)
Judge(s, e) ==
  IF e.op = "shuffle" THEN "ok"
  ELSE IF e.obs.exc # None THEN "ok"
  ELSE Verdict(e.op, e.a, s.tab, e.post.tab)
Legal(s) == TRUE
ObsLegal(e) == TRUE
Suspended(e) == e.op # "shuffle" /\ e.obs.exc # None
InitFrom(r) == tab = r.tab /\ path = <<>>

---------------------------------------------------------------------------
(* model: every table the contract allows is a possible outcome *)
Rows == [Chems -> 0..MaxQ]
Tables == [Phs -> Rows]
Init == tab \in Tables /\ path = <<>>
\* (candidates differ from the current table only in the phases the calculation works on; the contract is checked on all of it)
Equilibrate(op, a) == \E w \in [Works(op) -> Rows] :
                        LET u == [ph \in Phs |-> IF ph \in Works(op) THEN w[ph] ELSE tab[ph]] IN
                        Verdict(op, a, tab, u) = "ok" /\ tab' = u /\ path' = Append(path, [op |-> op, a |-> a])
VLE == "vle" \in Ops /\ Equilibrate("vle", [x |-> 0])
LLE == "lle" \in Ops /\ Equilibrate("lle", [x |-> 0])
SLE == "sle" \in Ops /\ \E i \in Chems : Equilibrate("sle", [solute |-> i])
VLLE == "vlle" \in Ops /\ Equilibrate("vlle", [x |-> 0])
Next == VLE \/ LLE \/ SLE \/ VLLE
vars == <<tab, path>>
Spec == Init /\ [][Next]_vars

\* C03 on the model: whatever sequence of equilibrium calls is made, every chemical's total is what it was at the start
Ledger == [][\A i \in Chems : Total(tab', i) = Total(tab, i)]_vars
NonNeg == \A ph \in Phs, i \in Chems : tab[ph][i] >= 0
\* a later call on other phases cannot undo the locked-chemical placement of a vapour-liquid calculation ...
LockedKept == [][(Len(path) > 0 /\ path[Len(path)].op \in {"vle", "vlle"} /\ Len(path') > Len(path) /\ path'[Len(path')].op \in {"lle", "sle"})
                   => \A i \in Chems : Cls[i] \in {"liq", "sol"} => tab'["g"][i] = 0]_vars
=============================================================================
