-------------------------------- MODULE Flash --------------------------------
(***************************************************************************)
(* Vapour-liquid flash (C04; thermosteam/equilibrium/vle.py,               *)
(* binary_phase_fraction.py).                                              *)
(*                                                                         *)
(* Exact sub-world (ideal package, Psat_i = A[i] T in kPa, module          *)
(* BubbleDew): K_i = A[i] T / P is rational.  A two-phase result is        *)
(* characterised by Rachford-Rice: with liquid composition x, vapour       *)
(* fraction V and feed z                                                   *)
(*     sum x = 1,   sum K x = 1,   z_i = x_i (1 + V (K_i - 1)),  0 < V < 1 *)
(* and this solution is unique.  The driver proposes (x, V) for a feed; TLC *)
(* VERIFIES the proposal exactly in rationals (IsSolution) and then the    *)
(* real flash must return it: fraction of every chemical vaporised         *)
(* = V K_i / (1 + V (K_i - 1)).  Outside the two-phase region (P at or     *)
(* above the bubble pressure / at or below the dew pressure, computed from *)
(* the BubbleDew definitions) the result is all liquid / all vapour.       *)
(* With V specified instead of P (or T), the same proposal fixes the       *)
(* pressure (temperature) the flash must find.  The model checker checks   *)
(* on a grid that such solutions exist exactly between dew and bubble      *)
(* pressure and scale with the feed.                                       *)
(* Real packages: the driver measures every clause of C04 (specified       *)
(* T / P / H / S / V honoured, phase boundaries, iso-fugacity, scaling)    *)
(* and TLC judges the logged integers.                                     *)
(***************************************************************************)
EXTENDS IdealVLE

CONSTANTS WVals, CVals, VVals, Ops,   \* model: feed weights, ratios T / P (K per kPa, rationals), vapour fractions
          TolT, TolP, TolC
VARIABLES w, c, path
S == [w |-> w, c |-> c]
SetS(t) == w' = t.w /\ c' = t.c
view == <<w, c>>
None == "none"
K(cc, i) == RMul(R(A[i]), cc)
\* (x, V) solves Rachford-Rice for feed weights v at ratio cc:  x a sequence of rationals
IsSolution(v, cc, x, V) ==
  /\ RLt(Zero, V) /\ RLt(V, One)
  /\ SumF(LAMBDA i : x[i], NC) = One
  /\ SumF(LAMBDA i : RMul(K(cc, i), x[i]), NC) = One
  /\ \A i \in Chems : ~RLt(x[i], Zero)
  /\ \A i \in Chems : RMul(R(v[i]), One) = RMul(W(v), RMul(x[i], RAdd(One, RMul(V, RSub(K(cc, i), One)))))
\* fraction of chemical i that leaves as vapour
VapFrac(cc, V, i) == RDiv(RMul(V, K(cc, i)), RAdd(One, RMul(V, RSub(K(cc, i), One))))
\* position of the ratio T/P = cc with respect to the two-phase region of feed v:  P >= P_bubble  <=>  1/cc >= sum(w A)/W
AllLiquid(v, cc) == RLeq(RMul(SWA(v), cc), W(v))          \* sum K z <= 1
AllVapour(v, cc) == RLeq(SWoA(v), RMul(W(v), cc))          \* sum z / K <= 1

---------------------------------------------------------------------------
(* recorded executions *)
Pre(s, op, a) ==
  CASE op = "tp_exact" -> Present(a.w) # {} /\ (a.region = "two" => IsSolution(a.w, <<a.T, a.P>>, a.x, a.V))
                          /\ (a.region = "liquid" => AllLiquid(a.w, <<a.T, a.P>>)) /\ (a.region = "vapour" => AllVapour(a.w, <<a.T, a.P>>))
    [] op \in {"tv_exact", "pv_exact"} -> Present(a.w) # {} /\ IsSolution(a.w, <<a.T, a.P>>, a.x, a.V)
    [] op = "measured" -> TRUE
    [] OTHER -> FALSE
\* obs.vf9[i]: fraction of chemical i found in the vapour (1e-9);  obs.T6 / obs.P6: temperature (1e-6 K) / pressure (1e-6 kPa)
Post(s, op, a) == s
Judge(s, e) ==
  LET a == e.a
      o == e.obs
      cc == <<a.T, a.P>> IN
  IF o.exc # None THEN "exception"
  ELSE IF e.op = "measured" THEN
       IF ~o.tp_equal THEN "spec.temperature_or_pressure_not_the_specified_one"
       \* (temperature with enthalpy / entropy: the pressure is found to 1 Pa without a final correction of the split: a.hstol)
       ELSE IF o.hs_dev > a.hstol THEN "spec.enthalpy_or_entropy_not_reproduced"
       ELSE IF ~o.v_bracketed THEN "spec.vapour_fraction_not_at_the_equilibrium_point"
       ELSE IF ~o.boundary_ok THEN "boundary.phase_region"
       ELSE IF o.fug_dev > a.ftol THEN "equilibrium.fugacities_differ"
       \* ideal package: vapour fraction against an independent Raoult's-law Rachford-Rice solution (1e-9 units; 1e-7 allowed)
       ELSE IF o.rr_dev > 100 THEN "ideal.split_differs_from_rachford_rice"
       \* (T-P, T-V, P-V: the scaled feed follows the same iteration on the same normalised composition; with an enthalpy / entropy
       \* specification the iteration path differs in the last bits and the results agree to the solver's convergence tolerance: a.stol)
       ELSE IF o.scale_dev > a.stol THEN "scaling.products_not_proportional"
       \* the same stream object refilled with other material and flashed again answers like a new stream holding that material
       ELSE IF o.hist_dev > a.htol THEN "history.differs_from_new_stream"
       ELSE "ok"
  ELSE IF e.op = "tp_exact" THEN
       IF o.T6 # a.T * 1000000 \/ Abs(o.P6 - a.P * 1000000) > 1 THEN "exact.temperature_or_pressure_not_the_specified_one"
       ELSE IF a.region = "liquid" THEN (IF \E i \in Present(a.w) : o.vf9[i] # 0 THEN "exact.vapour_above_bubble_pressure" ELSE "ok")
       ELSE IF a.region = "vapour" THEN (IF \E i \in Present(a.w) : o.vf9[i] # 1000000000 THEN "exact.liquid_below_dew_pressure" ELSE "ok")
       ELSE IF \E i \in Present(a.w) : ~Near(o.vf9[i], VapFrac(cc, a.V, i), 3, TolC) THEN "exact.split_differs_from_rachford_rice"
       ELSE "ok"
  ELSE \* V specified together with T (tv) or P (pv): the other one is what the proposal says
       IF \E i \in Present(a.w) : ~Near(o.vf9[i], VapFrac(cc, a.V, i), 3, TolC * 20) THEN "exact.split_differs_from_rachford_rice"
       ELSE IF e.op = "tv_exact" /\ Abs(o.P6 - a.P * 1000000) > TolP THEN "exact.pressure_at_vapour_fraction"
       ELSE IF e.op = "pv_exact" /\ Abs(o.T6 - a.T * 1000000) > TolT THEN "exact.temperature_at_vapour_fraction"
       ELSE "ok"
Legal(s) == TRUE
ObsLegal(e) == TRUE
\* a specification the library refuses (composition outside the two-phase region, temperature with an enthalpy it cannot solve the
\* pressure for) is no call that returns normally: not judged
Suspended(e) == e.op = "measured" /\ e.obs.exc \in {"InfeasibleRegion", "NotImplementedError", "OutOfQuantifier"}
InitFrom(r) == w = r.w /\ c = r.c /\ path = <<>>

---------------------------------------------------------------------------
(* model: for every feed of the grid and ratio T / P, exactly one of: all liquid, all vapour, or a Rachford-Rice solution
   built from a vapour fraction of the grid exists - and the classification does not change when the feed is scaled *)
Init == w \in [Chems -> WVals] /\ Present(w) # {} /\ c \in CVals /\ path = <<>>
Next == UNCHANGED <<w, c, path>>
vars == <<w, c, path>>
Spec == Init /\ [][Next]_vars
\* the liquid composition a vapour fraction V implies for feed w:  x_i = z_i / (1 + V (K_i - 1))
XOf(v, cc, V) == [i \in Chems |-> RDiv(RDiv(R(v[i]), W(v)), RAdd(One, RMul(V, RSub(K(cc, i), One))))]
RRValue(v, cc, V) == SumF(LAMBDA i : RMul(RSub(K(cc, i), One), XOf(v, cc, V)[i]), NC)      \* Rachford-Rice function
Regions == \/ AllLiquid(w, c) /\ ~RLt(Zero, RRValue(w, c, Zero))
           \/ AllVapour(w, c) /\ ~RLt(RRValue(w, c, One), Zero)
           \/ ~AllLiquid(w, c) /\ ~AllVapour(w, c) /\ RLt(Zero, RRValue(w, c, Zero)) /\ RLt(RRValue(w, c, One), Zero)
\* wherever the Rachford-Rice function vanishes at a grid fraction, the implied (x, V) is a solution in the sense used above
SolutionsAreRoots == \A V \in VVals : (RRValue(w, c, V) = Zero) <=> IsSolution(w, c, XOf(w, c, V), V)
ScaleFree == \A k \in {3} : LET v == [i \in Chems |-> k * w[i]] IN
               (AllLiquid(v, c) <=> AllLiquid(w, c)) /\ (AllVapour(v, c) <=> AllVapour(w, c)) /\ \A V \in VVals : RRValue(v, c, V) = RRValue(w, c, V)
=============================================================================
