"""Run TLC (model checking, dump, simulation, trace validation) and parse its output."""
import json
import os
import re
import shutil
import subprocess
import tempfile
import time
from concurrent.futures import ThreadPoolExecutor

from . import tlaparse

VERIF = os.path.dirname(os.path.dirname(os.path.abspath(__file__)))
SPEC = os.path.join(VERIF, 'spec')
JAR = '/opt/veriftools/tla/tla2tools.jar'
CM = '/opt/veriftools/tla/CommunityModules-deps.jar'


class MachineryError(Exception):
    """TLC crashed / spec does not parse / output not understood (exit 2, never a VIOLATION)."""


class Workdir:
    """Scratch directory under /tmp holding a copy of spec/ (removed on exit)."""

    def __init__(self, keep=False):
        self.keep = keep

    def __enter__(self):
        self.path = tempfile.mkdtemp(prefix='verif-')
        for f in os.listdir(SPEC):
            if f.endswith(('.tla', '.cfg')):
                shutil.copy(os.path.join(SPEC, f), self.path)
        return self

    def __exit__(self, *exc):
        if not self.keep:
            shutil.rmtree(self.path, ignore_errors=True)

    def write(self, name, text):
        with open(os.path.join(self.path, name), 'w') as f:
            f.write(text)
        return os.path.join(self.path, name)


class Result:
    def __init__(self, out, rc, wall):
        self.out = out
        self.rc = rc
        self.wall = wall
        m = re.search(r'(\d[\d,]*) states generated, (\d[\d,]*) distinct states found', out)
        self.generated = int(m.group(1).replace(',', '')) if m else 0
        self.distinct = int(m.group(2).replace(',', '')) if m else 0
        m = re.search(r'depth of the complete state graph search is (\d+)', out)
        self.depth = int(m.group(1)) if m else 0
        self.violated = None
        m = re.search(r'Error: Invariant (\S+) is violated', out)
        if m:
            self.violated = m.group(1)
        m = re.search(r'Error: Action property (\S+) is violated', out)
        if m:
            self.violated = m.group(1)
        if 'Temporal properties were violated' in out:
            self.violated = self.violated or 'temporal'
        self.actions = {}
        for m in re.finditer(r'^<(\w+) line \d+, col \d+ to line \d+, col \d+ of module \w+>: (\d+):(\d+)', out, re.M):
            name = m.group(1)
            d, g = int(m.group(2)), int(m.group(3))
            od, og = self.actions.get(name, (0, 0))
            self.actions[name] = (max(od, d), max(og, g))

    @property
    def ok(self):
        return self.violated is None and ('Model checking completed. No error has been found' in self.out
                                          or 'Finished in' in self.out) and 'Error:' not in self.out

    def counterexample(self):
        i = self.out.find('Error:')
        return self.out[i:i + 20000] if i >= 0 else ''

    def error_trace_states(self):
        """States of the counterexample as dicts."""
        states = []
        for m in re.finditer(r'State \d+: <[^\n]*>\n(.*?)(?=\n\nState \d+:|\n\n\d+ states generated|\nError:|\Z)', self.out, re.S):
            try:
                states.append(tlaparse.parse_state(m.group(1)))
            except Exception:
                pass
        return states


def run_tlc(wd, module, cfg, workers=16, args=(), timeout=3600, env=None, java_opts=()):
    meta = tempfile.mkdtemp(prefix='meta-', dir=wd)
    cmd = ['java', '-XX:+UseParallelGC', '-Xss16m', '-Djava.io.tmpdir=' + meta] + list(java_opts) + ['-cp', JAR + ':' + CM, 'tlc2.TLC',
           '-workers', str(workers), '-metadir', meta, '-noGenerateSpecTE',
           '-config', cfg] + list(args) + [module]
    e = dict(os.environ)
    if env:
        e.update(env)
    t0 = time.time()
    try:
        p = subprocess.run(cmd, cwd=wd, env=e, stdout=subprocess.PIPE, stderr=subprocess.STDOUT,
                           timeout=timeout, text=True)
    except subprocess.TimeoutExpired as ex:
        raise MachineryError('TLC timeout after %ss: %s %s' % (timeout, module, cfg)) from ex
    finally:
        shutil.rmtree(meta, ignore_errors=True)
    r = Result(p.stdout, p.returncode, time.time() - t0)
    if ('Parsing or semantic analysis failed' in r.out or 'TLC threw an unexpected exception' in r.out
            or 'Error: TLC' in r.out and r.violated is None and 'evaluat' in r.out):
        raise MachineryError('TLC failed on %s/%s:\n%s' % (module, cfg, r.out[-4000:]))
    return r


def model_check(module, cfg, workers=16, coverage=True, timeout=3600, dump=False, args=(), files=None):
    """Exhaustive model checking.  Returns (Result, dumped states or None).
    files: extra generated files {name: text} (e.g. an MC module whose constants come from a driver universe)."""
    with Workdir() as w:
        for name, text in (files or {}).items():
            w.write(name, text)
        a = list(args)
        if coverage:
            a += ['-coverage', '1']
        if dump:
            a += ['-dump', os.path.join(w.path, 'states.dump')]
        r = run_tlc(w.path, module, cfg, workers=workers, args=a, timeout=timeout)
        states = None
        if dump:
            states = list(tlaparse.parse_dump(os.path.join(w.path, 'states.dump')))
        return r, states


def simulate_paths(module, cfg, num, depth, seed, timeout=1800, procs=8):
    """tlc -simulate; the MC module prints  <<"PATH", ToJson(path)>>  for each finished behaviour.

    Runs `procs` single-worker TLC processes with different seeds (deterministic per seed)."""
    per = max(1, (num + procs - 1) // procs)

    def one(k):
        with Workdir() as w:
            r = run_tlc(w.path, module, cfg, workers=1,
                        args=['-simulate', 'num=%d' % per, '-depth', str(depth), '-seed', str(seed * 1000 + k)],
                        timeout=timeout)
            if r.violated:
                return r, []
            paths = []
            for m in re.finditer(r'<<"PATH", "(.*)">>', r.out):
                s = m.group(1).encode().decode('unicode_escape')
                paths.append(json.loads(s))
            return r, paths
    out = []
    res = []
    with ThreadPoolExecutor(max_workers=procs) as ex:
        for r, paths in ex.map(one, range(procs)):
            res.append(r)
            out.extend(paths)
    return res, out[:num]


TRACE_TEMPLATE = r'''---- MODULE @TRACE@ ----
(* generated: validates executions recorded from the implementation against @MOD@ *)
EXTENDS @MOD@, Json, IOUtils, TLCExt
@CONSTDEFS@
Traces == JsonDeserialize("@FILE@")
VARIABLES tid, l, verdict
tvars == <<tid, l, verdict>>

TInit == /\ tid \in 1..Len(Traces) /\ l = 1 /\ verdict = "run"
         /\ InitFrom(Traces[tid].init)

Report(code, clause) == PrintT(<<"VERDICT", Traces[tid].id, l, code, clause>>)

TNext ==
  /\ verdict = "run"
  /\ LET steps == Traces[tid].steps IN
     IF l > Len(steps)
     THEN /\ verdict' = "accepted" /\ Report("accepted", "") /\ UNCHANGED <<tid, l>> /\ UNCHANGED vars
     ELSE LET e == steps[l] IN
          IF Traces[tid].mode = "fan"
          THEN \* every step is judged from the same initial state
               /\ IF Suspended(e) \/ ~(Pre(S, e.op, e.a) = TRUE) THEN Report("stepooc", "pre")
                  ELSE LET j == Judge(S, e) IN IF j = "ok" THEN TRUE ELSE Report("stepfail", j)
               /\ l' = l + 1 /\ UNCHANGED <<tid, verdict>> /\ UNCHANGED vars
          ELSE IF Suspended(e) \/ ~(Pre(S, e.op, e.a) = TRUE)
          THEN \* out of contract (or taken from a state the model cannot express): not judged; resynchronise on the logged state when that is a legal state
               IF Legal(e.post) /\ ObsLegal(e)
               THEN /\ Report("stepooc", "pre") /\ SetS(e.post) /\ UNCHANGED path /\ l' = l + 1 /\ UNCHANGED <<tid, verdict>>
               ELSE /\ verdict' = "ooc" /\ Report("ooc", "pre") /\ UNCHANGED <<tid, l>> /\ UNCHANGED vars
          ELSE LET j == Judge(S, e) IN
               IF j = "ok"
               THEN /\ SetS(e.post) /\ UNCHANGED path /\ l' = l + 1 /\ UNCHANGED <<tid, verdict>>
               ELSE /\ verdict' = "rejected" /\ Report("rejected", j) /\ UNCHANGED <<tid, l>> /\ UNCHANGED vars
TSpec == TInit /\ [][TNext]_<<vars, tvars>>
====
'''


def validate_traces(mod, constdefs, cfg_constants, traces, procs=16, timeout=3600, chunk=None):
    """Validate recorded executions against spec module `mod`.

    traces: list of {"id": str, "init": state, "steps": [{"op","a","post","obs"}...]}
    constdefs: TLA+ text defining operators used by cfg_constants (literal constants)
    cfg_constants: list of cfg lines, e.g. ['Units <- t_Units', 'MaxLen = 50']
    Returns dict id -> dict(code, l, clause, stepfail, stepooc).   Raises MachineryError if any trace has no verdict.
    """
    if not traces:
        return {}
    ids = [t['id'] for t in traces]
    assert len(set(ids)) == len(ids), 'duplicate trace ids'
    if chunk is None:
        chunk = max(1, (len(traces) + procs - 1) // procs)
    chunks = [traces[i:i + chunk] for i in range(0, len(traces), chunk)]

    def one(k):
        part = chunks[k]
        with Workdir() as w:
            name = 'Trace_%s_%d' % (mod, k)
            f = os.path.join(w.path, 'traces_%d.json' % k)
            with open(f, 'w') as fh:
                json.dump(part, fh)
            spec_text = open(os.path.join(SPEC, mod + '.tla')).read()
            template = TRACE_TEMPLATE
            if 'AuxVars ==' in spec_text:       # modules with more history variables than `path`
                template = template.replace('UNCHANGED path', 'UNCHANGED AuxVars')
            text = (template.replace('@TRACE@', name).replace('@MOD@', mod)
                    .replace('@CONSTDEFS@', constdefs).replace('@FILE@', f))
            w.write(name + '.tla', text)
            cfg = 'SPECIFICATION TSpec\nCHECK_DEADLOCK FALSE\nCONSTANTS\n' + '\n'.join('  ' + c for c in cfg_constants) + '\n'
            w.write(name + '.cfg', cfg)
            try:
                r = run_tlc(w.path, name + '.tla', name + '.cfg', workers=1, timeout=timeout)
            except MachineryError:
                if os.environ.get('VERIF_DEBUG'):
                    shutil.copy(f, '/tmp/verif-failed-chunk.json')
                raise
            verdicts = {}
            for t_ in part:
                verdicts[t_['id']] = dict(code=None, l=0, clause='', stepfail=[], stepooc=[])
            for m in re.finditer(r'<<\s*"VERDICT",\s*"([^"]*)",\s*(\d+),\s*"(\w+)",\s*"([^"]*)"\s*>>', r.out):
                tid_, l_, code, clause = m.group(1), int(m.group(2)), m.group(3), m.group(4)
                if code == 'stepfail':
                    verdicts[tid_]['stepfail'].append((l_, clause))
                elif code == 'stepooc':
                    verdicts[tid_]['stepooc'].append(l_)
                elif tid_ in verdicts:
                    verdicts[tid_].update(code=code, l=l_, clause=clause)
                else:
                    verdicts[tid_] = dict(code=code, l=l_, clause=clause, stepfail=[], stepooc=[])
            missing = [t_['id'] for t_ in part if verdicts.get(t_['id'], {}).get('code') is None]
            if missing and os.environ.get('VERIF_DEBUG'):
                shutil.copy(f, '/tmp/verif-failed-chunk.json')
            if missing:
                errs = [ln for ln in r.out.splitlines() if ln.startswith('Error:')][:3]
                raise MachineryError('no verdict for traces %s\n%s\n%s' % (missing[:5], r.out[-6000:], '\n'.join(errs)))
            return verdicts
    out = {}
    with ThreadPoolExecutor(max_workers=procs) as ex:
        for v in ex.map(one, range(len(chunks))):
            out.update(v)
    return out
