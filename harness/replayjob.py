"""Executable replays: a violation found on a generated history stores the generator function and its arguments (every history has
its own seed); replaying re-runs the generator on the current tree and lets TLC judge the recorded execution again."""
from harness import tlc


def job(func, args, trace_id=None):
    return dict(kind='job', func=func.__name__, args=list(args), trace=trace_id)


def run(prop, data, funcs, module, consts, clause=None):
    rp = data.get('replay') or {}
    if rp.get('kind') != 'job' or rp.get('func') not in funcs:
        print('# nothing executable in this replay record')
        print(data.get('what', ''))
        return 1
    out = funcs[rp['func']](*rp['args'])
    traces = out if isinstance(out, list) else [out]
    traces = [t for t in traces if t]
    if rp.get('trace'):
        base = rp['trace'].rstrip('c')
        traces = [t for t in traces if t['id'] == base] or traces
    defs, cfgc = consts
    found = []
    todo = traces
    while todo:
        v = tlc.validate_traces(module, defs, cfgc, todo, procs=4)
        nxt = []
        for t in todo:
            x = v[t['id']]
            for l, c in x['stepfail']:
                found.append((t['id'], l, c, t['steps'][l - 1]))
            if x['code'] == 'rejected':
                s = t['steps'][x['l'] - 1]
                found.append((t['id'], x['l'], x['clause'], s))
                if t['steps'][x['l']:]:
                    nxt.append(dict(id=t['id'] + 'c', mode='seq', init=s['post'], steps=t['steps'][x['l']:]))
        todo = nxt
    want = clause or (rp.get('clause'))
    hit = [f for f in found if want is None or f[2] == want]
    for tid, l, c, s in found:
        print('# %s step %d: %s %r -> %s  obs=%r' % (tid, l, s['op'], s['a'], c, s.get('obs')))
    if hit:
        print('# re-executed %s%r' % (rp['func'], tuple(rp['args'])))
        print('VIOLATION property=%s replay=%s' % (prop, data.get('_path', '')))
        return 1
    print('# re-executed %s%r: no step rejected%s' % (rp['func'], tuple(rp['args']), ' with clause %s' % want if want else ''))
    return 0
