"""Driver binding spec/ReactEnergy.tla to thermosteam reactions on streams (C06).

Synthetic chemicals (Chemical.blank + add_method, the library's own _init_energies / functors / mixture) with integer heat of
formation, latent heats and one constant heat capacity in every phase, so that every enthalpy is an exact small number.
"""
import math
import warnings
from fractions import Fraction

import numpy as np

import thermosteam as tmo

MODULE = 'ReactEnergy'
NONE = 'none'
T_REF = 298.15
F = Fraction
IDS = ['A', 'B', 'C', 'D', 'E']
# A, B: gases; C: reference liquid; D: reference gas; E: reference solid
CHEM = [dict(Hf=0, MW=2, ref='g', Hvap=40, Hfus=10, c=3),
        dict(Hf=0, MW=32, ref='g', Hvap=30, Hfus=20, c=4),
        dict(Hf=-300, MW=18, ref='l', Hvap=44, Hfus=6, c=7),
        dict(Hf=-250, MW=18, ref='g', Hvap=50, Hfus=8, c=5),
        dict(Hf=-120, MW=36, ref='s', Hvap=60, Hfus=12, c=9)]
# mass-balanced stoichiometries: A + B/2 -> C ; C -> A + B/2 ; 2A + B -> 2D ; C -> D ; 2C -> E ; E -> 2D
LIB = [[F(-1), F(-1, 2), F(1), F(0), F(0)],
       [F(1), F(1, 2), F(-1), F(0), F(0)],
       [F(-2), F(-1), F(0), F(2), F(0)],
       [F(0), F(0), F(-1), F(1), F(0)],
       [F(0), F(0), F(-2), F(0), F(1)],
       [F(0), F(0), F(0), F(2), F(-1)]]
PHS = ['g', 'l', 's']
KINDS = ['g', 'l', 'gl', 'gs', 'ls', 'gls']
NOSET = dict(kind='none', basis='mol', items=[])
_th = {}


def make_chemical(ID, p):
    ch = tmo.Chemical.blank(ID, phase_ref=p['ref'], MW=float(p['MW']), Tm=200., Tb=350., Hfus=float(p['Hfus']), Sfus=p['Hfus'] / 200.,
                            Tc=2000., Pc=5e6, omega=0.3, S0=0., Hf=float(p['Hf']), free_energies=False)
    c = float(p['c'])
    for ph in 'slg':
        getattr(ch.Cn, ph).add_method(f=lambda T, c=c: c, f_int=lambda T1, T2, c=c: c * (T2 - T1),
                                      f_int_over_T=lambda T1, T2, c=c: c * math.log(T2 / T1), Tmin=1., Tmax=5000.)
    ch.Hvap.add_method(f=lambda T, H=float(p['Hvap']): H, Tmin=1., Tmax=5000.)
    ch.reset_free_energies()
    return ch


def thermo():
    if not _th:
        chems = tmo.Chemicals([make_chemical(i, p) for i, p in zip(IDS, CHEM)])
        chems.compile(skip_checks=True)
        _th['P'] = tmo.Thermo(chems, cache=False)
    return _th['P']


def fr(x):
    x = float(x)
    if x != x or x in (float('inf'), float('-inf')):
        return [0, 0]
    f = Fraction(x).limit_denominator(1 << 12)
    return [f.numerator, f.denominator]


def q(x):
    x = Fraction(x)
    return [x.numerator, x.denominator]


def tla_constants():
    def qq(x):
        return '<<%d, %d>>' % (x.numerator, x.denominator)
    defs = '\n'.join([
        't_Chem == <<%s>>' % ', '.join('[Hf |-> %d, MW |-> %d, ref |-> "%s", Hvap |-> %d, Hfus |-> %d, c |-> %d]'
                                       % (p['Hf'], p['MW'], p['ref'], p['Hvap'], p['Hfus'], p['c']) for p in CHEM),
        't_Lib == <<%s>>' % ', '.join('<<' + ', '.join(qq(x) for x in row) + '>>' for row in LIB),
        't_Empty == {}',
    ])
    cfg = ['NC = %d' % len(IDS), 'Chem <- t_Chem', 'Lib <- t_Lib', 'Tags <- t_Empty', 'ModelFeeds <- t_Empty', 'XVals <- t_Empty',
           'QVals <- t_Empty', 'DVals <- t_Empty', 'HfChems <- t_Empty', 'HfVals <- t_Empty', 'Ops <- t_Empty']
    return defs, cfg


SCALE = 100


def fx3(x):
    return int(round(float(x) * SCALE))


def item_record(i, r, X, tag):
    """canonical item record from library index i, reactant r (1-based), conversion X and tag vector ([] = phase-less)"""
    v = LIB[i]
    nu = [x / -v[r - 1] for x in v]
    return dict(nu=[q(x) for x in nu], r=r, X=q(X), tag=[] if not tag else ['-' if v[c] == 0 else tag[c] for c in range(len(IDS))])


class World:
    def __init__(self):
        self.th = thermo()
        # the package is shared between worlds: restore the heats of formation a previous history may have changed
        for ch, p in zip(self.th.chemicals, CHEM):
            ch.Hf = float(p['Hf'])
        self.th.chemicals.refresh_constants()
        self.kind = 'g'
        self.stream = tmo.Stream(None, thermo=self.th, phase='g', T=T_REF)
        self.rs = None
        self.rs_rec = dict(NOSET)

    # ---- projection ----------------------------------------------------------------------------------
    def _m(self):
        s = self.stream
        rows = {ph: [[0, 1]] * len(IDS) for ph in PHS}
        if isinstance(s, tmo.MultiStream):
            for ph in s.phases:
                rows[ph] = [fr(x) for x in s.imol[ph].to_array() if True] if hasattr(s.imol[ph], 'to_array') else [fr(x) for x in np.asarray(s.imol[ph])]
        else:
            rows[s.phase] = [fr(x) for x in s.mol.to_array()]
        return rows

    def _item(self, it, basis, declared):
        st = it._stoichiometry.to_array()
        if st.ndim == 2:
            phases = list(it.phases)
            nu = st.sum(axis=0)
            tag = []
            for c in range(len(IDS)):
                nz = [phases[k] for k in range(len(phases)) if st[k, c] != 0.]
                tag.append(nz[0] if len(nz) == 1 else ('-' if not nz else '?'))
        else:
            nu, tag = st, []
        if basis == 'wt':
            with np.errstate(all='ignore'):
                nu = nu / it.MWs
        ri = it._reactant_index
        ri = int(ri[-1]) if isinstance(ri, tuple) else int(ri)
        with np.errstate(all='ignore'):
            nu = nu / -nu[ri]
        return dict(nu=[fr(x) for x in nu], r=ri + 1, X=fr(it.X), tag=tag)

    def _rs(self):
        if self.rs is None:
            return dict(NOSET)
        kind = self.rs_rec['kind']
        basis = self.rs._basis if kind != 'system' else self.rs.reactions[0]._basis
        if kind == 'system':
            items = list(self.rs.reactions)
        else:
            items = [self.rs] if kind == 'single' else [self.rs[j] for j in range(len(self.rs_rec['items']))]
        return dict(kind=kind, basis=basis, items=[self._item(it, basis, None) for it in items])

    def project(self):
        s = self.stream
        kind = ''.join(s.phases) if isinstance(s, tmo.MultiStream) else s.phase
        # heats of formation as the compiled package holds them (what Stream.Hf and Reaction.dH read)
        hf = [int(round(float(x))) for x in self.th.chemicals.Hf]
        return dict(kind=kind, m=self._m(), d3=fx3(s.T - T_REF), rs=self._rs(), hf=hf)

    # ---- operations ----------------------------------------------------------------------------------
    def _mkrxn(self, it, basis):
        ids = IDS
        nu = [F(*x) for x in it['nu']]
        X = it['X'][0] / it['X'][1]
        if it['tag']:
            def term(c):
                return '%r %s,%s' % (float(abs(nu[c])), ids[c], it['tag'][c])
            lhs = ' + '.join(term(c) for c in range(len(ids)) if nu[c] < 0)
            rhs = ' + '.join(term(c) for c in range(len(ids)) if nu[c] > 0)
            rx = tmo.Reaction('%s -> %s' % (lhs, rhs), reactant=ids[it['r'] - 1], X=X, chemicals=self.th.chemicals)
        else:
            rx = tmo.Reaction({ids[c]: float(nu[c]) for c in range(len(ids)) if nu[c]}, reactant=ids[it['r'] - 1], X=X, chemicals=self.th.chemicals)
        if basis == 'wt':
            rx = rx.copy(basis='wt')      # the same reaction re-based by weight
        return rx

    def apply(self, op, a):
        exc, extra = NONE, {}
        try:
            with warnings.catch_warnings():
                warnings.simplefilter('ignore')
                extra = self._apply(op, a) or {}
        except Exception as e:
            exc = type(e).__name__
            extra = dict(msg=str(e)[:200])
        obs = dict(exc=exc, Hnet0=0, Hnet1=0, dH=0, scaled_dT=0)
        obs.update(extra)
        return obs

    def _apply(self, op, a):
        if op == 'set_feed':
            T = T_REF + a['d3'] / float(SCALE)
            k = a['kind']
            if len(k) == 1 and not a.get('multi'):
                self.stream = tmo.Stream(None, thermo=self.th, phase=k, T=T)
                self.stream.mol[:] = [x[0] / x[1] for x in a['m'][k]]
            else:
                self.stream = tmo.MultiStream(None, thermo=self.th, phases=k, T=T)
                for ph in k:
                    self.stream.imol[ph] = [x[0] / x[1] for x in a['m'][ph]]
            return
        if op == 'load':
            st = a['set']
            rx = [self._mkrxn(it, st['basis']) for it in st['items']]
            if st['kind'] == 'single':
                self.rs = rx[0]
            elif st['kind'] == 'system':
                self.rs = tmo.ReactionSystem(*rx)
            else:
                self.rs = (tmo.ParallelReaction if st['kind'] == 'parallel' else tmo.SeriesReaction)(rx)
            self.rs_rec = st
            # member objects obtained when the set was built (queried again after later changes)
            self.held = [self.rs[j] for j in range(len(rx))] if st['kind'] in ('parallel', 'series') else []
            return
        if op == 'set_X':
            k, j, v = self.rs_rec['kind'], a['j'] - 1, a['X'][0] / a['X'][1]
            if k == 'single':
                self.rs.X = v
            elif k == 'system':
                self.rs.reactions[j].X = v
            elif a.get('via') == 'set':
                self.rs.X[j] = v
            elif a.get('via') == 'held' and getattr(self, 'held', None):
                self.held[j].X = v
            else:
                self.rs[j].X = v
            return
        if op == 'set_Hf':
            self.th.chemicals.tuple[a['i'] - 1].Hf = float(a['v'])
            self.th.chemicals.refresh_constants()
            return
        if op == 'dH':
            k = self.rs_rec['kind']
            if a.get('held') and k in ('parallel', 'series') and getattr(self, 'held', None):
                v = self.held[a['j'] - 1].dH
            else:
                v = self.rs.dH if k == 'single' else (self.rs.reactions[a['j'] - 1].dH if k == 'system' else self.rs[a['j'] - 1].dH)
            if np.ndim(v) != 0:
                raise TypeError('dH is not a scalar: %r' % (v,))
            return dict(dH=fx3(v))
        if op in ('react', 'adiabatic'):
            s = self.stream
            H0 = s.Hnet
            if op == 'react':
                self.rs(s)
                return dict(Hnet0=fx3(H0), Hnet1=fx3(s.Hnet))
            # the same reaction on the same material scaled by 2^-30 (heat input scaled alike) must end at the same temperature:
            # the balance is extensive (the fixed-point ledger cannot see enthalpy flows that small)
            k = 2. ** -30
            c = s.copy()
            if isinstance(c, tmo.MultiStream):
                for ph in c.phases:
                    c.imol[ph] = np.asarray(s.imol[ph].to_array() if hasattr(s.imol[ph], 'to_array') else s.imol[ph]) * k
            else:
                c.mol[:] = s.mol.to_array() * k
            self.rs.adiabatic_reaction(s, Q=float(a['Q']))
            try:
                self.rs.adiabatic_reaction(c, Q=float(a['Q']) * k)
                dT = int(min(abs(c.T - s.T) * 1e6, 2 ** 30))
            except Exception:
                dT = 2 ** 30
            return dict(Hnet0=fx3(H0), Hnet1=fx3(s.Hnet), scaled_dT=dT)
        raise KeyError(op)


def random_set(rng):
    kind = rng.choice(['single', 'single', 'parallel', 'series', 'system'])
    basis = rng.choice(['mol', 'mol', 'wt'])
    tagged = rng.random() < 0.6
    n = 1 if kind == 'single' else 2
    for _ in range(50):
        tag = [rng.choice(PHS) for _ in IDS] if tagged else []
        if tagged and rng.random() < 0.5:
            tag = [CHEM[c]['ref'] for c in range(len(IDS))]        # every chemical in its reference phase
        items = []
        for _ in range(n):
            i = rng.randrange(len(LIB))
            r = rng.choice([c + 1 for c, x in enumerate(LIB[i]) if x < 0])
            items.append(item_record(i, r, rng.choice([F(1, 2), F(1), F(1, 2), F(0), F(1, 4)]), tag))
        if tagged:
            phs = [set(t for t in it['tag'] if t != '-') for it in items]
            if any(p != phs[0] for p in phs):
                continue
        return dict(kind=kind, basis=basis, items=items)
    return dict(kind='single', basis=basis, items=[item_record(0, 1, F(1, 2), [])])


def set_phases(st):
    if not st['items'] or not st['items'][0]['tag']:
        return None
    return ''.join(sorted(set(t for it in st['items'] for t in it['tag'] if t != '-')))


def random_feed(rng, st, ref_T=False):
    """a feed the loaded set fits: single-phase for phase-less sets, the set's phases otherwise"""
    k = set_phases(st) if st else None
    if k is None:
        k = rng.choice(['g', 'l'])
    m = {ph: [q(0)] * len(IDS) for ph in PHS}
    tag = st['items'][0]['tag'] if st and st['items'] and st['items'][0]['tag'] else None
    for ph in k:
        m[ph] = [q(rng.choice([0, 1, 2, 1, F(1, 2), 3])) if rng.random() < 0.8 else q(0) for _ in IDS]
    d3 = 0 if ref_T else rng.choice([0, 0, 1000, 5000, -1500, 10185, 185])
    # phase-tagged sets act on MultiStream objects (also when they name a single phase); phase-less sets on Stream objects
    return dict(kind=k, m=m, d3=d3, multi=bool(tag))
