"""Driver binding spec/PhaseEq.tla to the phase-equilibrium solvers of thermosteam (C03)."""
import warnings

import numpy as np

import thermosteam as tmo

MODULE = 'PhaseEq'
NONE = 'none'
IDS = ['Water', 'Ethanol', 'Octane', 'Phenol', 'N2', 'Glucose', 'Glycerol']
CLS = ['vol', 'vol', 'vol', 'vol', 'gas', 'sol', 'liq']
PHS = ['g', 'l', 'L', 's']
QUANTA = 10 ** 8
_th = {}


def thermo():
    if not _th:
        chems = tmo.Chemicals(['Water', 'Ethanol', 'Octane', 'Phenol', tmo.Chemical('N2', phase='g'),
                               tmo.Chemical('Glucose', phase='s'), tmo.Chemical('Glycerol', phase='l')])
        _th['P'] = tmo.Thermo(chems, cache=False)
    return _th['P']


def tla_constants():
    defs = 't_Cls == <<%s>>\nt_E == {}' % ', '.join('"%s"' % c for c in CLS)
    return defs, ['NC = %d' % len(IDS), 'Cls <- t_Cls', 'MaxQ = 0', 'Tol = 6', 'Ops <- t_E']


class World:
    """One stream; the table is logged in quanta of 1e-8 of each chemical's total (fixed when the material is fed)."""

    def __init__(self):
        self.th = thermo()
        self.stream = None
        self.q = [1e-8] * len(IDS)

    def feed(self, rng, binary=False):
        """random subset of chemicals, flows over six decades, random distribution over random phases; Stream or MultiStream
        (binary: exactly two volatile chemicals, the case the composition specifications x / y are defined for)"""
        n = len(IDS)
        self.binary = binary
        k = rng.choice([1, 2, 2, 3, 3, 4, 5, n])
        chosen = rng.sample(range(n), k)
        if not any(CLS[i] == 'vol' for i in chosen) and rng.random() < 0.8:
            chosen.append(rng.choice([i for i in range(n) if CLS[i] == 'vol']))
        if binary:
            vol = [i for i in range(n) if CLS[i] == 'vol']
            chosen = rng.sample(vol, 2) + [i for i in chosen if CLS[i] != 'vol' and rng.random() < 0.3]
        total = np.zeros(n)
        for i in chosen:
            total[i] = 10 ** rng.uniform(-3, 3)
        if rng.random() < 0.2:
            ph = rng.choice(['l', 'g', 'l', 's'])
            s = tmo.Stream(None, thermo=self.th, phase=ph, T=rng.uniform(280, 400), P=rng.choice([101325., 5e4, 1e6]))
            s.mol[:] = total
        else:
            phases = rng.choice(['gl', 'gl', 'lL', 'ls', 'glL', 'gls', 'glLs', 'glLs'])
            s = tmo.MultiStream(None, thermo=self.th, phases=phases, T=rng.uniform(280, 400), P=rng.choice([101325., 5e4, 1e6]))
            for i in chosen:
                w = np.array([rng.choice([0, 0, 1, rng.random()]) for _ in phases], float)
                if w.sum() == 0:
                    w[rng.randrange(len(phases))] = 1.
                w = w / w.sum()
                for ph, f in zip(phases, w):
                    s.imol[ph, IDS[i]] = total[i] * f
        self.stream = s
        tot = self._table_float().sum(axis=0)
        self.q = [t / QUANTA if t > 0 else 1e-8 for t in tot]

    def _table_float(self):
        s = self.stream
        out = np.zeros((len(PHS), len(IDS)))
        if isinstance(s, tmo.MultiStream):
            for ph in s.phases:
                out[PHS.index(ph)] = np.asarray(s.imol[ph].to_array() if hasattr(s.imol[ph], 'to_array') else s.imol[ph], float)
        else:
            out[PHS.index(s.phase)] = s.mol.to_array()
        return out

    def project(self):
        t = self._table_float()
        tab = {}
        for k, ph in enumerate(PHS):
            tab[ph] = [int(max(min(round(t[k, i] / self.q[i]), 2 * 10 ** 9), -2 * 10 ** 9)) for i in range(len(IDS))]
        return dict(tab=tab)

    # ---- operations -----------------------------------------------------------------------------------
    def apply(self, op, a):
        exc, msg = NONE, ''
        try:
            with warnings.catch_warnings():
                warnings.simplefilter('ignore')
                with np.errstate(all='ignore'):
                    self._apply(op, a)
        except Exception as e:
            exc, msg = type(e).__name__, str(e)[:160]
        return dict(exc=exc, msg=msg)

    def _apply(self, op, a):
        s = self.stream
        if op == 'vle':
            kw = {k: (float(v) if k not in 'xy' else np.array([float(z) for z in v.split(',')])) for k, v in a['kw'].items()}
            s.vle(**kw)
        elif op == 'lle':
            kw = dict(T=float(a['T']))
            if a.get('top') is not None and a['top'] != NONE:
                kw['top_chemical'] = a['top']
            if 'use_cache' in a:
                kw['use_cache'] = bool(a['use_cache'])
            s.lle(**kw)
        elif op == 'sle':
            kw = dict(T=float(a['T']))
            if a.get('solubility', NONE) != NONE:
                kw['solubility'] = float(a['solubility'])
            s.sle(IDS[a['solute'] - 1], **kw)
        elif op == 'vlle':
            s.vlle(float(a['T']), float(a['P']))
        else:
            raise KeyError(op)

    def nudge(self, rng):
        """scale the flow of one chemical (preferably a trace one) in every phase; state shaping, not judged"""
        s = self.stream
        tot = self._table_float().sum(axis=0)
        present = [i for i in range(len(IDS)) if tot[i] > 0]
        if not present:
            return
        i = min(present, key=lambda j: tot[j]) if rng.random() < 0.7 else rng.choice(present)
        f = rng.choice([0.5, 0.9, 0.99, 1.1, 2.])
        if isinstance(s, tmo.MultiStream):
            for ph in s.phases:
                s.imol[ph, IDS[i]] = s.imol[ph, IDS[i]] * f
        else:
            s.imol[IDS[i]] = s.imol[IDS[i]] * f
        tot = self._table_float().sum(axis=0)
        self.q = [t / QUANTA if t > 0 else 1e-8 for t in tot]

    # ---- specification values ----------------------------------------------------------------------------
    def vle_spec(self, rng):
        """a supported pair of specifications with values inside the quantifier of C03; None if the reference flashes fail"""
        s = self.stream
        kind = rng.choice(['TP', 'TP', 'TV', 'PV', 'PH', 'PS', 'TH', 'TS', 'Tx', 'Ty', 'Px', 'Py'])
        if getattr(self, 'binary', False) and rng.random() < 0.7:
            kind = rng.choice(['Tx', 'Ty', 'Px', 'Py'])
        T = rng.uniform(250, 500)
        P = 10 ** rng.uniform(4, 6.7)
        V = rng.choice([0., 1., rng.random(), rng.random()])
        f = rng.random()
        tot_ = self._table_float().sum(axis=0)
        if rng.random() < 0.3:
            # vapour fractions next to the ends and next to the largest / smallest reachable one (non-volatile and gas-only
            # chemicals cannot move), enthalpies / entropies at and next to the all-liquid / all-vapour values
            F_ = tot_.sum()
            heavy = sum(tot_[i] for i in range(len(IDS)) if CLS[i] in ('sol', 'liq')) / F_
            light = sum(tot_[i] for i in range(len(IDS)) if CLS[i] == 'gas') / F_
            eps = 10 ** -rng.uniform(2, 6.5)
            V = min(max(rng.choice([1. - eps, eps, (1. - heavy) * (1. - eps), (1. - heavy) - eps, light + eps, light * (1. + eps)]), 0.), 1.)
            f = rng.choice([0., 1., eps, 1. - eps])
        try:
            with warnings.catch_warnings():
                warnings.simplefilter('ignore')
                with np.errstate(all='ignore'):
                    if kind == 'TP':
                        kw = dict(T=T, P=P)
                    elif kind == 'TV':
                        kw = dict(T=T, V=V)
                    elif kind == 'PV':
                        kw = dict(P=P, V=V)
                    elif kind in ('PH', 'PS', 'TH', 'TS'):
                        fixed = dict(P=P) if kind[0] == 'P' else dict(T=rng.uniform(300, 450))
                        lo, hi = s.copy(), s.copy()
                        lo.vle(V=0., **fixed)
                        hi.vle(V=1., **fixed)
                        w = 'H' if kind[1] == 'H' else 'S'
                        kw = dict(fixed)
                        kw[w] = getattr(lo, w) + f * (getattr(hi, w) - getattr(lo, w))
                    else:
                        tot = self._table_float().sum(axis=0)
                        idx = [i for i in range(len(IDS)) if CLS[i] == 'vol' and tot[i] > 0]
                        if len(idx) != 2:
                            return None
                        z = rng.uniform(0.05, 0.95)
                        if rng.random() < 0.4:
                            # a specified composition next to the overall composition of the two chemicals (lever rule at its ends)
                            z = tot[idx[0]] / (tot[idx[0]] + tot[idx[1]]) * (1. + rng.choice([1e-6, -1e-6, 3e-6, -3e-6, 1e-5, 0.]))
                            z = min(max(z, 1e-9), 1. - 1e-9)
                        kw = {kind[0]: T if kind[0] == 'T' else P, kind[1]: '%r,%r' % (z, 1 - z)}
        except Exception:
            return None
        return dict(kind=kind, kw={k: (v if isinstance(v, str) else repr(float(v))) for k, v in kw.items()})


def random_op(rng, w):
    u = rng.random()
    if u < 0.55:
        sp = w.vle_spec(rng)
        if sp is not None:
            return 'vle', sp
    if u < 0.7:
        return 'lle', dict(T=repr(rng.uniform(285, 355)), top=rng.choice([NONE, NONE, 'Water', 'Octane', 'Ethanol']), use_cache=rng.choice([0, 1]))
    if u < 0.85:
        return 'sle', dict(solute=rng.choice([4, 4, 4, 1, 6]), T=repr(rng.uniform(250, 450)), solubility=rng.choice([NONE, NONE, '0.05', '0.5']))
    if w._table_float()[PHS.index('s')].any() or getattr(w.stream, 'phase', '') == 's':
        # Stream.vlle re-declares the phases as L, g, l: material held as solid has no place there (not a C03 subject)
        return 'lle', dict(T=repr(rng.uniform(285, 355)), top=NONE, use_cache=1)
    return 'vlle', dict(T=repr(rng.uniform(300, 420)), P=repr(10 ** rng.uniform(4.3, 6)))
