"""Driver binding spec/Separations.tla to thermosteam.separations (C20)."""
import warnings
from fractions import Fraction

import numpy as np

import thermosteam as tmo
from thermosteam import separations as sep

MODULE = 'Separations'
NONE = 'none'
IDS = ['Water', 'Ethanol', 'Octanol', 'Glucose', 'O2', 'NaCl']
PLAIN = ['a', 'b', 'c', 'd', 'e']
SLOTS = PLAIN + ['msg', 'msl']
QUANTA = 10 ** 7
_th = {}


def thermo():
    if not _th:
        chems = tmo.Chemicals(['Water', 'Ethanol', 'Octanol', tmo.Chemical('Glucose', phase='s'), tmo.Chemical('O2', phase='g'), tmo.Chemical('NaCl', phase='s')])
        _th['P'] = tmo.Thermo(chems, cache=False)
        tmo.settings.set_thermo(_th['P'])        # chemical_splits builds its indexer on the default package
    return _th['P']


def tla_constants():
    defs = 't_Slots == {%s}\nt_E == {}' % ', '.join('"%s"' % s for s in SLOTS)
    return defs, ['NC = %d' % len(IDS), 'Slots <- t_Slots', 'SplitVals <- t_E', 'FlowVals <- t_E', 'Ops <- t_E', 'Tol = 8', 'RelTol = 100000']


def cap(v):
    v = float(v)
    if v != v:
        return 2 * 10 ** 9
    return int(min(abs(v), 2e9))


def qint(x):
    """flow in quanta, clipped; a flow that is not a number is logged as a (huge) negative flow"""
    x = float(x)
    if x != x:
        return -400000000
    return int(max(min(round(x), 4e8), -4e8))


class World:
    def __init__(self, rng):
        th = thermo()
        self.s = {n: tmo.Stream(None, thermo=th) for n in PLAIN}
        self.ms = tmo.MultiStream(None, thermo=th, phases='gl')
        self.q = np.ones(len(IDS))
        self.refeed(rng)

    def refeed(self, rng):
        th = thermo()
        big = np.zeros(len(IDS))
        for n in PLAIN:
            kind = rng.choice(['liquid', 'liquid', 'wet_solids', 'empty', 'gasish', 'organic'])
            s = tmo.Stream(None, thermo=th, T=rng.choice([298.15, 320., 350.]))
            f = 10 ** rng.uniform(-1, 2)
            if kind == 'liquid':
                s.imol['Water'] = f * rng.choice([1, 5, 10])
                s.imol['Ethanol'] = f * rng.choice([0, 1, 3])
            elif kind == 'wet_solids':
                s.imol['Water'] = f * rng.choice([5, 20, 50])
                s.imol['Glucose'] = f * rng.choice([1, 2])
                s.imol['NaCl'] = f * rng.choice([0, 0.5])
            elif kind == 'gasish':
                s.imol['Water'] = f
                s.imol['Ethanol'] = f * 2
                s.imol['O2'] = f * rng.choice([0.1, 1])
            elif kind == 'organic':
                s.imol['Octanol'] = f * rng.choice([2, 5])
                s.imol['Water'] = f * rng.choice([1, 5])
                s.imol['Ethanol'] = f * rng.choice([0, 1])
            self.s[n] = s
            big = np.maximum(big, s.mol.to_array())
        self.ms = tmo.MultiStream(None, thermo=th, phases='gl', T=355., l=[('Water', 5.), ('Ethanol', 2.)], g=[('Water', 1.), ('Ethanol', 3.)])
        big = np.maximum(big, 8.)
        # one quantum = 1e-7 of (5 x the largest amount of the chemical present): sums of a few streams stay representable
        self.q = big * 5 / QUANTA

    def project(self):
        m = {}
        for n in PLAIN:
            m[n] = [qint(v / self.q[i]) for i, v in enumerate(self.s[n].mol.to_array())]
        for ph, name in (('g', 'msg'), ('l', 'msl')):
            try:
                row = np.asarray(self.ms.imol[ph].to_array(), float)
            except Exception:
                row = np.zeros(len(IDS))
            m[name] = [qint(v / self.q[i]) for i, v in enumerate(row)]
        return dict(m=m)

    def apply(self, op, a):
        obs = dict(exc=NONE, msg='', reported=False, kdev=0, mc6=0, dev=0, resid=0, comp_dev=0)
        try:
            with warnings.catch_warnings(record=True) as wlist:
                warnings.simplefilter('always')
                with np.errstate(all='ignore'):
                    self._apply(op, a, obs)
                obs['reported'] = any('negative flow' in str(w.message) for w in wlist)
        except Exception as e:
            obs['exc'], obs['msg'] = type(e).__name__, str(e)[:160]
        return obs

    def _apply(self, op, a, obs):
        S = self.s
        if op == 'mix_and_split':
            split = np.array([x[0] / x[1] for x in a['split']])
            sep.mix_and_split([S[i] for i in a['ins']], S[a['top']], S[a['bot']], split)
        elif op == 'phase_split':
            sep.phase_split(self.ms, [S[o] for o in a['outs']])
        elif op == 'moisture':
            ret, perm = S[a['ret']], S[a['perm']]
            mid = IDS[a['water'] - 1]
            kw = dict(strict=bool(a['strict']) if a['strict'] != NONE else None)
            if a['by_id']:
                kw['ID'] = mid          # the keyword path works on mass flows of any chemical
            sep.adjust_moisture_content(ret, perm, a['mc6'] / 1e6, **kw)
            F = ret.F_mass
            obs['mc6'] = cap(ret.imass[mid] / F * 1e6) if F > 0 else 0
        elif op == 'partition':
            feed, top, bot = S[a['feed']], S[a['top']], S[a['bot']]
            ids = tuple(IDS[i - 1] for i in a['ids'])
            K = np.array([k / 1e6 for k in a['K6']])
            kw = {}
            if a['topc']:
                kw['top_chemicals'] = tuple(IDS[i - 1] for i in a['topc'])
            if a['botc']:
                kw['bottom_chemicals'] = tuple(IDS[i - 1] for i in a['botc'])
            sep.partition(feed, top, bot, ids, K, strict=bool(a['strict']), **kw)
            t, b = top.imol[ids], bot.imol[ids]
            ftop = bool(a['topc']) and float(top.imol[tuple(IDS[i - 1] for i in a['topc'])].sum()) > 0
            fbot = bool(a['botc']) and float(bot.imol[tuple(IDS[i - 1] for i in a['botc'])].sum()) > 0
            only_top, only_bot = (t > 0) & (b == 0), (b > 0) & (t == 0)
            if top.F_mol > 0 and bot.F_mol > 0 and ((only_top.any() and fbot) or (only_bot.any() and ftop)):
                # both outlets hold material but a partitioning chemical sits in one of them only although the other phase exists by
                # specification (a chemical forced into it holds material there): no finite coefficient is reproduced
                # (chemicals that are neither listed nor forced go to the top outlet; they are not taken to form a phase)
                obs['kdev'] = 2 * 10 ** 9
            elif t.sum() > 0 and b.sum() > 0 and top.F_mol > 0 and bot.F_mol > 0:
                y, x = t / top.F_mol, b / bot.F_mol
                ok = (x > 0) & (y > 0)
                if ok.sum() >= 1:
                    # achieved K_i = y_i / x_i over the whole outlets: equal to the given K_i up to ONE common factor
                    # (chemicals forced into one outlet dilute it)
                    r = (y[ok] / x[ok]) / K[ok]
                    obs['kdev'] = cap(np.abs(r / r[0] - 1.).max() * 1e9)
        elif op == 'sep_vle':
            kw = {k: float(v) for k, v in a['kw'].items()}
            sep.vle(S[a['feed']], S[a['top']], S[a['bot']], multi_stream=self.ms if a['ms'] else None, **kw)
        elif op == 'sep_lle':
            sep.lle(S[a['feed']], S[a['top']], S[a['bot']], top_chemical=a['topchem'] if a['topchem'] != NONE else None, efficiency=a['eff6'] / 1e6,
                    multi_stream=None)
        elif op == 'chemical_splits':
            A, B = S[a['a']], S[a['b']]
            mixed = tmo.Stream(None, thermo=thermo())
            mixed.mol[:] = A.mol.to_array() + B.mol.to_array()
            sp = sep.chemical_splits(A, B) if a['form'] == 'ab' else sep.chemical_splits(A, mixed=mixed)
            data = np.nan_to_num(np.asarray(sp.data.to_array() if hasattr(sp.data, 'to_array') else sp.data, float))
            back = data * mixed.mol.to_array()
            ref = A.mol.to_array()
            obs['dev'] = cap((np.abs(back - ref) / np.maximum(ref, 1e-30))[ref > 0].max() * 1e9) if (ref > 0).any() else 0
        elif op == 'material_balance':
            ids = tuple(IDS[i - 1] for i in a['ids'])
            var = [S[n] for n in a['var']]
            cin = [S[n] for n in a['cin']]
            cout = [S[n] for n in a['cout']]
            before = [v.mol.to_array().copy() for v in var]
            sep.material_balance(ids, var, cin, cout)
            idx = [i - 1 for i in a['ids']]
            tot = sum(v.mol.to_array() for v in var) + sum((c.mol.to_array() for c in cin), np.zeros(len(IDS))) - sum(c.mol.to_array() for c in cout)
            scale = max(max([np.abs(s_.mol.to_array()[idx]).max() for s_ in var + cin + cout] + [0.]), max(b0.max() for b0 in before) * 1e-6, 1e-12)
            obs['resid'] = cap(np.abs(tot[idx]).max() / scale * 1e9)
            dev = 0.
            for v, b0 in zip(var, before):
                now = v.mol.to_array()
                pos = b0 > 0
                if pos.any():
                    f = now[pos] / b0[pos]
                    dev = max(dev, float(np.abs(f - f[0]).max() / max(abs(f[0]), 1e-12)))
                if (now[~pos] != 0).any():
                    dev = 1.
            obs['comp_dev'] = cap(dev * 1e9)
        else:
            raise KeyError(op)


def q(x):
    x = Fraction(x)
    return [x.numerator, x.denominator]


def random_op(rng, w):
    op, a = _random_op(rng, w)
    # the helpers write single-phase outlets: a slot that an earlier mix turned into a multi-phase stream is no valid outlet
    outs = [a.get(k) for k in ('top', 'bot', 'ret', 'perm') if a.get(k)] + list(a.get('outs', [])) + list(a.get('var', []))
    a['plain'] = all(not isinstance(w.s[n], tmo.MultiStream) for n in outs)
    return op, a


def _random_op(rng, w):
    op = rng.choice(['mix_and_split', 'mix_and_split', 'phase_split', 'moisture', 'moisture', 'partition', 'partition', 'partition', 'sep_vle', 'sep_lle',
                     'chemical_splits', 'material_balance'])
    P = PLAIN
    if op == 'mix_and_split':
        ins = [rng.choice(P) for _ in range(rng.randint(1, 3))]
        top = rng.choice(P)
        bot = rng.choice([n for n in P if n != top and n not in ins])
        return op, dict(ins=ins, top=top, bot=bot, split=[q(rng.choice([0, Fraction(1, 4), Fraction(1, 2), Fraction(3, 4), 1, Fraction(1, 10)])) for _ in IDS])
    if op == 'phase_split':
        return op, dict(outs=rng.sample(P, 2))
    if op == 'moisture':
        ret, perm = rng.sample(P, 2)
        mc = rng.choice([0.05, 0.3, 0.5, 0.8, 0.94])
        r, p = w.s[ret], w.s[perm]
        by_id = rng.random() < 0.5
        mid = rng.choice(['Water', 'Water', 'Ethanol']) if by_id else 'Water'
        dry = r.F_mass - r.imass[mid]
        need = dry * mc / (1 - mc)
        # strictly sufficient: at exact equality the outcome depends on floating-point rounding
        enough = bool(need <= (r.imass[mid] + p.imass[mid]) * (1 - 1e-9) and dry > 0)
        return op, dict(ret=ret, perm=perm, water=IDS.index(mid) + 1, by_id=by_id, mc6=int(mc * 1e6), strict=rng.choice([NONE, 1, 0]), enough=enough)
    if op == 'partition':
        feed, top, bot = rng.sample(P, 3)
        ids = sorted(rng.sample([1, 2, 3], rng.choice([2, 3])))
        K6 = [int(10 ** rng.uniform(-3, 3) * 1e6) for _ in ids]
        if rng.random() < 0.2:
            K6 = [int(10 ** rng.uniform(0.01, 3) * 1e6) for _ in ids]      # every coefficient above one (or, below, every one below one)
        elif rng.random() < 0.2:
            K6 = [int(10 ** rng.uniform(-3, -0.01) * 1e6) for _ in ids]
        rest = [i for i in (4, 5, 6)]
        topc = [5] if rng.random() < 0.5 else []
        botc = rng.choice([[], [4], [4, 6], [6]])
        return op, dict(feed=feed, top=top, bot=bot, ids=ids, K6=K6, topc=topc, botc=botc, strict=rng.choice([0, 0, 1]))
    if op == 'sep_vle':
        feed, top, bot = rng.sample(P, 3)
        kw = rng.choice([dict(T=repr(rng.uniform(340, 380)), P='101325.0'), dict(V=repr(rng.random()), P='101325.0'), dict(P='101325.0', Q=repr(rng.uniform(0, 5e4)))])
        return op, dict(feed=feed, top=top, bot=bot, kw=kw, ms=rng.random() < 0.4)
    if op == 'sep_lle':
        feed, top, bot = rng.sample(P, 3)
        return op, dict(feed=feed, top=top, bot=bot, topchem=rng.choice([NONE, 'Octanol', 'Water']), eff6=rng.choice([1000000, 990000, 500000, 0]), ms=False)
    if op == 'chemical_splits':
        a_, b_ = rng.sample(P, 2)
        return op, dict(a=a_, b=b_, form=rng.choice(['ab', 'mixed']))
    var = rng.sample(P, 2)
    others = [n for n in P if n not in var]
    return op, dict(ids=[1, 2], var=var, cin=rng.choice([[], [others[0]]]), cout=[others[1]] if rng.random() < 0.7 else [others[1], others[2]])
