"""Driver binding spec/NetworkOrder.tla to thermosteam.network.Network.from_units (C19)."""
import itertools
import random
import warnings

import thermosteam as tmo
from thermosteam.network import Network

MODULE = 'NetworkOrder'
tmo.settings.set_thermo([], cache=False)
_cls = {}


def unit_class(n_in, n_out):
    key = (n_in, n_out)
    if key not in _cls:
        _cls[key] = type('N_%d_%d' % key, (tmo.AbstractUnit,), dict(_N_ins=n_in, _N_outs=n_out))
    return _cls[key]


def tla_constants(units):
    defs = '\n'.join(['t_Units == {%s}' % ', '.join('"%s"' % u for u in units),
                      't_Order == <<%s>>' % ', '.join('"%s"' % u for u in units)])
    return defs, ['Units <- t_Units', 'UnitOrder <- t_Order', 'MaxBack = 0']


def build(units, edges, feeds, products, ports=None):
    """Real units and streams for a flowsheet: edges = [(u, v)], feeds / products = {unit: count}; `ports` (a seed)
    shuffles the order of every unit's inlets and outlets."""
    ins = {u: [] for u in units}
    outs = {u: [] for u in units}
    k = 0
    for (u, v) in edges:
        k += 1
        s = tmo.AbstractStream('.e%d' % k)
        outs[u].append(s)
        ins[v].append(s)
    for u, n in feeds.items():
        for _ in range(n):
            k += 1
            ins[u].append(tmo.AbstractStream('.f%d' % k))
    for u, n in products.items():
        for _ in range(n):
            k += 1
            outs[u].append(tmo.AbstractStream('.p%d' % k))
    if ports is not None:
        for u in units:
            random.Random('%s:%s:i' % (ports, u)).shuffle(ins[u])
            random.Random('%s:%s:o' % (ports, u)).shuffle(outs[u])
    objs = {}
    with warnings.catch_warnings():
        warnings.simplefilter('ignore')
        for u in units:
            objs[u] = unit_class(len(ins[u]), len(outs[u]))('.' + u, ins=ins[u] or None, outs=outs[u] or None)
    return objs


def flatten(net):
    out = []
    for i in net.path:
        out += flatten(i) if isinstance(i, Network) else [i]
    return out


def record(units, edges, feeds, products, order, ports=None):
    """One trace: Network.from_units on the units listed in `order`."""
    objs = build(units, edges, feeds, products, ports)
    names = {id(o): n for n, o in objs.items()}
    exc = 'none'
    steps = []
    st = dict(edges=[list(e) for e in edges], emitted=[], recycles=[], done=False)
    init = dict(st)
    try:
        with warnings.catch_warnings():
            warnings.simplefilter('ignore')
            net = Network.from_units([objs[u] for u in order])
        path = flatten(net)
        rec = net.get_all_recycles()
    except Exception as e:
        return dict(init=init, steps=[], error=type(e).__name__ + ': ' + str(e)[:100])
    emitted = []
    for o in path:
        u = names.get(id(o), 'foreign')
        if u not in emitted:
            emitted = emitted + [u]
        steps.append(dict(op='emit', a=dict(u=u), post=dict(edges=st['edges'], emitted=list(emitted), recycles=[], done=False), obs=dict(exc='none')))
    recs = []
    for s in rec:
        recs.append([names.get(id(s.source), 'none'), names.get(id(s.sink), 'none')])
    recs.sort()
    steps.append(dict(op='finish', a=dict(recycles=recs), post=dict(edges=st['edges'], emitted=list(emitted), recycles=recs, done=True), obs=dict(exc='none')))
    return dict(init=init, steps=steps, error=None)


def complete(units, edges):
    """Give every unit without inlet a feed and every unit without outlet a product, looking at the forward
    (DAG) edges only: back-edges are added to a flowsheet that already has its feeds and products."""
    idx = {u: i for i, u in enumerate(units)}
    fwd = [(u, v) for u, v in edges if idx[u] < idx[v]]
    feeds = {u: 0 for u in units}
    products = {u: 0 for u in units}
    for u in units:
        if not any(v == u for _, v in fwd):
            feeds[u] = 1
        if not any(w == u for w, _ in fwd):
            products[u] = 1
    return feeds, products


def reaches_product(units, edges, products):
    succ = {u: [v for w, v in edges if w == u] for u in units}
    ok = {u for u in units if products[u]}
    changed = True
    while changed:
        changed = False
        for u in units:
            if u not in ok and any(v in ok for v in succ[u]):
                ok.add(u)
                changed = True
    return len(ok) == len(units)


def connected(units, edges):
    if not units:
        return True
    adj = {u: set() for u in units}
    for u, v in edges:
        adj[u].add(v)
        adj[v].add(u)
    seen, todo = {units[0]}, [units[0]]
    while todo:
        x = todo.pop()
        for y in adj[x]:
            if y not in seen:
                seen.add(y)
                todo.append(y)
    return len(seen) == len(units)


def random_flowsheet(rng, n, n_back):
    """Connected DAG of n units (1-3 inlets / outlets each, several feeds and products) plus n_back back-edges
    such that every unit still reaches a product."""
    units = ['u%d' % i for i in range(1, n + 1)]
    while True:
        edges = []
        for j in range(1, n):
            k = rng.choice([0, 1, 1, 1, 2, 2])          # 0: another root unit (several feed units)
            for i in rng.sample(range(j), min(k, j)):
                edges.append((units[i], units[j]))
        # respect the port limits
        def deg_ok(es):
            return all(sum(1 for _, v in es if v == u) <= 3 and sum(1 for w, _ in es if w == u) <= 3 for u in units)
        if not deg_ok(edges) or not connected(units, edges):
            continue
        feeds, products = complete(units, edges)
        for u in units:
            if rng.random() < 0.3 and sum(1 for _, v in edges if v == u) + feeds[u] < 3:
                feeds[u] += 1
            if rng.random() < 0.3 and sum(1 for w, _ in edges if w == u) + products[u] < 3:
                products[u] += 1
        back = []
        tries = 0
        while len(back) < n_back and tries < 50:
            tries += 1
            j, i = sorted(rng.sample(range(n), 2), reverse=True)
            e = (units[j], units[i])
            if e in back or e in edges:
                continue
            if sum(1 for w, _ in edges + back if w == units[j]) + products[units[j]] >= 3:
                continue
            if sum(1 for _, v in edges + back if v == units[i]) + feeds[units[i]] >= 3:
                continue
            back.append(e)
            if products[units[j]] and rng.random() < 0.5:
                products[units[j]] -= 1          # the back-edge replaces a product outlet (units that reach a product only through the loop)
        if len(back) < n_back:
            continue
        if not reaches_product(units, edges + back, products):
            continue
        return units, edges + back, feeds, products
