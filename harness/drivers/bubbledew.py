"""Driver binding spec/BubbleDew.tla to thermosteam's BubblePoint / DewPoint objects (C08)."""
import math
import warnings

import numpy as np

import thermosteam as tmo
from thermosteam import equilibrium as eq

MODULE = 'BubbleDew'
NONE = 'none'
A = [1, 4, 3, 2, 4]             # Psat_i = 1000 * A[i] * T  [Pa]  (pressures stay below 2147 kPa: 32-bit fixed point in TLC)
_th = {}


def synthetic():
    if 'syn' not in _th:
        chems = []
        for k, a in enumerate(A):
            ch = tmo.Chemical.blank('Syn%d' % k, phase_ref='l', MW=50., Tm=100., Tb=350., Hfus=100., Sfus=1., Tc=2000., Pc=5e8, omega=0.3, S0=0., Hf=0.,
                                    free_energies=False)
            ch.Psat.add_method(f=lambda T, a=a: 1000. * a * T, Tmin=100., Tmax=900.)
            for ph in 'slg':
                getattr(ch.Cn, ph).add_method(f=lambda T: 50., f_int=lambda T1, T2: 50. * (T2 - T1), f_int_over_T=lambda T1, T2: 50. * math.log(T2 / T1),
                                              Tmin=1., Tmax=5000.)
            ch.Hvap.add_method(f=lambda T: 30000., Tmin=1., Tmax=5000.)
            ch.reset_free_energies()
            chems.append(ch)
        cc = tmo.Chemicals(chems)
        cc.compile(skip_checks=True)
        _th['syn'] = tmo.Thermo(cc, cache=False, Gamma=eq.IdealActivityCoefficients, Phi=eq.IdealFugacityCoefficients, PCF=eq.MockPoyintingCorrectionFactors)
    return _th['syn']


FAMILIES = {'alcohols': ['Water', 'Methanol', 'Ethanol', 'Propanol', 'Butanol'],
            'hydrocarbons': ['Hexane', 'Heptane', 'Octane', 'Benzene', 'Toluene'],
            # pairs with a miscibility gap under the activity model (only used with activity coefficients)
            'partly_miscible': ['Methanol', 'Hexane', 'Water', 'Ethyl acetate']}


def real(family, ideal, pcf=False):
    key = (family, ideal, pcf)
    if key not in _th:
        cc = tmo.Chemicals(FAMILIES[family])
        if pcf:
            # activity coefficients (default) with the Poynting correction switched on
            _th[key] = tmo.Thermo(cc, cache=False, PCF=eq.IdealGasPoyintingCorrectionFactors)
        elif ideal:
            _th[key] = tmo.Thermo(cc, cache=False, Gamma=eq.IdealActivityCoefficients, Phi=eq.IdealFugacityCoefficients, PCF=eq.MockPoyintingCorrectionFactors)
        else:
            _th[key] = tmo.Thermo(cc, cache=False)
    return _th[key]


def tla_constants():
    defs = 't_A == <<%s>>\nt_E == {}' % ', '.join(str(a) for a in A)
    return defs, ['NC = %d' % len(A), 'A <- t_A', 'WVals <- t_E', 'TVals <- t_E', 'PVals <- t_E', 'Ops <- t_E', 'TolT = 50', 'TolP = 500', 'TolC = 50']


def cap(v):
    v = float(v)
    if v != v:
        return 2 * 10 ** 9
    return int(min(abs(v), 2e9))


def exact(op, w, spec, scale, perm):
    """bubble / dew point of the synthetic mixture w (integer weights, canonical order) passed as scale * w in the order perm"""
    obs = dict(exc=NONE, msg='', T6=0, P6=0, c9=[0] * len(A))
    try:
        with warnings.catch_warnings():
            warnings.simplefilter('ignore')
            with np.errstate(all='ignore'):
                th = synthetic()
                chems = [th.chemicals.tuple[i] for i in perm]
                z = np.array([w[i] * scale for i in perm], float)
                obj = (eq.BubblePoint if op.startswith('bubble') else eq.DewPoint)(chems, th)
                r = obj(z, T=float(spec)) if op.endswith('_P') else obj(z, P=1000. * spec)
                comp = np.asarray(r.y if op.startswith('bubble') else r.x, float)
                back = [0.] * len(A)
                for k, i in enumerate(perm):
                    back[i] = comp[k]
                obs.update(T6=cap(r.T * 1e6), P6=cap(r.P / 1000. * 1e6), c9=[cap(c * 1e9) for c in back])
    except Exception as e:
        obs['exc'], obs['msg'] = type(e).__name__, str(e)[:160]
    return obs


def measured(family, ideal, ids, z, T0, k, perm, pcf=False):
    """residuals of the C08 clauses on a real package at composition z (over ids), temperature T0"""
    obs = dict(exc=NONE, msg='', eq_dev=0, norm_dev=0, rt_dev=0, order_ok=True, single_dev=0, scale_dev=0, perm_dev=0, hist_dev=0, in_range=True, atm_dev=0)
    try:
        with warnings.catch_warnings():
            warnings.simplefilter('ignore')
            with np.errstate(all='ignore'):
                th = real(family, ideal, pcf)
                chems = [getattr(th.chemicals, i) for i in ids]
                z = np.asarray(z, float)
                zn = z / z.sum()
                bp, dp = eq.BubblePoint(chems, th), eq.DewPoint(chems, th)
                b = bp(zn, T=T0)
                Pb, y = b.P, np.asarray(b.y, float)
                d = dp(zn, T=T0)
                Pd, x = d.P, np.asarray(d.x, float)
                pos = zn > 0
                obs['in_range'] = bool(5e3 <= Pd <= 3e6 and 5e3 <= Pb <= 3e6)
                # the defining equations, evaluated with the library's own model objects at the returned point
                Psats = np.array([c.Psat(T0) for c in chems])
                if pos.sum() > 1:
                    ym = zn * bp.gamma(zn, T0) * bp.pcf(T0, Pb, Psats) * Psats / (bp.phi(y, T0, Pb) * Pb)
                    xm = zn * dp.phi(zn, T0, Pd) * Pd / (dp.gamma(x / x.sum(), T0) * dp.pcf(T0, Pd, Psats) * Psats)
                    obs['eq_dev'] = cap(max(abs(1. - ym.sum()), abs(1. - xm[pos].sum())) * 1e9)
                obs['norm_dev'] = cap(max(abs(1. - y.sum()), abs(1. - x.sum())) * 1e9)
                # round trips
                Tb = bp(zn, P=Pb).T
                Td = dp(zn, P=Pd).T
                obs['rt_dev'] = cap(max(abs(Tb - T0), abs(Td - T0)) / T0 * 1e9)
                # bracket
                Td_at_Pb = dp(zn, P=Pb).T
                obs['order_ok'] = bool(Pd <= Pb * (1 + 1e-6) and T0 <= Td_at_Pb * (1 + 1e-6))
                # single component
                j = int(np.argmax(zn))
                e = np.zeros(len(ids))
                e[j] = 1.
                s1, s2 = bp(e, T=T0), dp(e, T=T0)
                Ps = chems[j].Psat(T0)
                P1 = 101325.
                t1, t2 = bp(e, P=P1), dp(e, P=P1)
                Ts = chems[j].Tsat(P1)
                obs['single_dev'] = cap(max(abs(s1.P - Ps) / Ps, abs(s2.P - Ps) / Ps, abs(t1.T - Ts) / Ts, abs(t2.T - Ts) / Ts) * 1e9)
                # the round trip started from exactly one atmosphere (P -> T -> P), single component and mixture
                a1, a2, a3 = bp(e, P=P1), dp(e, P=P1), bp(zn, P=P1)
                obs['atm_dev'] = cap(max(abs(bp(e, T=a1.T).P - P1), abs(dp(e, T=a2.T).P - P1), abs(bp(zn, T=a3.T).P - P1)) / P1 * 1e9)
                # scale
                bk, dk = bp(k * zn, T=T0), dp(k * zn, T=T0)
                bk2, dk2 = bp(k * zn, P=Pb), dp(k * zn, P=Pd)
                obs['scale_dev'] = cap(max(abs(bk.P - Pb) / Pb, abs(dk.P - Pd) / Pd, abs(bk2.T - Tb) / Tb, abs(dk2.T - Td) / Td,
                                           np.abs(np.asarray(bk.y) - y).max(), np.abs(np.asarray(dk.x) - x).max()) * 1e9)
                # order of the chemical list
                p = list(perm)
                bp2, dp2 = eq.BubblePoint([chems[i] for i in p], th), eq.DewPoint([chems[i] for i in p], th)
                b2, d2 = bp2(zn[p], T=T0), dp2(zn[p], T=T0)
                b3, d3 = bp2(zn[p], P=Pb), dp2(zn[p], P=Pd)
                obs['perm_dev'] = cap(max(abs(b2.P - Pb) / Pb, abs(d2.P - Pd) / Pd, abs(b3.T - Tb) / Tb, abs(d3.T - Td) / Td,
                                          np.abs(np.asarray(b2.y) - y[p]).max(), np.abs(np.asarray(d2.x) - x[p]).max()) * 1e9)
                # the answer depends on the composition only, not on what the (cached) solver objects were asked before:
                # requests at another composition in between, then the first requests again
                zo = zn[::-1].copy() if len(ids) > 1 else zn
                zo = (zo + 0.05) / (zo + 0.05).sum() if pos.sum() > 1 else zo
                for o_, kw in ((bp, dict(T=T0)), (dp, dict(T=T0)), (bp, dict(P=Pb)), (dp, dict(P=Pd))):
                    try:
                        o_(zo, **kw)
                    except Exception:
                        pass
                b4, d4 = bp(zn, T=T0), dp(zn, T=T0)
                b5, d5 = bp(zn, P=Pb), dp(zn, P=Pd)
                obs['hist_dev'] = cap(max(abs(b4.P - Pb) / Pb, abs(d4.P - Pd) / Pd, abs(b5.T - Tb) / Tb, abs(d5.T - Td) / Td) * 1e9)
    except Exception as e:
        obs['exc'], obs['msg'] = type(e).__name__, str(e)[:160]
    return obs
