"""Driver binding spec/Reaction.tla to thermosteam.reaction (C05, C17)."""
import random
import warnings
from fractions import Fraction

import numpy as np

import thermosteam as tmo

MODULE = 'Reaction'
NONE = 'none'
IDS = ['H2', 'O2', 'Water', 'CH4', 'CO', 'CO2']
ATOMS = ['C', 'H', 'O']
FORMULA = [dict(C=0, H=2, O=0), dict(C=0, H=0, O=2), dict(C=0, H=2, O=1), dict(C=1, H=4, O=0), dict(C=1, H=0, O=1), dict(C=1, H=0, O=2)]
F = Fraction
LIB = [
    [F(-1), F(-1, 2), F(1), F(0), F(0), F(0)],
    [F(0), F(-2), F(2), F(-1), F(0), F(1)],
    [F(0), F(-1, 2), F(0), F(0), F(-1), F(1)],
    [F(3), F(0), F(-1), F(-1), F(1), F(0)],
    [F(1), F(0), F(-1), F(0), F(-1), F(1)],
]
SLOTS = ['r1', 'r2', 'r3', 'r4']
NOSET = dict(kind='none', items=[])
NORXN = dict(k='none')

_th = {}


def thermo(which='P'):
    if not _th:
        chems = [tmo.Chemical(i) for i in IDS]
        _th['P'] = tmo.Thermo(tmo.Chemicals(chems), cache=False)
        _th['Q'] = tmo.Thermo(tmo.Chemicals(list(reversed(chems))), cache=False)
    return _th[which]


def fr(x):
    x = float(x)
    if x != x or x in (float('inf'), float('-inf')):
        return [0, 0]
    f = Fraction(x).limit_denominator(1 << 20)
    return [f.numerator, f.denominator]


def q(x):
    return [x.numerator, x.denominator]


def tla_constants(slots=SLOTS):
    def qq(x):
        return '<<%d, %d>>' % (x.numerator, x.denominator)
    defs = '\n'.join([
        't_AtomNames == {%s}' % ', '.join('"%s"' % a for a in ATOMS),
        't_Atoms == <<%s>>' % ', '.join('[' + ', '.join('%s |-> %d' % (a, f[a]) for a in ATOMS) + ']' for f in FORMULA),
        't_Lib == <<%s>>' % ', '.join('<<' + ', '.join(qq(x) for x in row) + '>>' for row in LIB),
        't_Slots == {%s}' % ', '.join('"%s"' % s for s in slots),
        't_Empty == {}',
    ])
    cfg = ['NC = %d' % len(IDS), 'AtomNames <- t_AtomNames', 'Atoms <- t_Atoms', 'Lib <- t_Lib', 'Slots <- t_Slots',
           'XVals <- t_Empty', 'KVals <- t_Empty', 'ModelFeeds <- t_Empty', 'Ops <- t_Empty']
    return defs, cfg


class World:
    def __init__(self, slots=SLOTS):
        self.slots = list(slots)
        self.th = thermo('P')
        self.feed = tmo.Stream(None, thermo=self.th, phase='g', T=400)
        self.rx = {s: None for s in self.slots}
        self.set = None
        self.set_kind = NONE
        self.held = []

    # ---- projection --------------------------------------------------------------------------
    def _rec(self, rxn):
        if rxn is None:
            return dict(NORXN)
        nu = rxn._stoichiometry.to_array()
        if rxn._basis == 'wt':
            with np.errstate(all='ignore'):
                nu = nu / rxn.MWs
                nu = nu / -nu[rxn._reactant_index]
        return dict(k='rxn', nu=[fr(x) for x in nu], r=int(rxn._reactant_index) + 1, X=fr(rxn.X))

    def project(self):
        m = [fr(x) for x in self.feed.imol.data.to_array()]
        S = dict(NOSET)
        if self.set is not None:
            items = []
            rs = self.set.reactions if self.set_kind == 'system' else list(self.set)
            for it in rs:
                items.append(self._rec(it))
            S = dict(kind=self.set_kind, items=items)
        return dict(m=m, Rx={s: self._rec(r) for s, r in self.rx.items()}, RS=S)

    def set_state(self, st):
        self.feed.imol.data[:] = [x[0] / x[1] for x in st['m']]
        for s in self.slots:
            r = st['Rx'][s]
            self.rx[s] = None if r['k'] == 'none' else self._make(r['nu'], r['r'], r['X'])
        S = st['RS']
        self.held = []
        if S['kind'] == 'none':
            self.set, self.set_kind = None, NONE
        else:
            rx = [self._make(i['nu'], i['r'], i['X']) for i in S['items']]
            if S['kind'] == 'system':
                self.set = tmo.ReactionSystem(*rx)
            else:
                self.set = (tmo.ParallelReaction if S['kind'] == 'parallel' else tmo.SeriesReaction)(rx)
                self.held = [self.set[i] for i in range(len(rx))]
            self.set_kind = S['kind']

    def _make(self, nu, r, X):
        dct = {IDS[i]: n[0] / n[1] for i, n in enumerate(nu) if n[0]}
        # (conversions 0 and 1 are given as Python integers, as users write them: the conversions of a set built from such
        # reactions must still take fractional values later)
        return tmo.Reaction(dct, reactant=IDS[r - 1], X=(X[0] // X[1] if X[0] % X[1] == 0 else X[0] / X[1]), chemicals=self.th.chemicals)

    # ---- operations -----------------------------------------------------------------------------
    def apply(self, op, a):
        exc, extra = NONE, {}
        before = {s: (id(r), r._basis) for s, r in self.rx.items() if r is not None}
        try:
            with warnings.catch_warnings():
                warnings.simplefilter('ignore')
                extra = self._apply(op, a) or {}
        except Exception as e:
            exc = type(e).__name__
            extra = dict(msg=str(e)[:200])
        # an object that is still in its slot keeps its basis (re-basing is only ever done on copies); the molar meaning is
        # compared by the projection, which is basis-free
        rebased = [s for s, (oid, b) in before.items() if self.rx.get(s) is not None and id(self.rx[s]) == oid and self.rx[s]._basis != b]
        obs = dict(exc=exc, same=False, reduced_m=[], held_agree=self._held_agree(), too_big=False, rebased=bool(rebased), tagged_ok=True, refused=False)
        obs.update(extra)
        return obs

    def _held_agree(self):
        """Items obtained when the set was built must still show the set's conversions (and vice versa)."""
        if self.set is None or self.set_kind == 'system' or not getattr(self, 'held', None):
            return True
        try:
            return all(abs(float(it.X) - float(self.set.X[i])) < 1e-12 and abs(float(self.set[i].X) - float(it.X)) < 1e-12
                       for i, it in enumerate(self.held))
        except Exception:
            return False

    def _as_mol(self, rxn):
        """A bare array carries no units: apply the molar form of the reaction to molar flows."""
        if isinstance(rxn, tmo.Reaction):
            return rxn.copy(basis='mol') if rxn._basis == 'wt' else rxn
        if self.set_kind == 'system':
            return tmo.ReactionSystem(*[r.copy(basis='mol') for r in rxn.reactions]) if rxn._basis == 'wt' else rxn
        return type(rxn)([r.copy(basis='mol') for r in rxn]) if rxn._basis == 'wt' else rxn

    def _react(self, rxn, how):
        feed = self.feed
        if how in ('array', 'sparse'):
            rxn = self._as_mol(rxn)
        if how == 'stream':
            rxn(feed)
        elif how == 'stream_wt':
            rxn.copy(basis='wt')(feed) if isinstance(rxn, tmo.Reaction) else self._wt_set(rxn)(feed)
        elif how == 'stream_wt_mol':
            back = rxn.copy(basis='wt').copy(basis='mol') if isinstance(rxn, tmo.Reaction) else rxn
            back(feed)
        elif how == 'stream_other_reset':
            # the reaction itself is moved to the other package, then applied to a stream of that package
            r2 = rxn.copy()
            r2.reset_chemicals(thermo('Q').chemicals)
            other = tmo.Stream(None, thermo=thermo('Q'), phase='g', T=400)
            other.copy_like(feed)
            r2(other)
            feed.copy_like(other)
        elif how == 'stream_other':
            other = tmo.Stream(None, thermo=thermo('Q'), phase='g', T=400)
            other.copy_like(feed)
            rxn(other)
            feed.copy_like(other)
        elif how == 'array':
            arr = feed.imol.data.to_array()
            rxn(arr)
            feed.imol.data[:] = arr
        elif how == 'sparse':
            sv = feed.imol.data.copy()
            rxn(sv)
            feed.imol.data[:] = sv.to_array()
        else:
            raise KeyError(how)

    def _wt_set(self, rset):
        cls = type(rset)
        if self.set_kind == 'system':
            return tmo.ReactionSystem(*[r.copy(basis='wt') for r in rset.reactions])
        return cls([r.copy(basis='wt') for r in rset])

    def _apply(self, op, a):
        R = self.rx
        val = lambda x: x[0] / x[1]
        if op == 'load':
            nu = LIB[a['i'] - 1]
            R[a['x']] = self._make([q(x) for x in nu], a['r'], a['X'])
        elif op == 'set_feed':
            self.feed.imol.data[:] = [val(x) for x in a['f']]
        elif op == 'react':
            self._react(R[a['x']], a['how'])
        elif op == 'react_set':
            self._react(self.set, a['how'])
        elif op in ('add', 'sub'):
            x, y = R[a['x']], R[a['y']]
            res = x + y if op == 'add' else x - y
            same = res is x or res is y
            R[a['d']] = res
            return dict(same=same)
        elif op == 'iadd':
            x = R[a['x']]
            x += R[a['y']]
            R[a['x']] = x
        elif op == 'isub':
            x = R[a['x']]
            x -= R[a['y']]
            R[a['x']] = x
        elif op in ('mul', 'rmul', 'div'):
            x = R[a['x']]
            k = val(a['q'])
            res = x * k if op == 'mul' else k * x if op == 'rmul' else x / k
            R[a['d']] = res
            return dict(same=res is x)
        elif op == 'imul':
            x = R[a['x']]
            x *= val(a['q'])
            R[a['x']] = x
        elif op == 'idiv':
            x = R[a['x']]
            x /= val(a['q'])
            R[a['x']] = x
        elif op == 'neg':
            res = -R[a['x']]
            same = res is R[a['x']]
            R[a['d']] = res
            return dict(same=same)
        elif op == 'copy':
            res = R[a['x']].copy()
            same = res is R[a['x']]
            R[a['d']] = res
            return dict(same=same)
        elif op == 'backwards':
            x = R[a['x']]
            res = x.backwards() if a['auto'] else x.backwards(reactant=IDS[a['p'] - 1])
            R[a['d']] = res
            return dict(same=res is x)
        elif op == 'set_X':
            R[a['x']].X = val(a['X'])
        elif op == 'mkset':
            rx = [R[s] for s in a['xs']]
            if len({r._basis for r in rx}) > 1:      # a set needs one basis: re-base the members (value unchanged)
                rx = [r.copy(basis='mol') for r in rx]
            if a['kind'] == 'system':
                self.set = tmo.ReactionSystem(*[r.copy() for r in rx])
            else:
                self.set = (tmo.ParallelReaction if a['kind'] == 'parallel' else tmo.SeriesReaction)(rx)
            self.set_kind = a['kind']
            self.held = [self.set[i] for i in range(len(rx))] if a['kind'] != 'system' else []
        elif op == 'item_imul':
            it = self.held[a['i'] - 1] if rng_choice(a) else self.set[a['i'] - 1]
            it *= val(a['q'])
        elif op == 'item_idiv':
            it = self.held[a['i'] - 1] if rng_choice(a) else self.set[a['i'] - 1]
            it /= val(a['q'])
        elif op == 'set_assign_X':
            self.set.X = [val(x) for x in a['Xs']]
        elif op == 'reduce':
            red = self.set.reduce()
            f = tmo.Stream(None, thermo=self.th, phase='g', T=400)
            f.copy_like(self.feed)
            tmo.reaction.CHECK_FEASIBILITY = False
            try:
                red.force_reaction(f)
            finally:
                tmo.reaction.CHECK_FEASIBILITY = True
            return dict(reduced_m=[fr(x) for x in f.imol.data.to_array()])
        elif op == 'set_copy':
            cp = self.set.copy() if a['basis'] == NONE else self.set.copy(basis=a['basis'])
            f = tmo.Stream(None, thermo=self.th, phase='g', T=400)
            f.copy_like(self.feed)
            tmo.reaction.CHECK_FEASIBILITY = False
            try:
                cp.force_reaction(f)
            finally:
                tmo.reaction.CHECK_FEASIBILITY = True
            return dict(reduced_m=[fr(x) for x in f.imol.data.to_array()], same=cp is self.set)
        elif op == 'system_rebased':
            members = [r.copy() for r in self.set.reactions]
            sys2 = tmo.ReactionSystem(*members)
            for r in members:
                r.basis = a['basis']
            f = tmo.Stream(None, thermo=self.th, phase='g', T=400)
            f.copy_like(self.feed)
            tmo.reaction.CHECK_FEASIBILITY = False
            try:
                sys2(f)
            except RuntimeError as e:
                return dict(refused=True, msg=str(e)[:100])
            finally:
                tmo.reaction.CHECK_FEASIBILITY = True
            return dict(reduced_m=[fr(x) for x in f.imol.data.to_array()], refused=False)
        elif op == 'tagged_probe':
            # the same reaction with every chemical tagged with the gas phase (2-d stoichiometry): copying, re-basing, scaling and
            # combining must leave the operand as it was (stoichiometry array, basis, conversion) and return new objects
            rec = self._rec(R[a['x']])
            def build():
                terms = lambda sign: ' + '.join('%r %s,g' % (abs(n[0] / n[1]), IDS[i]) for i, n in enumerate(rec['nu']) if n[0] * sign > 0)
                return tmo.Reaction('%s -> %s' % (terms(-1), terms(1)), reactant=IDS[rec['r'] - 1], X=rec['X'][0] / rec['X'][1], chemicals=self.th.chemicals)
            T = build()
            snap = (T._stoichiometry.to_array().copy(), T._basis, float(T.X))
            how = a['how']
            if how == 'copy_basis':
                c = T.copy(basis='wt')
            elif how == 'copy_then_set':
                c = T.copy()
                c.basis = 'wt'
            elif how == 'add_other_basis':
                U = build()
                U.basis = 'wt'
                c = T + U
            elif how == 'imul_copy':
                c = T.copy()
                c *= 2.
            else:
                c = -T
            same = c is T
            ok = (not same) and np.allclose(T._stoichiometry.to_array(), snap[0], rtol=1e-12, atol=1e-12) and T._basis == snap[1] and float(T.X) == snap[2]
            return dict(tagged_ok=bool(ok))
        elif op == 'to_mol':
            res = R[a['x']].copy(basis='mol')
            same = res is R[a['x']]
            R[a['d']] = res
            return dict(same=same)
        elif op == 'to_wt':
            res = R[a['x']].copy(basis='wt')
            same = res is R[a['x']]
            R[a['d']] = res
            return dict(same=same)
        elif op == 'item_set_X':
            self.set[a['i'] - 1].X = val(a['X'])
            return dict(agree=bool(abs(float(self.set.X[a['i'] - 1]) - val(a['X'])) < 1e-12))
        elif op == 'set_set_X':
            self.set.X[a['i'] - 1] = val(a['X'])
            return dict(agree=bool(abs(float(self.set[a['i'] - 1].X) - val(a['X'])) < 1e-12))
        else:
            raise KeyError(op)


def rng_choice(a):
    return bool(a.get('held', True))


# ---- random operations ---------------------------------------------------------------------------------

XV = [F(0), F(1, 4), F(1, 2), F(3, 4), F(1)]
KV = [F(1, 2), F(2), F(3), F(1, 4)]


def random_op(rng, st, ops, slots=SLOTS):
    op = rng.choice(ops)
    loaded = [s for s in slots if st['Rx'][s]['k'] == 'rxn']
    x = rng.choice(loaded) if loaded and op not in ('load',) else rng.choice(slots)
    if op == 'load':
        i = rng.randint(1, len(LIB))
        reactants = [c + 1 for c, v in enumerate(LIB[i - 1]) if v < 0]
        return op, dict(x=rng.choice(slots), i=i, r=rng.choice(reactants), X=q(rng.choice(XV)))
    if op == 'set_feed':
        return op, dict(f=[q(F(rng.choice([0, 0, 1, 2, 4, 8]))) for _ in IDS])
    if op == 'react':
        return op, dict(x=x, how=rng.choice(['stream', 'stream', 'stream_wt', 'stream_wt_mol', 'stream_other', 'stream_other_reset', 'array', 'sparse']))
    if op == 'react_set':
        return op, dict(how=rng.choice(['stream', 'stream_wt', 'array']))
    if op in ('add', 'sub', 'iadd', 'isub'):
        same_r = [s for s in loaded if st['Rx'][s]['r'] == st['Rx'][x]['r']] if loaded else slots
        y = rng.choice(same_r or slots)
        if op in ('sub', 'isub') and y == x and len(same_r) > 1:
            y = rng.choice([s for s in same_r if s != x])
        a = dict(x=x, y=y)
        if op in ('add', 'sub'):
            a['d'] = rng.choice(slots)
        return op, a
    if op in ('mul', 'rmul', 'div'):
        return op, dict(d=rng.choice(slots), x=x, q=q(rng.choice(KV)))
    if op in ('imul', 'idiv'):
        return op, dict(x=x, q=q(rng.choice(KV)))
    if op in ('neg', 'copy'):
        return op, dict(d=rng.choice(slots), x=x)
    if op == 'backwards':
        nu = st['Rx'][x].get('nu') or []
        prods = [c + 1 for c, v in enumerate(nu) if v[0] > 0] or [1]
        return op, dict(d=rng.choice(slots), x=x, p=rng.choice(prods), auto=(len(prods) == 1 and rng.random() < 0.6))
    if op == 'set_X':
        return op, dict(x=x, X=q(rng.choice(XV)))
    if op == 'mkset':
        n = rng.randint(1, 3)
        return op, dict(kind=rng.choice(['parallel', 'series', 'system']), xs=[rng.choice(loaded or slots) for _ in range(n)])
    if op in ('item_imul', 'item_idiv'):
        n = len(st['RS']['items'])
        return op, dict(i=rng.randint(1, max(n, 1)), q=q(rng.choice(KV)), held=rng.random() < 0.5)
    if op == 'set_assign_X':
        n = len(st['RS']['items'])
        return op, dict(Xs=[q(rng.choice(XV)) for _ in range(n)])
    if op == 'reduce':
        return op, dict()
    if op == 'set_copy':
        return op, dict(basis=rng.choice([NONE, 'wt', 'wt', 'mol']))
    if op == 'system_rebased':
        return op, dict(basis=rng.choice(['wt', 'wt', 'mol']))
    if op == 'tagged_probe':
        return op, dict(x=x, how=rng.choice(['copy_basis', 'copy_then_set', 'add_other_basis', 'imul_copy', 'neg']))
    if op in ('to_wt', 'to_mol'):
        return op, dict(d=rng.choice(slots), x=x)
    if op in ('item_set_X', 'set_set_X'):
        n = len(st['RS']['items'])
        return op, dict(i=rng.randint(1, max(n, 1)), X=q(rng.choice(XV)))
    raise KeyError(op)
