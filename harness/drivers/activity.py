"""Driver binding spec/Activity.tla to thermosteam's activity-coefficient objects (C16)."""
import warnings

import numpy as np

import thermosteam as tmo
from thermosteam.equilibrium import activity_coefficients as ac
from thermosteam.equilibrium import fugacity_coefficients as fc

MODULE = 'Activity'
NONE = 'none'
GROUPED = ['Water', 'Ethanol', 'Octane', 'Butanol', 'EthylAcetate', 'Acetone', 'Toluene']
PLAIN = ['NaCl', 'CaO', 'N2']
MODELS = {'UNIFAC': ac.UNIFACActivityCoefficients, 'Dortmund': ac.DortmundActivityCoefficients, 'NIST': ac.NISTActivityCoefficients,
          'Ideal': ac.IdealActivityCoefficients}
_ch = {}


def chem(ID):
    if not _ch:
        for c in tmo.Chemicals(GROUPED + PLAIN):
            _ch[c.ID] = c
    return _ch[ID]


def tla_constants():
    defs = 't_E == {}'
    return defs, ['Chems <- t_E', 'Grouped <- t_E', 'Weights <- t_E', 'Deviations <- t_E', 'Ops <- t_E',
                  'UnitTol = 0', 'PureTol = 1000', 'GDTol = 100000', 'PermTol = 10', 'FormTol = 10']


def cap(v):
    v = float(v)
    if v != v:
        return 2 * 10 ** 9
    return int(min(abs(v), 2e9))


def random_x(rng, n, kind):
    if kind == 'vertex':
        x = np.zeros(n)
        x[rng.randrange(n)] = 1.
    elif kind == 'near':
        x = np.full(n, 1e-6 / (n - 1))
        x[rng.randrange(n)] = 1. - 1e-6
    elif kind == 'trace':
        x = np.array([rng.random() for _ in range(n)])
        x[rng.randrange(n)] = 1e-9
        x /= x.sum()
    elif kind == 'edge':
        x = np.array([rng.random() for _ in range(n)])
        x[rng.randrange(n)] = 0.
        x /= x.sum()
    else:
        x = np.array([0.02 + rng.random() for _ in range(n)])
        x /= x.sum()
    return x


def evaluate(model, ids, x, T, perm, gd_dir):
    """all measured quantities of one evaluation (see Activity.tla)"""
    obs = dict(exc=NONE, msg='', unchanged=True, nogroup_dev=0, ideal_dev=0, pure_dev=0, gd=0, perm=0, form=0)
    try:
        with warnings.catch_warnings():
            warnings.simplefilter('ignore')
            with np.errstate(all='ignore'):
                cls = MODELS[model]
                chems = tuple(chem(i) for i in ids)
                g = cls(chems)
                xc = np.array(x, float)
                x0 = xc.copy()
                gam = np.asarray(g(xc, T), float) * np.ones(len(ids))
                obs['unchanged'] = bool(np.array_equal(xc, x0))
                xc = x0.copy()
                has = set()
                if model in ('UNIFAC', 'Dortmund', 'NIST'):
                    idx, _ = ac.get_chemgroups(chems, cls.group_name)
                    has = set(idx) if len(idx) > 1 else set()
                plain = [j for j in range(len(ids)) if j not in has]
                if plain:
                    obs['nogroup_dev'] = cap(np.abs(gam[plain] - 1.).max() * 1e9) if not np.all(gam[plain] == 1.) else 0
                    if obs['nogroup_dev'] == 0 and not np.all(gam[plain] == 1.):
                        obs['nogroup_dev'] = 1
                # functional form used by the flash solvers
                fv = np.asarray(g.f(x0.copy(), T, *g.args), float) * np.ones(len(ids))
                obs['form'] = cap((np.abs(fv - gam) / np.maximum(np.abs(gam), 1e-300)).max() * 1e9)
                # another order of the chemical list
                p = list(perm)
                g2 = cls(tuple(chems[k] for k in p))
                gam2 = np.asarray(g2(x0[p].copy(), T), float) * np.ones(len(ids))
                obs['perm'] = cap((np.abs(gam2 - gam[p]) / np.maximum(np.abs(gam[p]), 1e-300)).max() * 1e9)
                # pure limit
                hi = int(np.argmax(x0))
                if x0[hi] >= 1. - 1e-6:
                    obs['pure_dev'] = cap(abs(gam[hi] - 1.) * 1e9)
                # Gibbs-Duhem along a direction inside the simplex (interior points only)
                if gd_dir is not None and x0.min() > 1e-3:
                    d = np.array(gd_dir, float)
                    d -= d.mean()
                    d /= np.abs(d).max()
                    h = 1e-5
                    lp = np.log(np.asarray(g(x0 + h * d, T), float) * np.ones(len(ids)))
                    lm = np.log(np.asarray(g(x0 - h * d, T), float) * np.ones(len(ids)))
                    dl = (lp - lm) / (2 * h)
                    scale = max((x0 * np.abs(dl)).sum(), 1e-3)
                    obs['gd'] = cap(abs((x0 * dl).sum()) / scale * 1e9)
    except Exception as e:
        obs['exc'], obs['msg'] = type(e).__name__, str(e)[:160]
    return obs


def ideal_models(ids, x, T, P):
    obs = dict(exc=NONE, msg='', unchanged=True, nogroup_dev=0, ideal_dev=0, pure_dev=0, gd=0, perm=0, form=0)
    try:
        chems = tuple(chem(i) for i in ids)
        vals = []
        a = ac.IdealActivityCoefficients(chems)
        vals += [np.asarray(a(np.array(x), T), float).ravel(), np.asarray(a.f(np.array(x), T, *a.args), float).ravel()]
        p = fc.IdealFugacityCoefficients(chems)
        vals += [np.asarray(p(np.array(x), T, P), float).ravel(), np.asarray(p.f(np.array(x), T, P, *p.args), float).ravel()]
        pcf = tmo.equilibrium.poyinting_correction_factors.MockPoyintingCorrectionFactors(chems)
        vals += [np.asarray(pcf(T, P), float).ravel()]
        if hasattr(pcf, 'f'):
            vals += [np.asarray(pcf.f(T, P, *getattr(pcf, 'args', ())), float).ravel()]
        # what a call returns belongs to the caller: the caller uses the returned values in place (as the flash solvers do with
        # K = gamma * ...), then asks again - the models must still return one
        def use(r):
            if isinstance(r, np.ndarray) and r.flags.writeable:
                r *= 3.
        use(a(np.array(x), T)); use(a.f(np.array(x), T, *a.args)); use(p(np.array(x), T, P)); use(p.f(np.array(x), T, P, *p.args)); use(pcf(T, P))
        vals += [np.asarray(a(np.array(x), T), float).ravel(), np.asarray(a.f(np.array(x), T, *a.args), float).ravel(),
                 np.asarray(p(np.array(x), T, P), float).ravel(), np.asarray(p.f(np.array(x), T, P, *p.args), float).ravel(),
                 np.asarray(pcf(T, P), float).ravel()]
        allv = np.concatenate(vals)
        obs['ideal_dev'] = 0 if np.all(allv == 1.) else max(1, cap(np.abs(allv - 1.).max() * 1e9))
    except Exception as e:
        obs['exc'], obs['msg'] = type(e).__name__, str(e)[:160]
    return obs
