"""Driver binding spec/Indexer.tla to thermosteam indexers (C10)."""
import itertools
import random
import warnings

import numpy as np

import thermosteam as tmo
from thermosteam import indexer as ix

MODULE = 'Indexer'
NONE = 'none'

_chem_cache = {}


def chem(ID, pool=''):
    """Chemical objects, one pool per package family (set_alias writes the alias onto the Chemical object)."""
    if (pool, ID) not in _chem_cache:
        _chem_cache[pool, ID] = tmo.Chemical(ID)
    return _chem_cache[pool, ID]


UNIVERSES = {
    'mc': dict(chems=['Water', 'Ethanol', 'Methanol'], aliases={'Aqua': 'Water'},
               groups={'Alc': (['Methanol', 'Ethanol'], [[1, 4], [3, 4]])}, phases=['g', 'l'], multi=True),
    'mcq': dict(chems=['Water', 'Ethanol', 'Methanol'], aliases={'Aqua': 'Water'},
                groups={'Alc': (['Ethanol', 'Methanol'], [[1, 2], [1, 2]])}, phases=['l'], multi=True),
    'mc1': dict(chems=['Water', 'Ethanol', 'Methanol'], aliases={'Aqua': 'Water'},
                groups={'Alc': (['Ethanol', 'Methanol'], [[1, 2], [1, 2]])}, phases=['x'], multi=False),
    'big': dict(chems=['Water', 'Ethanol', 'Methanol', 'Glycerol', 'Propanol', 'Octane', 'Hexane', 'Butanol'],
                aliases={'Aqua': 'Water', 'EtOH': 'Ethanol', 'C8': 'Octane'},
                groups={'Alc': (['Ethanol', 'Methanol', 'Propanol', 'Butanol'], [[1, 4], [1, 4], [1, 4], [1, 4]]),
                        'HC': (['Hexane', 'Octane'], [[1, 4], [3, 4]]), 'Mix': (['Butanol', 'Water', 'Glycerol'], [[1, 2], [1, 4], [1, 4]]),
                        'Lean': (['Octane', 'Glycerol', 'Ethanol'], [[3, 4], [0, 1], [1, 4]])},      # a member with zero share
                phases=['g', 'l', 's'], multi=True),
    'big1': dict(chems=['Water', 'Ethanol', 'Methanol', 'Glycerol', 'Propanol', 'Octane', 'Hexane', 'Butanol'],
                 aliases={'Aqua': 'Water', 'EtOH': 'Ethanol', 'C8': 'Octane'},
                 groups={'Alc': (['Ethanol', 'Methanol', 'Propanol', 'Butanol'], [[1, 4], [1, 4], [1, 4], [1, 4]]),
                         'HC': (['Hexane', 'Octane'], [[1, 4], [3, 4]]), 'Mix': (['Butanol', 'Water', 'Glycerol'], [[1, 2], [1, 4], [1, 4]]),
                         'Lean': (['Octane', 'Glycerol', 'Ethanol'], [[3, 4], [0, 1], [1, 4]])},
                 phases=['x'], multi=False),
}


def names_of(universe):
    """name -> 1-based position (IDs, CAS numbers, aliases)."""
    out = {}
    for i, ID in enumerate(universe['chems'], 1):
        out[ID] = i
        out[chem(ID).CAS] = i
    for alias, ID in universe['aliases'].items():
        out[alias] = universe['chems'].index(ID) + 1
    return out


def cas_of(universe, ID):
    return chem(ID).CAS


def tla_set(items):
    return '{' + ', '.join(items) + '}'


def tla_str(s):
    return '"%s"' % s


def tla_seq(items):
    return '<<' + ', '.join(items) + '>>'


def tla_key(ck):
    if ck['k'] == 'name':
        return '[k |-> "name", n |-> %s]' % tla_str(ck['n'])
    if ck['k'] == 'tuple':
        return '[k |-> "tuple", ns |-> %s]' % tla_seq(tla_str(n) for n in ck['ns'])
    return '[k |-> "%s"]' % ck['k']


def tla_constants(universe, capc=100, capm=500, trimm=100, deviations=(), values=(), model_keys=(), cas_tuples=(), ops=()):
    names = names_of(universe)
    nm = sorted(names)
    groups = sorted(universe['groups'])

    def case(items, f):
        return 'CASE ' + ' [] '.join(f(x) for x in items)
    defs = [
        't_Names == ' + tla_set(tla_str(n) for n in nm),
        't_NameIdx == [n \\in t_Names |-> ' + case(nm, lambda n: 'n = %s -> %d' % (tla_str(n), names[n])) + ']',
        't_Groups == ' + tla_set(tla_str(g) for g in groups),
        't_GroupIdx == [g \\in t_Groups |-> ' + case(groups, lambda g: 'g = %s -> %s' % (
            tla_str(g), tla_seq(str(universe['chems'].index(c) + 1) for c in universe['groups'][g][0]))) + ']',
        't_GroupComp == [g \\in t_Groups |-> ' + case(groups, lambda g: 'g = %s -> %s' % (
            tla_str(g), tla_seq('<<%d, %d>>' % tuple(q) for q in universe['groups'][g][1]))) + ']',
        't_Phases == ' + tla_seq(tla_str(p) for p in universe['phases']),
        't_Deviations == ' + tla_set(tla_str(d) for d in deviations),
        't_Values == ' + tla_set(str(v) for v in values),
        't_ModelKeys == ' + tla_set(tla_key(k) for k in model_keys),
        't_CasTuples == ' + tla_set(tla_seq(tla_str(n) for n in q) for q in cas_tuples),
        't_Ops == ' + tla_set(tla_str(o) for o in ops),
    ]
    cfg = ['N = %d' % len(universe['chems']), 'Names <- t_Names', 'NameIdx <- t_NameIdx', 'Groups <- t_Groups',
           'GroupIdx <- t_GroupIdx', 'GroupComp <- t_GroupComp', 'Phases <- t_Phases',
           'Multi = %s' % ('TRUE' if universe['multi'] else 'FALSE'),
           'CapC = %d' % capc, 'CapM = %d' % capm, 'TrimM = %d' % trimm, 'Deviations <- t_Deviations',
           'Values <- t_Values', 'ModelKeys <- t_ModelKeys', 'CasTuples <- t_CasTuples', 'Ops <- t_Ops']
    return '\n'.join(defs), cfg


def mc_files(universe, name, invariants, **kw):
    """Generated MC module + cfg for a driver universe."""
    defs, cfg = tla_constants(universe, **kw)
    mod = '---- MODULE %s ----\nEXTENDS Indexer\n%s\n====\n' % (name, defs)
    cfgt = 'SPECIFICATION Spec\nVIEW view\nCHECK_DEADLOCK FALSE\nCONSTANTS\n' + '\n'.join('  ' + c for c in cfg) + '\n'
    cfgt += ''.join('INVARIANT %s\n' % i for i in invariants)
    return {name + '.tla': mod, name + '.cfg': cfgt}


def val(x):
    x = float(x)
    r = round(x)
    if abs(x - r) < 1e-9:
        return int(r)
    return int(x * 1000003)   # non-integral where the contract makes everything integral: forces a mismatch


def tensor(res):
    if hasattr(res, 'to_array'):
        res = res.to_array()
    a = np.asarray(res, dtype=float)
    if a.ndim == 0:
        return dict(nd=0, e=val(a))
    if a.ndim == 1:
        return dict(nd=1, e=[val(x) for x in a])
    return dict(nd=2, e=[[val(x) for x in r] for r in a])


class World:
    def __init__(self, universe):
        self.universe = universe
        chems = tmo.Chemicals([chem(i) for i in universe['chems']])
        chems.compile(skip_checks=True)
        self.chemicals = chems = chems if isinstance(chems, tmo.CompiledChemicals) else tmo.CompiledChemicals(chems)
        for alias, ID in universe['aliases'].items():
            chems.set_alias(ID, alias)
        for g, (IDs, comp) in universe['groups'].items():
            chems.define_group(g, IDs, composition=[q[0] / q[1] for q in comp])
        # a second property package listing the shared chemicals in another order
        other = tmo.Chemicals([chem(i) for i in reversed(universe['chems'])])
        other.compile(skip_checks=True)
        self.other_chemicals = other
        if universe['multi']:
            self.ind = ix.MolarFlowIndexer.blank(tuple(universe['phases']), chems)
            assert list(self.ind.phases) == list(universe['phases']), 'universe phases must be listed in the library order'
        else:
            self.ind = ix.ChemicalMolarFlowIndexer.blank('l', chems)
        self.names = names_of(universe)
        # a twin package: same chemical IDs, but every alias and group means something else
        twin = tmo.Chemicals([chem(i, 'twin') for i in universe['chems']])
        twin.compile(skip_checks=True)
        ids = universe['chems']
        for alias, ID in universe['aliases'].items():
            twin.set_alias(ids[(ids.index(ID) + 1) % len(ids)], alias)
        for g, (IDs, comp) in universe['groups'].items():
            members = [ids[(ids.index(i) + 1) % len(ids)] for i in IDs]
            twin.define_group(g, members, composition=[q[0] / q[1] for q in reversed(comp)])
        self.twin_chemicals = twin
        if universe['multi']:
            self.twin = ix.MolarFlowIndexer.blank(tuple(universe['phases']), twin)
        else:
            self.twin = ix.ChemicalMolarFlowIndexer.blank('l', twin)

    def project(self):
        if self.universe['multi']:
            data = {p: [val(x) for x in row] for p, row in zip(self.ind.phases, self.ind.data.to_array())}
            data = {p: data[p] for p in self.universe['phases']}
        else:
            data = {'x': [val(x) for x in self.ind.data.to_array()]}
        return dict(data=data, cacheC=[], cacheM=[])

    def set_state(self, st):
        if self.universe['multi']:
            for p in self.universe['phases']:
                self.ind[p] = [float(x) for x in st['data'][p]]
        else:
            self.ind[...] = [float(x) for x in st['data']['x']]

    def pykey(self, key, use_list=False):
        c = key['c']
        if c['k'] == 'name':
            ck = c['n']
        elif c['k'] == 'tuple':
            ck = list(c['ns']) if use_list else tuple(c['ns'])
        elif c['k'] == 'all':
            ck = ...
        else:
            ck = None
        p = key['p']
        if p in ('nophase', 'sum'):
            return ck
        ph = ... if p == 'all' else p
        if ck is None:
            return ph
        return (ph, ck)

    def apply(self, op, a):
        res = None
        exc = NONE
        try:
            with warnings.catch_warnings():
                warnings.simplefilter('ignore')
                if op == 'get':
                    res = self.ind[self.pykey(a['key'], a.get('as_list', False))]
                elif op == 'set':
                    v = a['v']
                    value = float(v['e']) if v['nd'] == 0 else [float(x) for x in v['e']]
                    if a.get('as_array') and v['nd'] == 1:
                        value = np.array(value)
                    self.ind[self.pykey(a['key'], a.get('as_list', False))] = value
                elif op == 'twin_get':
                    # the same key looked up on an indexer of the twin package (not judged: it only exercises
                    # whatever lookup state the two packages might share)
                    try:
                        self.twin[self.pykey(a['key'], a.get('as_list', False))]
                    except Exception:
                        pass
                elif op == 'overlap':
                    scratch = ix.ChemicalMolarFlowIndexer.blank('l', self.chemicals)
                    other = ix.ChemicalMolarFlowIndexer.blank('l', self.other_chemicals)
                    for n in a['names']:
                        other.data.dct[self.other_chemicals.index(n)] = 1.   # insertion order = order of names
                    scratch.mix_from([other])
                else:
                    raise KeyError(op)
        except Exception as e:
            exc = type(e).__name__
        # the sparse storage must only hold integer positions inside the array: anything else is reported as a failure of the
        # call and removed so that the state can still be read
        n = len(self.universe['chems'])
        rows = self.ind.data.rows if self.universe['multi'] else [self.ind.data]
        for row in rows:
            bad = [k for k in list(row.dct) if not (isinstance(k, (int, np.integer)) and 0 <= k < n)]
            for k in bad:
                del row.dct[k]
                exc = 'CorruptStorage'
        if res is not None:
            try:
                tensor(res)
            except Exception:
                res, exc = None, 'UnreadableResult'
        sizes = dict(cacheC=len(self.chemicals._index_cache),
                     cacheM=len(getattr(self.ind, '_index_cache', {})) if self.universe['multi'] else 0)
        return dict(exc=exc, res=dict(nd=-1, e=[]) if res is None else tensor(res), cache_sizes=sizes)


# ---- key / operation generation -----------------------------------------------------------------

def all_names(universe):
    return sorted(names_of(universe)) + sorted(universe['groups'])


def random_chemkey(universe, rng, max_len=4, undefined=0.02):
    names = all_names(universe)
    r = rng.random()
    if r < undefined:
        return dict(k='name', n='NoSuchChemical')
    if r < 0.3:
        return dict(k='name', n=rng.choice(names))
    if r < 0.36:
        return dict(k='all')
    ln = rng.randint(1, max_len)
    return dict(k='tuple', ns=[rng.choice(names) for _ in range(ln)])


def random_key(universe, rng, max_len=4):
    ck = random_chemkey(universe, rng, max_len)
    if not universe['multi']:
        return dict(p='nophase', c=ck)
    r = rng.random()
    if r < 0.35:
        return dict(p='sum', c=ck)
    if r < 0.45:
        return dict(p=rng.choice(universe['phases']), c=dict(k='none'))
    if r < 0.55:
        return dict(p='all', c=ck)
    return dict(p=rng.choice(universe['phases']), c=ck)


def resolve_len(universe, ck):
    if ck['k'] == 'tuple':
        return len(ck['ns'])
    if ck['k'] == 'name' and ck['n'] in universe['groups']:
        return len(universe['groups'][ck['n']][0])
    return len(universe['chems'])


_last_overlap = []


def random_op(universe, rng, max_len=4):
    r = rng.random()
    if _last_overlap and r < 0.12:
        names = list(_last_overlap[-1])
        how = rng.choice(['sorted', 'reversed', 'same', 'shuffled'])
        if how == 'sorted':
            names.sort()
        elif how == 'reversed':
            names.sort(reverse=True)
        elif how == 'shuffled':
            rng.shuffle(names)
        ck = dict(k='tuple', ns=names)
        key = dict(p='nophase', c=ck) if not universe['multi'] else dict(p=rng.choice(['sum'] + universe['phases']), c=ck)
        if rng.random() < 0.5:
            return 'get', dict(key=key, as_list=rng.random() < 0.3)
        return 'set', dict(key=key, v=dict(nd=1, e=[4 * rng.randint(0, 5) for _ in names]), as_list=False, as_array=rng.random() < 0.5)
    if r < 0.2:
        return 'twin_get', dict(key=random_key(universe, rng, max_len), as_list=rng.random() < 0.3)
    if r < 0.55:
        return 'get', dict(key=random_key(universe, rng, max_len), as_list=rng.random() < 0.3)
    if r < 0.93:
        key = random_key(universe, rng, max_len)
        if rng.random() < 0.5 or key['c']['k'] == 'name' and key['c']['n'] not in universe['groups']:
            v = dict(nd=0, e=4 * rng.randint(0, 5))
        else:
            v = dict(nd=1, e=[4 * rng.randint(0, 5) for _ in range(resolve_len(universe, key['c']))])
        return 'set', dict(key=key, v=v, as_list=rng.random() < 0.3, as_array=rng.random() < 0.5)
    ids = rng.sample(universe['chems'], rng.randint(1, min(3, len(universe['chems']))))
    names = [cas_of(universe, i) for i in ids]
    _last_overlap.append(names)
    del _last_overlap[:-3]
    return 'overlap', dict(names=names)
