"""Driver binding spec/Flowsheet.tla to thermosteam.network (C18).

Executes operations (chosen by TLC, or candidates enumerated at TLC-dumped states) on real
AbstractUnit/AbstractStream objects and records the projected abstract state."""
import itertools
import random
import warnings

import thermosteam as tmo
from thermosteam import network as nw

MODULE = 'Flowsheet'
tmo.settings.set_thermo([], cache=False)
M = 'missing'
NONE = 'none'

# unit universe used by MC_Flowsheet (must agree with spec/MC_Flowsheet.tla)
UNIVERSES = {
    'mc2': dict(units={'A': (2, 1, True, True), 'B': (1, 1, False, True), 'C': (1, 2, True, False)},
                streams=['s1', 's2']),
    'mc3': dict(units={'A': (2, 1, True, True), 'B': (1, 1, False, True), 'C': (1, 2, True, False)},
                streams=['s1', 's2', 's3']),
    'mc4': dict(units={'A': (2, 1, True, True), 'B': (1, 1, False, True), 'C': (1, 2, True, False)},
                streams=['s1', 's2', 's3', 's4']),
    'mc5': dict(units={'A': (2, 1, True, True), 'B': (1, 1, False, True), 'C': (1, 2, True, False)},
                streams=['s1', 's2', 's3', 's4', 's5']),
    'big': dict(units={'A': (2, 1, True, True), 'B': (1, 1, False, True), 'C': (1, 2, True, False),
                       'D': (1, 1, True, True), 'E': (2, 2, False, False), 'F': (3, 2, True, True)},
                streams=['s%d' % i for i in range(1, 11)], same_ids=True),
}

_classes = {}


def unit_class(n_ins, n_outs, ins_fixed, outs_fixed):
    key = (n_ins, n_outs, ins_fixed, outs_fixed)
    if key not in _classes:
        _classes[key] = type('U_%d_%d_%d_%d' % (n_ins, n_outs, ins_fixed, outs_fixed), (tmo.AbstractUnit,),
                             dict(_N_ins=n_ins, _N_outs=n_outs, _ins_size_is_fixed=ins_fixed,
                                  _outs_size_is_fixed=outs_fixed))
    return _classes[key]


def tla_constants(universe, max_len=50, max_xs=4, ops=None):
    """(constdefs text, cfg constant lines) giving the universe as literal TLA+ constants."""
    U = universe['units']
    names = sorted(U)

    def fn(idx, conv):
        return '[u \\in t_Units |-> CASE ' + ' [] '.join('u = "%s" -> %s' % (n, conv(U[n][idx])) for n in names) + ']'
    b = lambda v: 'TRUE' if v else 'FALSE'
    defs = '\n'.join([
        't_Units == {%s}' % ', '.join('"%s"' % n for n in names),
        't_Streams == {%s}' % ', '.join('"%s"' % s for s in universe['streams']),
        't_NIns == ' + fn(0, str), 't_NOuts == ' + fn(1, str),
        't_InsFixed == ' + fn(2, b), 't_OutsFixed == ' + fn(3, b),
        't_Ops == {}',
    ])
    cfg = ['Units <- t_Units', 'Streams <- t_Streams', 'NIns <- t_NIns', 'NOuts <- t_NOuts',
           'InsFixed <- t_InsFixed', 'OutsFixed <- t_OutsFixed', 'MaxLen = %d' % max_len,
           'MaxXs = %d' % max_xs, 'Ops <- t_Ops']
    return defs, cfg


class World:
    def __init__(self, universe):
        self.universe = universe
        self.streams = {s: tmo.AbstractStream('.' + s) for s in universe['streams']}
        self.names = {id(v): k for k, v in self.streams.items()}
        self.units = {}
        for n, spec in universe['units'].items():
            # (universes may give every unit the SAME unregistered ID: units are told apart by identity, never by name)
            self.units[n] = unit_class(*spec)('.U' if universe.get('same_ids') else '.' + n, ins=None, outs=None)

    # ---- abstract state -------------------------------------------------
    def _name(self, obj):
        if isinstance(obj, nw.AbstractMissingStream) or not obj:
            return M
        return self.names.get(id(obj), 'foreign')

    def _unit_name(self, u):
        if u is None:
            return NONE
        for n, v in self.units.items():
            if v is u:
                return n
        return 'foreign'

    def project(self):
        ins = {n: [self._name(s) for s in u.ins] for n, u in self.units.items()}
        outs = {n: [self._name(s) for s in u.outs] for n, u in self.units.items()}
        sink = {n: self._unit_name(s.sink) for n, s in self.streams.items()}
        source = {n: self._unit_name(s.source) for n, s in self.streams.items()}
        return dict(ins=ins, outs=outs, sink=sink, source=source)

    def placeholder_defects(self):
        """Placeholders must report no material and belong to their port's unit."""
        bad = []
        for n, u in self.units.items():
            for side, port in (('in', u.ins), ('out', u.outs)):
                for i, s in enumerate(port):
                    if isinstance(s, nw.AbstractMissingStream):
                        owner = s.sink if side == 'in' else s.source
                        if bool(s) or owner is not u:
                            bad.append([n, side, i + 1])
                    elif not isinstance(s, nw.AbstractStream):
                        bad.append([n, side, i + 1])
        return bad

    def shared_placeholders(self):
        """Placeholder objects sitting in two ports (a stream-less connection between two units).  The model's
        placeholders are anonymous, so steps taken from such a state are not judged (obs.suspend)."""
        seen = set()
        for u in self.units.values():
            for port in (u.ins, u.outs):
                for s in port:
                    if isinstance(s, nw.AbstractMissingStream):
                        if id(s) in seen:
                            return True
                        seen.add(id(s))
        return False

    # ---- state construction --------------------------------------------
    def set_state(self, st):
        """Put the real objects directly into abstract state st (used for TLC-dumped states)."""
        for s in self.streams.values():
            s._sink = None
            s._source = None
        for n, u in self.units.items():
            for side, port, key in (('in', u._ins, 'ins'), ('out', u._outs, 'outs')):
                lst = []
                for x in st[key][n]:
                    if x == M:
                        lst.append(port._create_missing_stream())
                    else:
                        s = self.streams[x]
                        if side == 'in':
                            s._sink = u
                        else:
                            s._source = u
                        lst.append(s)
                port._streams = lst

    # ---- operations -------------------------------------------------------
    def _port(self, side, u):
        unit = self.units[u]
        return unit.ins if side == 'in' else unit.outs

    def _x(self, x):
        return None if x == M else self.streams[x]

    def apply(self, op, a):
        """Apply one operation through the public API.  Returns obs dict."""
        res = NONE
        exc = NONE
        suspend = self.shared_placeholders()
        try:
            with warnings.catch_warnings():
                warnings.simplefilter('ignore')
                res = self._apply(op, a)
        except Exception as e:  # recorded, judged by the spec
            exc = type(e).__name__
        return dict(exc=exc, res=res, ph_bad=self.placeholder_defects(), suspend=suspend)

    def _apply(self, op, a):
        S = self.streams
        U = self.units
        if op == 'setitem':
            self._port(a['side'], a['u'])[a['i'] - 1] = self._x(a['x'])
        elif op == 'setitem_ph':
            ph = self._port(a['side'], a['v'])[a['j'] - 1]
            assert isinstance(ph, nw.AbstractMissingStream)
            self._port(a['side'], a['u'])[a['i'] - 1] = ph
        elif op == 'pipe':
            if a['side'] == 'in':
                S[a['x']] - (a['i'] - 1) - U[a['u']]
            else:
                U[a['u']] ** ((a['i'] - 1) ** S[a['x']])
        elif op == 'setslice':
            self._port(a['side'], a['u'])[a['lo']:a['hi']] = [self._x(x) for x in a['xs']]
        elif op == 'pipe_streams':
            xs = [S[x] for x in a['xs']]
            if a['side'] == 'in':
                (xs[0] if len(xs) == 1 else tuple(xs)) - U[a['u']]
            else:
                U[a['u']] - (xs[0] if len(xs) == 1 else tuple(xs))
        elif op == 'pipe_units':
            U[a['u']] - U[a['v']]
        elif op == 'append':
            self._port(a['side'], a['u']).append(S[a['x']])
        elif op == 'insert':
            self._port(a['side'], a['u']).insert(a['i'], S[a['x']])
        elif op == 'extend':
            xs = [S[x] for x in a['xs']]
            # any iterable is accepted: a list, or (every other call, by the argument itself) a one-shot generator
            self._port(a['side'], a['u']).extend(xs if (len(a['xs']) + len(a['u'])) % 2 and a['side'] == 'in' else (x for x in xs))
        elif op == 'pop':
            return self._name(self._port(a['side'], a['u']).pop(a['i'] - 1))
        elif op == 'remove':
            self._port(a['side'], a['u']).remove(S[a['x']])
        elif op == 'replace':
            self._port(a['side'], a['u']).replace(S[a['x']], self._x(a['y']))
        elif op == 'empty':
            self._port(a['side'], a['u']).empty()
        elif op == 'clear':
            self._port(a['side'], a['u']).clear()
        elif op == 'disconnect_source':
            S[a['x']].disconnect_source()
        elif op == 'disconnect_sink':
            S[a['x']].disconnect_sink()
        elif op == 'disconnect':
            S[a['x']].disconnect()
        elif op == 'ph_disconnect':
            ph = self._port(a['side'], a['u'])[a['i'] - 1]
            assert isinstance(ph, nw.AbstractMissingStream)
            ph.disconnect()
        elif op == 'unit_disconnect':
            U[a['u']].disconnect(discard=bool(a.get('discard')), join_ends=a['join'])       # discarding only leaves the registry
        elif op == 'unit_disconnect_sel':
            unit = U[a['u']]

            def sel(port, idx):  # a['bs']: name the port by the stream object docked there
                return [port[i - 1] if a['bs'] and isinstance(port[i - 1], nw.AbstractStream) else i - 1 for i in idx]
            unit.disconnect(inlets=sel(unit.ins, a['ii']), outlets=sel(unit.outs, a['oi']))
        elif op == 'unit_insert':
            U[a['u']].insert(S[a['x']], inlet=(a['ik'] - 1 if a['ik'] else None),
                             outlet=(a['ok'] - 1 if a['ok'] else None))
        elif op == 'take_place_of':
            U[a['u']].take_place_of(U[a['v']])
        elif op == 'replace_with':
            U[a['u']].replace_with(U[a['v']])
        elif op == 'replace_with_none':
            U[a['u']].replace_with()
        elif op == 'reconnect':
            src = None if a['src'] == NONE else U[a['src']]
            snk = None if a['snk'] == NONE else U[a['snk']]
            nw.Connection(src, a['si'] - 1, S[a['x']], a['ki'] - 1, snk).reconnect()
        elif op == 'construct':
            spec = self.universe['units'][a['u']]
            ia = [self._x(x) for x in a['ia']]
            oa = [self._x(x) for x in a['oa']]
            # an empty tuple means "create new streams" for the constructor; the spec's empty
            # argument means "no streams given"
            # a single stream may be passed bare instead of in a list (a['bare'])
            bare = lambda xs: xs[0] if a.get('bare') and len(xs) == 1 and xs[0] is not None else xs
            self.units[a['u']] = unit_class(*spec)('.' + a['u'], ins=(bare(ia) if ia else None), outs=(bare(oa) if oa else None))
        else:
            raise KeyError(op)
        return NONE


# ---- candidate operations at a state -----------------------------------------

def candidates(universe, st, rng, per_op=3, max_len=2, max_xs=2):
    """A sample of (op, args) at abstract state st: for every operation a few argument tuples,
    biased towards the ones whose obvious preconditions hold (TLC decides what is in contract)."""
    units = sorted(universe['units'])
    streams = universe['streams']
    xst = streams + [M]
    sides = ['in', 'out']
    idx = list(range(1, max_len + 2))

    def xs_set():
        out = [[]]
        for n in range(1, max_xs + 1):
            out += [list(t) for t in itertools.product(xst, repeat=n)]
        return out
    XS = xs_set()
    gens = {
        'setitem': lambda: dict(side=rng.choice(sides), u=rng.choice(units), i=rng.choice(idx), x=rng.choice(xst)),
        'setitem_ph': lambda: dict(side=rng.choice(sides), u=rng.choice(units), i=rng.choice(idx), v=rng.choice(units), j=rng.choice(idx)),
        'pipe': lambda: dict(side=rng.choice(sides), u=rng.choice(units), i=rng.choice(idx), x=rng.choice(streams)),
        'setslice': lambda: (lambda lo, hi: dict(side=rng.choice(sides), u=rng.choice(units), lo=min(lo, hi), hi=max(lo, hi), xs=rng.choice(XS)))(rng.randint(0, max_len), rng.randint(0, max_len)),
        'pipe_streams': lambda: dict(side=rng.choice(sides), u=rng.choice(units), xs=rng.choice(XS)),
        'pipe_units': lambda: dict(u=rng.choice(units), v=rng.choice(units)),
        'append': lambda: dict(side=rng.choice(sides), u=rng.choice(units), x=rng.choice(streams)),
        'insert': lambda: dict(side=rng.choice(sides), u=rng.choice(units), i=rng.randint(0, max_len), x=rng.choice(streams)),
        'extend': lambda: dict(side=rng.choice(sides), u=rng.choice(units), xs=rng.choice(XS)),
        'pop': lambda: dict(side=rng.choice(sides), u=rng.choice(units), i=rng.choice(idx)),
        'remove': lambda: dict(side=rng.choice(sides), u=rng.choice(units), x=rng.choice(streams)),
        'replace': lambda: dict(side=rng.choice(sides), u=rng.choice(units), x=rng.choice(streams), y=rng.choice(xst)),
        'empty': lambda: dict(side=rng.choice(sides), u=rng.choice(units)),
        'clear': lambda: dict(side=rng.choice(sides), u=rng.choice(units)),
        'disconnect_source': lambda: dict(x=rng.choice(streams)),
        'disconnect_sink': lambda: dict(x=rng.choice(streams)),
        'disconnect': lambda: dict(x=rng.choice(streams)),
        'ph_disconnect': lambda: dict(side=rng.choice(sides), u=rng.choice(units), i=rng.choice(idx)),
        'unit_disconnect': lambda: dict(u=rng.choice(units), join=rng.random() < 0.5, discard=rng.random() < 0.4),
        'unit_disconnect_sel': lambda: dict(u=rng.choice(units), ii=rng.choice([[], [1], [2], [1, 2]]), oi=rng.choice([[], [1], [2]]), bs=rng.random() < 0.5),
        'unit_insert': lambda: dict(u=rng.choice(units), x=rng.choice(streams), ik=rng.choice([0, 0, 1, 2]), ok=rng.choice([0, 0, 1, 2])),
        'take_place_of': lambda: dict(u=rng.choice(units), v=rng.choice(units)),
        'replace_with': lambda: dict(u=rng.choice(units), v=rng.choice(units)),
        'replace_with_none': lambda: dict(u=rng.choice(units)),
        'reconnect': lambda: dict(src=rng.choice(units + [NONE]), si=rng.choice(idx), x=rng.choice(streams), ki=rng.choice(idx), snk=rng.choice(units + [NONE])),
        'construct': lambda: dict(u=rng.choice(units), ia=rng.choice(XS), oa=rng.choice(XS), bare=rng.random() < 0.5),
    }
    out = []
    for op, g in gens.items():
        seen = set()
        tries = 0
        n_ok = 0
        while n_ok < per_op and tries < per_op * 12:
            tries += 1
            a = g()
            key = repr(sorted(a.items()))
            if key in seen:
                continue
            if not plausible(universe, st, op, a):
                continue
            seen.add(key)
            out.append((op, a))
            n_ok += 1
    return out


def plausible(universe, st, op, a):
    """Cheap filter of obviously out-of-contract arguments (not the oracle: TLC evaluates Pre)."""
    U = universe['units']

    def port(side, u):
        return st['ins' if side == 'in' else 'outs'][u]

    def fixed(side, u):
        return U[u][2 if side == 'in' else 3]

    def dock(side):
        return st['sink' if side == 'in' else 'source']
    if op in ('setitem', 'pipe', 'setitem_ph'):
        q = port(a['side'], a['u'])
        if a['i'] > len(q) + (0 if fixed(a['side'], a['u']) else 1):
            return False
        if op == 'pipe' and a['i'] > len(q):
            return False
        if op == 'setitem_ph':
            q2 = port(a['side'], a['v'])
            return a['j'] <= len(q2) and q2[a['j'] - 1] == M and a['v'] != a['u']
        x = a['x']
        return x == M or x not in q or (a['i'] <= len(q) and q[a['i'] - 1] == x)
    if op in ('append', 'insert'):
        return not fixed(a['side'], a['u']) and dock(a['side'])[a['x']] == NONE and a.get('i', 0) <= len(port(a['side'], a['u']))
    if op == 'extend':
        xs = a['xs']
        return (not fixed(a['side'], a['u']) and all(x != M and dock(a['side'])[x] == NONE for x in xs)
                and len(set(xs)) == len(xs))
    if op == 'pop':
        return a['i'] <= len(port(a['side'], a['u']))
    if op == 'remove':
        return a['x'] in port(a['side'], a['u'])
    if op == 'replace':
        q = port(a['side'], a['u'])
        return a['x'] in q and (a['y'] == M or a['y'] not in q or a['y'] == a['x'])
    if op == 'ph_disconnect':
        q = port(a['side'], a['u'])
        return a['i'] <= len(q) and q[a['i'] - 1] == M
    if op == 'setslice':
        q = port(a['side'], a['u'])
        if a['hi'] > len(q):
            return False
        xs = [x for x in a['xs'] if x != M]
        rest = q[:a['lo']] + q[a['hi']:]
        if len(set(xs)) != len(xs) or any(x in rest for x in xs):
            return False
        if fixed(a['side'], a['u']) and len(rest) + len(a['xs']) > U[a['u']][0 if a['side'] == 'in' else 1]:
            return False
        return True
    if op == 'unit_insert':
        x = a['x']
        return st['source'][x] not in (NONE, a['u']) and st['sink'][x] not in (NONE, a['u'])
    if op in ('take_place_of', 'replace_with'):
        return a['u'] != a['v']
    if op == 'construct':
        u = a['u']
        return all(x == M for x in st['ins'][u]) and all(x == M for x in st['outs'][u])
    if op == 'unit_disconnect_sel':
        return all(i <= len(st['ins'][a['u']]) for i in a['ii']) and all(i <= len(st['outs'][a['u']]) for i in a['oi'])
    return True
