"""Driver binding spec/FreeEnergy.tla to thermosteam chemicals / mixtures (C07)."""
import math
import random
import warnings

import thermosteam as tmo

MODULE = 'FreeEnergy'
NONE = 'none'
P_REF = 101325.
_cache = {}


def par_record(ref, cs, cl, cg, Tm20, Tb20, Sfus20, Svap20, S0_20, lock='none'):
    return dict(ref=ref, lock=lock, cs=cs, cl=cl, cg=cg, Tm20=Tm20, Tb20=Tb20, Sfus20=Sfus20, Svap20=Svap20,
                Hfus400=Sfus20 * Tm20, Hvap400=Svap20 * Tb20, S0_20=S0_20)


def make_chemical(p, ID, via='same'):
    """via (phase-locked chemicals only): 'same' - built with the locked phase as reference phase and locked in place;
    'inplace_other' / 'copy_other' - built with ANOTHER reference phase, then locked in place / through at_state(copy=True)"""
    locked = p.get('lock', 'none') != 'none'
    if not locked and via != 'setters':
        via = 'same'
    if locked and via == 'setters':
        via = 'same'
    key = (ID, via) + tuple(sorted(p.items()))
    if key in _cache:
        return _cache[key]
    Tm, Tb = p['Tm20'] / 20., p['Tb20'] / 20.
    Hfus, Hvap = p['Hfus400'] / 400., p['Hvap400'] / 400.
    ref = p['ref'] if via in ('same', 'setters') else ('l' if p['lock'] != 'l' else 'g')
    wrong = via == 'setters'
    ch = tmo.Chemical.blank(ID, phase_ref=ref, MW=100., Tm=Tm + (7. if wrong else 0.), Tb=Tb + (11. if wrong else 0.), Hfus=Hfus + (500. if wrong else 0.),
                            Sfus=(Hfus / Tm) + (3. if wrong else 0.), Tc=2000., Pc=5e6, omega=0.3,
                            S0=p['S0_20'] / 20. + (9. if wrong else 0.), Hf=0., free_energies=False)
    for ph, c in (('s', p['cs']), ('l', p['cl']), ('g', p['cg'])):
        getattr(ch.Cn, ph).add_method(f=lambda T, c=c: 2. * c * T, f_int=lambda T1, T2, c=c: c * (T2 * T2 - T1 * T1),
                                      f_int_over_T=lambda T1, T2, c=c: 2. * c * (T2 - T1), Tmin=1., Tmax=5000.)
    ch.Hvap.add_method(f=lambda T, Hvap=Hvap: Hvap, Tmin=1., Tmax=5000.)
    ch.reset_free_energies()
    if via == 'setters':
        # built with OTHER constants, then corrected through the public setters (Tm, Tb rebuild the functors; Hfus, Sfus, S0
        # rewrite them in place)
        ch.Tm = Tm
        ch.Tb = Tb
        ch.Hfus = Hfus
        ch.Sfus = Hfus / Tm
        ch.S0 = p['S0_20'] / 20.
    if locked:
        # phase-locked: Chemical.at_state re-runs _init_energies through its single-phase branch
        if via == 'copy_other':
            ch = ch.at_state(p['lock'], copy=True)
        else:
            ch.at_state(p['lock'])
    _cache[key] = ch
    return ch


def fx(x, scale):
    """fixed point with an explicit non-integrality marker (all model values are integers in these units)"""
    v = float(x) * scale
    r = round(v)
    if abs(v - r) > 1e-4 * max(1., abs(v) * 1e-6):
        return int(r) + 777777
    return int(r)


def tla_constants():
    return 't_Grid == {}', ['Tref20 = 5963', 'Grid <- t_Grid']


def R_gas():
    return float(tmo.constants.R)


class World:
    def __init__(self, par, mix, via='same'):
        self.par, self.mix = par, mix
        self.c1 = make_chemical(par, 'Syn1', via)
        self.c2 = make_chemical(mix, 'Syn2', via)
        self._thermo = None

    def project(self):
        return dict(par=self.par, mix=self.mix)

    def thermo(self):
        if self._thermo is None:
            chems = tmo.Chemicals([self.c1, self.c2])
            chems.compile(skip_checks=True)
            self._thermo = tmo.Thermo(chems, cache=False)
        return self._thermo

    def apply(self, op, a):
        exc, extra = NONE, {}
        try:
            with warnings.catch_warnings():
                warnings.simplefilter('ignore')
                extra = self._apply(op, a)
        except Exception as e:
            exc = type(e).__name__
            extra = dict(msg=str(e)[:200])
        obs = dict(exc=exc, H400=0, S20=0, Sg20=0, Cn20=0, Sres20=0, Slib20=0, dSmix_negative=False,
                   refH=0, refS=0, jHvap=0, jSvap=0, jHfus=0, jSfus=0, press=0, pressL=0, dH=0, dS=0, switch=0)
        obs.update(extra)
        return obs

    def _apply(self, op, a):
        T = a.get('T20', 0) / 20.
        ph = a.get('ph')
        if op == 'eval':
            P = P_REF * 2 ** a['k']
            ch = self.c1
            if self.par.get('lock', 'none') != 'none':
                H, S, Cn = ch.H(T, P), ch.S(T, P), ch.Cn(T)      # a locked chemical takes no phase argument
            else:
                H, S, Cn = ch.H(ph, T, P), ch.S(ph, T, P), ch.Cn(ph, T)
            Sg = S + a['k'] * R_gas() * math.log(2.)
            return dict(H400=fx(H, 400), S20=fx(S, 20), Sg20=fx(Sg, 20), Cn20=fx(Cn, 20))
        if op == 'mix':
            th = self.thermo()
            n1, n2 = float(a['n1']), float(a['n2'])
            k = 2. ** a.get('sc', 0)       # amounts scaled by a power of two (exact): the mixture functions are extensive
            mol = th.chemicals.kwarray(dict(Syn1=n1, Syn2=n2)) * k
            P = P_REF
            H = th.mixture.H(ph, mol, T, P) / k
            Cn = th.mixture.Cn(ph, mol, T, P) / k
            S = th.mixture.S(ph, mol, T, P) / k
            R = R_gas()
            tot = n1 + n2
            mixterm = -R * sum(n * math.log(n / tot) for n in (n1, n2) if n > 0)
            libterm = sum(n * math.log(n / tot) for n in (n1, n2) if n > 0)       # the term the library adds (recorded finding)
            # mixing two streams at equal T, P never lowers entropy
            s1 = tmo.Stream(None, Syn1=n1, T=T, P=P, phase=ph, thermo=th) if n1 else None
            s2 = tmo.Stream(None, Syn2=n2, T=T, P=P, phase=ph, thermo=th) if n2 else None
            parts = sum(s.S for s in (s1, s2) if s is not None)
            sm = tmo.Stream(None, Syn1=n1, Syn2=n2, T=T, P=P, phase=ph, thermo=th)
            neg = bool(sm.S < parts - 1e-9 * max(1., abs(parts)))
            return dict(H400=fx(H, 400), Cn20=fx(Cn, 20), Sres20=fx(S - mixterm, 20), Slib20=fx(S - libterm, 20), dSmix_negative=neg)
        if op == 'xmix':
            # multi-phase forms: rows = [[phase label, n1, n2] ...] (labels s, l, g, S, L)
            th = self.thermo()
            R = R_gas()
            pm = [(r[0], th.chemicals.kwarray(dict(Syn1=float(r[1]), Syn2=float(r[2])))) for r in a['rows']]
            H = th.mixture.xH(pm, T, P_REF)
            Cn = th.mixture.xCn(pm, T, P_REF)
            S = th.mixture.xS(pm, T, P_REF)
            mixterm = libterm = 0.
            for r in a['rows']:
                tot = float(r[1] + r[2])
                mixterm += -R * sum(n * math.log(n / tot) for n in (float(r[1]), float(r[2])) if n > 0)
                libterm += sum(n * math.log(n / tot) for n in (float(r[1]), float(r[2])) if n > 0)
            return dict(H400=fx(H, 400), Cn20=fx(Cn, 20), Sres20=fx(S - mixterm, 20), Slib20=fx(S - libterm, 20))
        if op == 'db':
            return db_eval(a['chem'], a['ref'], a.get('lock', 'none'))
        raise KeyError(op)


# ---- chemicals of the bundled database (measured identities; deviations in ppm) -----------------------------------
DB_CHEMS = ['Water', 'Ethanol', 'Methanol', 'Benzene', 'Hexane', 'Acetone', 'Toluene', 'Octane']
_db = {}


def ppm(x, scale):
    v = abs(float(x)) / max(abs(float(scale)), 1e-300) * 1e6
    return int(min(v, 2 ** 30)) if v == v else 2 ** 30


def db_eval(ID, ref, lock='none'):
    key = (ID, ref, lock)
    if key not in _db:
        ch = tmo.Chemical(ID, phase_ref=ref, cache=False)
        if lock != 'none':
            ch = ch.at_state(lock, copy=True) if lock.endswith('c') else (ch.at_state(lock) or ch)
        _db[key] = ch
    ch = _db[key]
    P = P_REF
    Tm, Tb, Tr = float(ch.Tm), float(ch.Tb), 298.15
    R = R_gas()
    out = {}
    H = lambda ph, T, P=P: float(ch.H(ph, T, P))
    S = lambda ph, T, P=P: float(ch.S(ph, T, P))
    Hvap = float(ch.Hvap(Tb))
    Hfus = float(ch.Hfus)
    hs = max(abs(Hvap), 1.)
    out['refH'] = ppm(H(ref, Tr), hs)
    out['refS'] = ppm(S(ref, Tr) - float(ch.S0), max(abs(float(ch.S0)), 10.))
    out['jHvap'] = ppm(H('g', Tb) - H('l', Tb) - Hvap, hs)
    out['jSvap'] = ppm(S('g', Tb) - S('l', Tb) - Hvap / Tb, hs / Tb)
    out['jHfus'] = ppm(H('l', Tm) - H('s', Tm) - Hfus, max(abs(Hfus), 1.))
    out['jSfus'] = ppm(S('l', Tm) - S('s', Tm) - Hfus / Tm, max(abs(Hfus), 1.) / Tm)
    out['press'] = ppm(S('g', Tb + 20., 2 * P) - S('g', Tb + 20., P) + R * math.log(2.), R)
    out['pressL'] = ppm(S('l', (Tm + Tb) / 2., 2 * P) - S('l', (Tm + Tb) / 2., P), R)
    # temperature derivatives against Cn and Cn / T over a 20 K interval (Simpson quadrature of the heat capacity)
    dH = dS = 0
    for ph, T1 in (('s', Tm - 30.), ('l', (Tm + Tb) / 2. - 10.), ('g', Tb + 10.)):
        T2 = T1 + 20.
        n = 40
        xs = [T1 + (T2 - T1) * i / n for i in range(n + 1)]
        w = [1 if i in (0, n) else (4 if i % 2 else 2) for i in range(n + 1)]
        cn = [float(ch.Cn(ph, x)) for x in xs]
        qH = sum(wi * c for wi, c in zip(w, cn)) * (T2 - T1) / n / 3.
        qS = sum(wi * c / x for wi, c, x in zip(w, cn, xs)) * (T2 - T1) / n / 3.
        dH = max(dH, ppm(H(ph, T2) - H(ph, T1) - qH, qH))
        dS = max(dS, ppm(S(ph, T2) - S(ph, T1) - qS, qS))
    out['dH'], out['dS'] = dH, dS
    # another heat-capacity method is selected for the liquid (public attribute) and the energies are rebuilt: the heat capacity
    # reported at a temperature asked for just before is the new model's, i.e. the slope of the new enthalpy
    out['switch'] = 0
    m = ch.Cn.l
    Tq = (Tm + Tb) / 2.
    float(ch.Cn('l', Tq))
    others = sorted(k for k in m.all_methods if k != m.method and m.T_limits[k][0] < Tq - 2. and m.T_limits[k][1] > Tq + 2.)
    if others:
        old = m.method
        try:
            m.method = others[0]
            ch.reset_free_energies()
            c1 = float(ch.Cn('l', Tq))
            slope = (H('l', Tq + 0.5) - H('l', Tq - 0.5))
            out['switch'] = ppm(c1 - slope, slope)
        finally:
            m.method = old
            ch.reset_free_energies()
    return out
