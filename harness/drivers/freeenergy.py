"""Driver binding spec/FreeEnergy.tla to thermosteam chemicals / mixtures (C07)."""
import math
import random
import warnings

import thermosteam as tmo

MODULE = 'FreeEnergy'
NONE = 'none'
P_REF = 101325.
_cache = {}


def par_record(ref, cs, cl, cg, Tm20, Tb20, Sfus20, Svap20, S0_20, lock='none'):
    return dict(ref=ref, lock=lock, cs=cs, cl=cl, cg=cg, Tm20=Tm20, Tb20=Tb20, Sfus20=Sfus20, Svap20=Svap20,
                Hfus400=Sfus20 * Tm20, Hvap400=Svap20 * Tb20, S0_20=S0_20)


def make_chemical(p, ID):
    key = (ID,) + tuple(sorted(p.items()))
    if key in _cache:
        return _cache[key]
    Tm, Tb = p['Tm20'] / 20., p['Tb20'] / 20.
    Hfus, Hvap = p['Hfus400'] / 400., p['Hvap400'] / 400.
    ch = tmo.Chemical.blank(ID, phase_ref=p['ref'], MW=100., Tm=Tm, Tb=Tb, Hfus=Hfus, Sfus=Hfus / Tm, Tc=2000., Pc=5e6, omega=0.3,
                            S0=p['S0_20'] / 20., Hf=0., free_energies=False)
    for ph, c in (('s', p['cs']), ('l', p['cl']), ('g', p['cg'])):
        getattr(ch.Cn, ph).add_method(f=lambda T, c=c: 2. * c * T, f_int=lambda T1, T2, c=c: c * (T2 * T2 - T1 * T1),
                                      f_int_over_T=lambda T1, T2, c=c: 2. * c * (T2 - T1), Tmin=1., Tmax=5000.)
    ch.Hvap.add_method(f=lambda T, Hvap=Hvap: Hvap, Tmin=1., Tmax=5000.)
    ch.reset_free_energies()
    if p.get('lock', 'none') != 'none':
        ch.at_state(p['lock'])       # phase-locked: Chemical.at_state re-runs _init_energies through its single-phase branch
    _cache[key] = ch
    return ch


def fx(x, scale):
    """fixed point with an explicit non-integrality marker (all model values are integers in these units)"""
    v = float(x) * scale
    r = round(v)
    if abs(v - r) > 1e-4 * max(1., abs(v) * 1e-6):
        return int(r) + 777777
    return int(r)


def tla_constants():
    return 't_Grid == {}', ['Tref20 = 5963', 'Grid <- t_Grid']


def R_gas():
    return float(tmo.constants.R)


class World:
    def __init__(self, par, mix):
        self.par, self.mix = par, mix
        self.c1 = make_chemical(par, 'Syn1')
        self.c2 = make_chemical(mix, 'Syn2')
        self._thermo = None

    def project(self):
        return dict(par=self.par, mix=self.mix)

    def thermo(self):
        if self._thermo is None:
            chems = tmo.Chemicals([self.c1, self.c2])
            chems.compile(skip_checks=True)
            self._thermo = tmo.Thermo(chems, cache=False)
        return self._thermo

    def apply(self, op, a):
        exc, extra = NONE, {}
        try:
            with warnings.catch_warnings():
                warnings.simplefilter('ignore')
                extra = self._apply(op, a)
        except Exception as e:
            exc = type(e).__name__
            extra = dict(msg=str(e)[:200])
        obs = dict(exc=exc, H400=0, S20=0, Sg20=0, Cn20=0, Sres20=0, dSmix_negative=False)
        obs.update(extra)
        return obs

    def _apply(self, op, a):
        T = a['T20'] / 20.
        ph = a['ph']
        if op == 'eval':
            P = P_REF * 2 ** a['k']
            ch = self.c1
            if self.par.get('lock', 'none') != 'none':
                H, S, Cn = ch.H(T, P), ch.S(T, P), ch.Cn(T)      # a locked chemical takes no phase argument
            else:
                H, S, Cn = ch.H(ph, T, P), ch.S(ph, T, P), ch.Cn(ph, T)
            Sg = S + a['k'] * R_gas() * math.log(2.)
            return dict(H400=fx(H, 400), S20=fx(S, 20), Sg20=fx(Sg, 20), Cn20=fx(Cn, 20))
        if op == 'mix':
            th = self.thermo()
            n1, n2 = float(a['n1']), float(a['n2'])
            mol = th.chemicals.kwarray(dict(Syn1=n1, Syn2=n2))
            P = P_REF
            H = th.mixture.H(ph, mol, T, P)
            Cn = th.mixture.Cn(ph, mol, T, P)
            S = th.mixture.S(ph, mol, T, P)
            R = R_gas()
            tot = n1 + n2
            mixterm = -R * sum(n * math.log(n / tot) for n in (n1, n2) if n > 0)
            # mixing two streams at equal T, P never lowers entropy
            s1 = tmo.Stream(None, Syn1=n1, T=T, P=P, phase=ph, thermo=th) if n1 else None
            s2 = tmo.Stream(None, Syn2=n2, T=T, P=P, phase=ph, thermo=th) if n2 else None
            parts = sum(s.S for s in (s1, s2) if s is not None)
            sm = tmo.Stream(None, Syn1=n1, Syn2=n2, T=T, P=P, phase=ph, thermo=th)
            neg = bool(sm.S < parts - 1e-9 * max(1., abs(parts)))
            return dict(H400=fx(H, 400), Cn20=fx(Cn, 20), Sres20=fx(S - mixterm, 20), dSmix_negative=neg)
        raise KeyError(op)
