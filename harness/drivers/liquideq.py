"""Driver binding spec/LiquidEq.tla to thermosteam's LLE and SLE solvers (C15)."""
import warnings

import numpy as np

import thermosteam as tmo

MODULE = 'LiquidEq'
NONE = 'none'
IDS = ['Water', 'Ethanol', 'Octane', 'Butanol', 'EthylAcetate', 'Naphthalene', 'SuccinicAcid', 'AdipicAcid']
LLE_IDS = IDS[:5]
SOLUTES = ['Naphthalene', 'SuccinicAcid', 'AdipicAcid']       # solutes with melting point, heat of fusion and functional groups
QUANTA = 10 ** 8
# model names -> real values (temperatures further apart than the reuse tolerance of 1e-3 K; compositions further apart than 1e-5)
TEMPS = {1: 298.15, 2: 310., 3: 330.}
COMPS = {'z1': dict(Water=10., Octane=5., Ethanol=1.), 'z2': dict(Water=4., Octane=8., Ethanol=3.), 'z3': dict(Water=10., Butanol=6., EthylAcetate=2.),
         'z4': dict(Water=6., Butanol=6., EthylAcetate=6.)}
# the chemical set a composition belongs to (compositions of one set can follow each other with the same LLE chemicals)
CSETS = {'c1': ['z1', 'z2'], 'c2': ['z3', 'z4']}
_th = {}


def thermo():
    if not _th:
        _th['P'] = tmo.Thermo(tmo.Chemicals(IDS), cache=False)
    return _th['P']


def tla_constants(dev=()):
    defs = 't_E == {}\nt_Dev == {%s}' % ', '.join('"%s"' % d for d in dev)
    return defs, ['Temps <- t_E', 'Comps <- t_E', 'ChemSets <- t_E', 'Deviations <- t_Dev', 'Ops <- t_E', 'ActTol = 50000', 'SameTol = 1000', 'ScaleTol = 1000']


def _rows(ms):
    return {ph: np.asarray(ms.imol[ph].to_array(), float) for ph in ms.phases}


class LLEWorld:
    """Three streams with the same history: A may reuse remembered partition coefficients, B may not, C is A scaled by k."""

    def __init__(self, method, k=1000.):
        th = thermo()
        self.k = k
        self.method = method
        self.A, self.B, self.C = (tmo.MultiStream(None, thermo=th, phases='lL', T=300.) for _ in range(3))
        for s in (self.A, self.B, self.C):
            s.lle.method = method
        self.mem = dict(T=0, z=NONE, cs=NONE)

    def project(self):
        return dict(self.mem)

    def lle(self, a, comp, T, top):
        """set the composition (all in 'l'), run lle on the three streams, return the observation"""
        obs = dict(exc=NONE, msg='', two=False, act=0, same=0, fresh=0, scale=0, top_ok=True, neg=False, method=self.method.replace(' ', '_'), n=len(comp),
                   scale_tol=1000 if self.method == 'pseudo equilibrium' else 1000000)
        try:
            with warnings.catch_warnings():
                warnings.simplefilter('ignore')
                with np.errstate(all='ignore'):
                    tot = np.zeros(len(IDS))
                    for sname, f in ((self.A, 1.), (self.B, 1.), (self.C, self.k)):
                        sname.imol['L'] = 0.
                        sname.imol['l'] = 0.
                        for ID, v in comp.items():
                            sname.imol['l', ID] = v * f
                    for ID, v in comp.items():
                        tot[IDS.index(ID)] = v
                    kw = dict(T=T)
                    if top != NONE:
                        kw['top_chemical'] = top
                    self.A.lle(use_cache=bool(a['uc']), **kw)
                    self.B.lle(use_cache=False, **kw)
                    self.C.lle(use_cache=bool(a['uc']), **kw)
                    rA, rB, rC = _rows(self.A), _rows(self.B), _rows(self.C)
                    q = np.where(tot > 0, tot / QUANTA, 1e-8)
                    # a new stream (no history at all) given the same material and temperature
                    D = tmo.MultiStream(None, thermo=thermo(), phases='lL', T=300.)
                    D.lle.method = self.method
                    for ID, v in comp.items():
                        D.imol['l', ID] = v
                    D.lle(**kw)
                    rD = _rows(D)
                    dev = max(np.abs((rA[ph] - rD[ph]) / q).max() for ph in 'lL')
                    if top == NONE:
                        dev = min(dev, max(np.abs((rA['l'] - rD['L']) / q).max(), np.abs((rA['L'] - rD['l']) / q).max()))
                    obs['fresh'] = int(min(dev, 2e9))
                    obs['neg'] = bool(any((r < 0).any() for r in rA.values()))
                    direct = max(np.abs((rA[ph] - rB[ph]) / q).max() for ph in 'lL')
                    if top == NONE:
                        # without a top chemical the two liquids carry no agreed label: compare up to exchanging them
                        direct = min(direct, max(np.abs((rA['l'] - rB['L']) / q).max(), np.abs((rA['L'] - rB['l']) / q).max()))
                    obs['same'] = int(min(direct, 2e9))
                    obs['scale'] = int(min(max(np.abs((rC[ph] / self.k - rA[ph]) / np.where(tot > 0, tot, 1.)).max() for ph in 'lL') * 1e9, 2e9))
                    l, L = rA['l'], rA['L']
                    obs['two'] = bool(l.sum() > 0 and L.sum() > 0)
                    if obs['two']:
                        idx = [i for i in range(len(IDS)) if tot[i] > 0]
                        chems = [thermo().chemicals.tuple[i] for i in idx]
                        G = thermo().Gamma(chems)
                        xl, xL = l[idx] / l[idx].sum(), L[idx] / L[idx].sum()
                        al, aL = xl * G(xl, T), xL * G(xL, T)
                        obs['act'] = int(min((np.abs(al - aL) / np.maximum(np.maximum(al, aL), 1e-300)).max() * 1e6, 2e9))
                        if top != NONE and top in comp:
                            MW = thermo().chemicals.MW
                            j = IDS.index(top)
                            wl, wL = l * MW, L * MW
                            obs['top_ok'] = bool(wL[j] / wL.sum() >= wl[j] / wl.sum() - 1e-12)
        except Exception as e:
            obs['exc'], obs['msg'] = type(e).__name__, str(e)[:160]
        self.mem = dict(T=a['T'], z=a['z'], cs=a['cs'])
        return obs

    def memory_matches(self, T, comp):
        """the real solver object remembers the call just made (binding of the model's memory update)"""
        lle = self.A.lle
        try:
            z = np.array([comp.get(i.ID, 0.) for i in lle._lle_chemicals])
            return bool(abs(lle._T - T) < 1e-9 and np.allclose(lle._z_mol, z / z.sum(), atol=1e-9))
        except Exception:
            return False


class SLEWorld:
    def __init__(self, rng):
        th = thermo()
        self.solute = rng.choice(SOLUTES)
        solvents = rng.sample(['Water', 'Ethanol', 'Octane'], rng.choice([0, 1, 1, 2, 3]))
        self.pure = not solvents
        self.s = tmo.MultiStream(None, thermo=th, phases=rng.choice(['ls', 'ls', 'gls']), T=300.)
        n = 10 ** rng.uniform(-2, 2)
        f = rng.choice([0., 1., rng.random()])
        self.s.imol['l', self.solute] = n * f
        self.s.imol['s', self.solute] = n * (1 - f)
        for sv in solvents:
            self.s.imol['l', sv] = 10 ** rng.uniform(-2, 2)
        self.other = None
        if rng.random() < 0.3:
            # another chemical held as a solid at entry (it must stay where it is and is no solvent)
            other = rng.choice([i for i in SOLUTES + ['Octane'] if i != self.solute])
            self.s.imol['s', other] = 10 ** rng.uniform(-1, 1)
            self.other = other if other in SOLUTES else None
        self.tot = sum(_rows(self.s).values())
        self.q = np.where(self.tot > 0, self.tot / QUANTA, 1e-8)

    def change_solvents(self, rng):
        """add or remove solvents between calls (the same stream and solver object keep being used)"""
        if self.pure or rng.random() < 0.5:
            for sv in rng.sample(['Water', 'Ethanol', 'Octane'], rng.choice([1, 2])):
                self.s.imol['l', sv] = 10 ** rng.uniform(-2, 2)
            self.pure = False
        else:
            for sv in ['Water', 'Ethanol', 'Octane']:
                self.s.imol['l', sv] = 0.
            self.pure = True
        self.tot = sum(_rows(self.s).values())
        self.q = np.where(self.tot > 0, self.tot / QUANTA, 1e-8)

    def change_amount(self, rng):
        """more (or less) of the solute between calls: solid added or withdrawn, or the whole stream rescaled"""
        j = self.solute
        f = rng.choice([0.3, 2., 5.])
        if rng.random() < 0.5:
            self.s.imol['s', j] = self.s.imol['s', j] * f + (0.5 if f > 1 else 0.)
        else:
            for ph in self.s.phases:
                self.s.imol[ph] = self.s.imol[ph].to_array() * f
        self.tot = sum(_rows(self.s).values())
        self.q = np.where(self.tot > 0, self.tot / QUANTA, 1e-8)

    def switch_solute(self):
        """the next calls name the other solute held by the stream (same stream, same solver object)"""
        if self.other is None:
            return False
        self.solute, self.other = self.other, self.solute
        return True

    def sle(self, T, solubility):
        obs = dict(exc=NONE, msg='', moved_other=False, x6=0, xmax6=-1, solid=0, liquid=0, pure=self.pure, above=False, fresh=0)
        j = IDS.index(self.solute)
        try:
            with warnings.catch_warnings():
                warnings.simplefilter('ignore')
                with np.errstate(all='ignore'):
                    before = _rows(self.s)
                    obs['pure'] = bool((sum(before.values()) > 0).sum() == 1)      # the solute is the only chemical the stream holds
                    kw = dict(T=T)
                    if solubility is not None:
                        kw['solubility'] = solubility
                        obs['xmax6'] = int(round(solubility * 1e6))
                    self.s.sle(self.solute, **kw)
                    after = _rows(self.s)
                    others = [i for i in range(len(IDS)) if i != j]
                    obs['moved_other'] = bool(any(np.abs((after[ph][others] - before[ph][others]) / self.q[others]).max() > 0.5 for ph in after)
                                              or any(ph not in 'ls' and abs(after[ph][j] - before[ph][j]) / self.q[j] > 0.5 for ph in after))
                    obs['solid'] = int(round(after['s'][j] / self.q[j]))
                    obs['liquid'] = int(round(after['l'][j] / self.q[j]))
                    nl = after['l'].sum()
                    obs['x6'] = int(round(after['l'][j] / nl * 1e6)) if nl > 0 else 0
                    obs['above'] = bool(T > thermo().chemicals.tuple[j].Tm)
                    cons = abs(sum(r[j] for r in after.values()) - sum(r[j] for r in before.values())) / self.q[j]
                    if cons > 6:
                        obs['moved_other'] = True
                    # a new stream (new solver object, no history) holding the material as it was before the call
                    D = tmo.MultiStream(None, thermo=thermo(), phases=''.join(self.s.phases), T=self.s.T, P=self.s.P)
                    for ph, row in before.items():
                        for i, v in enumerate(row):
                            if v:
                                D.imol[ph, IDS[i]] = v
                    try:
                        D.sle(self.solute, **kw)
                        obs['fresh'] = int(min(abs(_rows(D)['l'][j] - after['l'][j]) / self.q[j], 2e9))
                    except Exception:
                        obs['fresh'] = 0          # (a first call that raises is reported through the stream's own first call)
        except Exception as e:
            obs['exc'], obs['msg'] = type(e).__name__, str(e)[:160]
        return obs
