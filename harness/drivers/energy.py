"""Driver binding spec/Energy.tla to thermosteam stream energy balances (C02)."""
import random
import warnings

import thermosteam as tmo

MODULE = 'Energy'
NONE = 'none'
HUNIT = 0.01      # kJ/hr per fixed-point unit
SUNIT = 1e-6     # kJ/hr/K per fixed-point unit
T_LO, T_HI = 250., 500.   # validity range of the property models (C02 quantifier)
T_TOL = 1e-5      # K: twice-relaxed resolution of solve_T_at_HP / solve_T_at_SP (documented 1e-6 .. 1e-3 relative steps)
NAMES = ['a', 'b', 'c', 'd']
_th = {}


def thermo():
    if not _th:
        _th['P'] = tmo.Thermo(tmo.Chemicals(['Water', 'Ethanol', 'Propanol', 'N2']), cache=False)
    return _th['P']


def tla_constants(names=NAMES):
    defs = 't_Names == {%s}\nt_E == {}' % ', '.join('"%s"' % n for n in names)
    return defs, ['Names <- t_Names', 'HVals <- t_E', 'PVals <- t_E', 'QVals <- t_E', 'Ops <- t_E']


def fxH(h):
    return int(round(float(h) / HUNIT))


class World:
    def __init__(self, names=NAMES):
        self.names = list(names)
        th = thermo()
        self.s = {n: tmo.Stream(None, thermo=th) for n in self.names}

    def project(self):
        return dict(H={n: fxH(s.H) for n, s in self.s.items()},
                    P={n: int(round(s.P)) for n, s in self.s.items()},
                    E={n: bool(s.isempty()) for n, s in self.s.items()})

    def cls(self, a):
        """input class of the stream an assignment acts on (part of violation keys)"""
        x = self.s.get(a.get('x', a.get('r')))
        ph = ''.join(sorted(x.phases)) if x is not None else ''
        return ph or 'none'

    def at_T(self, x, T, what):
        """value of H / S the stream in slot x has at temperature T (same phases and flows)"""
        c = self.s[x].copy()
        c.T = T
        return c.H if what == 'H' else c.S

    def feed(self, x, rng):
        """Put a random non-empty (or empty) content into slot x (state shaping, not judged)."""
        th = thermo()
        kind = rng.choice(['l', 'l', 'g', 'lN2', 'multi', 'empty'])
        T = rng.choice([290., 310., 330., 350., 298.15])
        P = rng.choice([101325., 202650., 50000., 1e6])
        if kind == 'empty':
            self.s[x] = tmo.Stream(None, thermo=th, T=T, P=P)
        elif kind == 'l':
            self.s[x] = tmo.Stream(None, thermo=th, T=T, P=P, phase='l', Water=rng.choice([0, 1, 5]) + 1, Ethanol=rng.choice([0, 2, 7]), Propanol=rng.choice([0, 0, 3]))
        elif kind == 'g':
            self.s[x] = tmo.Stream(None, thermo=th, T=rng.choice([400., 450.]), P=P, phase='g', Water=rng.choice([1, 4]), Ethanol=rng.choice([0, 2]), N2=rng.choice([0, 5]))
        elif kind == 'lN2':
            self.s[x] = tmo.Stream(None, thermo=th, T=T, P=P, phase='g', N2=rng.choice([1, 10]))
        else:
            self.s[x] = tmo.MultiStream(None, thermo=th, T=rng.choice([350., 365.]), P=101325., l=[('Water', 5), ('Ethanol', 2)], g=[('Ethanol', 3), ('Water', 1)])

    def relabel(self, x):
        """Switch the phase of a single-phase slot (liquid <-> gas) in place, at unchanged T, P and flows, after its enthalpy
        has been read (state shaping, not judged)."""
        s = self.s[x]
        if s.isempty() or isinstance(s, tmo.MultiStream) or s.phase not in ('l', 'g') or s.imol['N2'] != 0:
            return False
        s.H, s.S       # read before the switch
        s.phase = 'g' if s.phase == 'l' else 'l'
        return True

    def mix_reach(self, r, ins, Q):
        """whether sum H_in + Q lies between the enthalpies of the mixed material at the ends of the model range"""
        try:
            ne = [self.s[i] for i in ins if not self.s[i].isempty()]
            if not ne:
                return True
            H = sum(i.H for i in ne) + Q * HUNIT
            c = self.s[r].copy()
            c.mix_from([i.copy() for i in ne], energy_balance=False)
            c.T = T_LO
            lo = c.H
            c.T = T_HI
            return bool(lo <= H <= c.H)
        except Exception:
            return False

    def sep_reach(self, x, y):
        """whether H(x) - H(y) lies between the enthalpies of the remaining material at the ends of the model range"""
        try:
            c = self.s[x].copy()
            H_new = c.H - self.s[y].H
            c.separate_out(self.s[y], energy_balance=False)
            if c.isempty():
                return True
            c.T = T_LO
            lo = c.H
            c.T = T_HI
            return bool(lo <= H_new <= c.H)
        except Exception:
            return False

    def feed_part(self, y, x, rng):
        """Put into slot y a part of the material of slot x (so that separating y out of x is feasible), in the same or
        the other phase, at the same or another temperature (state shaping, not judged)."""
        src = self.s[x]
        if src.isempty() or len(src.phases) > 1:
            return False
        f = rng.choice([0.01, 0.05, 0.2])
        ph = rng.choice(['l', 'g']) if src.imol['N2'] == 0 else 'g'      # liquid nitrogen is outside the models' range
        T = rng.choice([src.T, src.T, 400., 320.])
        new = tmo.Stream(None, thermo=thermo(), T=T, P=src.P, phase=ph)
        new.mol[:] = src.mol * f
        self.s[y] = new
        return True

    def apply(self, op, a, rng=None):
        S = self.s
        exc = NONE
        obs = dict(tol=2, Ttol_ok=True, readback=0, T_in_range=True, cls=self.cls(a))
        try:
            with warnings.catch_warnings():
                warnings.simplefilter('ignore')
                if op == 'mix':
                    r = S[a['r']]
                    ins = [S[i] for i in a['ins']]
                    r.mix_from(ins, energy_balance=True, Q=a['Q'] * HUNIT)
                    obs['tol'] = 2 + int(abs(r.C) * T_TOL / HUNIT) + int(abs(r.H) * 1e-9 / HUNIT)
                elif op == 'separate':
                    x = S[a['x']]
                    x.separate_out(S[a['y']], energy_balance=True)
                    obs['tol'] = 2 + int(abs(x.C) * T_TOL / HUNIT) + int(abs(x.H) * 1e-9 / HUNIT)
                elif op in ('set_H', 'set_h', 'set_S'):
                    x = S[a['x']]
                    if op == 'set_H':
                        x.H = a['v'] * HUNIT
                        obs['tol'] = 2 + int(abs(x.C) * T_TOL / HUNIT) + int(abs(x.H) * 1e-9 / HUNIT)
                    elif op == 'set_h':
                        target = a['v'] * HUNIT / x.F_mol
                        x.h = target
                        obs['readback'] = int(min(abs(x.h - target) / max(abs(target), abs(x.Cn) * 1.) * 1e9, 2 ** 30))
                    else:
                        target = a['v'] * SUNIT
                        x.S = target
                        # deviation of the value read back, in units of 1e-9 of the entropy a 1 K step is worth x T
                        # (i.e. relative temperature error of the solve)
                        obs['readback'] = int(min(abs(x.S - target) / abs(x.C) * 1e9, 2 ** 30))
                    obs['T_in_range'] = bool(T_LO - 1e-3 <= x.T <= T_HI + 1e-3)
                elif op in ('set_same_H', 'set_same_h', 'set_same_S'):
                    x = S[a['x']]
                    T0 = x.T
                    if op == 'set_same_H':
                        x.H = x.H
                    elif op == 'set_same_h':
                        x.h = x.h
                    else:
                        x.S = x.S
                    obs['Ttol_ok'] = bool(abs(x.T - T0) <= 1e-3)
                else:
                    raise KeyError(op)
        except Exception as e:
            exc = type(e).__name__
            obs['msg'] = str(e)[:200]
        obs['exc'] = exc
        return obs


def random_op(rng, w, names=NAMES, last_mix=None):
    """last_mix = (receiver, inlets) of the immediately preceding mix: only then is separating an inlet out of the
    receiver physically meaningful (the receiver contains it)."""
    x = rng.choice(names)
    if last_mix and rng.random() < 0.5:
        r, ins = last_mix
        ys = [i for i in ins if i != r]
        if ys:
            y = rng.choice(ys)
            return 'separate', dict(x=r, y=y, reach=w.sep_reach(r, y))
    op = rng.choice(['mix'] * 6 + ['set_H'] * 3 + ['set_h', 'set_S', 'set_S', 'set_same_H', 'set_same_h', 'set_same_S'])
    if op == 'mix':
        ins = [rng.choice(names) for _ in range(rng.randint(0, 3))]
        Q = rng.choice([0, 0, 100000, -50000, 2500000, 3000, -700])
        return op, dict(r=x, ins=ins, Q=Q, reach=w.mix_reach(x, ins, Q))
    if op in ('set_H', 'set_h', 'set_S'):
        # C02 quantifies over targets between the stream's values at the ends of the model range: pick the target as the
        # value at a temperature Tt drawn from (occasionally beyond) that range; `reach` tells the spec whether it is inside
        Tt = rng.choice([rng.uniform(T_LO, T_HI), rng.uniform(T_LO, T_HI), rng.uniform(T_LO, T_HI), rng.uniform(150., 700.), 298.15,
                         w.s[x].T + rng.choice([-1, 1]) * rng.choice([0.01, 0.5, 5.])])
        if w.s[x].isempty():
            return op, dict(x=x, v=0, reach=False)
        what = 'S' if op == 'set_S' else 'H'
        try:
            lo, hi, v = w.at_T(x, T_LO, what), w.at_T(x, T_HI, what), w.at_T(x, Tt, what)
        except Exception:
            return op, dict(x=x, v=0, reach=False)
        unit = SUNIT if what == 'S' else HUNIT
        vi = int(round(v / unit))
        return op, dict(x=x, v=vi, reach=bool(lo <= vi * unit <= hi and abs(vi) < 2 ** 30))
    return op, dict(x=x)
