"""Driver binding spec/Flash.tla to thermosteam's VLE flash (C04)."""
import warnings
from fractions import Fraction
from math import lcm

import numpy as np

import thermosteam as tmo
from thermosteam import equilibrium as eq

from harness.drivers import bubbledew as db

MODULE = 'Flash'
NONE = 'none'
A = db.A
F = Fraction
TP_PAIRS = [(300, 600), (300, 900), (400, 1000), (450, 900), (280, 700), (360, 480), (330, 1650), (420, 560), (300, 200), (450, 150)]
_th = {}


def tla_constants():
    defs = 't_A == <<%s>>\nt_E == {}' % ', '.join(str(a) for a in A)
    return defs, ['NC = %d' % len(A), 'A <- t_A', 'WVals <- t_E', 'CVals <- t_E', 'VVals <- t_E', 'Ops <- t_E', 'TolT = 1000', 'TolP = 2000', 'TolC = 250']


def cap(v):
    v = float(v)
    if v != v:
        return 2 * 10 ** 9
    return int(min(abs(v), 2e9))


def q(x):
    x = F(x)
    return [x.numerator, x.denominator]


def propose(rng):
    """an exact flash problem of the synthetic ideal world: feed weights w, T, P and its region / Rachford-Rice solution"""
    n = len(A)
    for _ in range(200):
        T, P = rng.choice(TP_PAIRS)
        c = F(T, P)
        present = sorted(rng.sample(range(n), rng.randint(1, 5)))
        K = {i: A[i] * c for i in present}
        hi = [i for i in present if K[i] > 1]
        lo = [i for i in present if K[i] < 1]
        if hi and lo and rng.random() < 0.75:
            u = {i: F(rng.choice([1, 1, 2, 3, 5])) for i in present}
            sh = sum(u[i] * (K[i] - 1) for i in hi)
            sl = sum(u[i] * (1 - K[i]) for i in lo)
            for i in lo:
                u[i] *= sh / sl
            tot = sum(u.values())
            x = {i: u[i] / tot for i in present}
            V = rng.choice([F(1, 4), F(1, 2), F(3, 4), F(1, 10), F(9, 10), F(1, 3), F(1, 1000), F(999, 1000), F(1, 100)])
            z = {i: x[i] * (1 + V * (K[i] - 1)) for i in present}
            m = lcm(*[v.denominator for v in z.values()])
            w = [0] * n
            for i in present:
                w[i] = int(z[i] * m)
            if max(w) > 30000 or max(v.denominator for v in x.values()) > 3000:
                continue
            xs = [q(x.get(i, 0)) for i in range(n)]
            return dict(w=w, T=T, P=P, region='two', x=xs, V=q(V))
        w = [0] * n
        for i in present:
            w[i] = rng.choice([1, 2, 5])
        W = sum(w)
        swa = sum(w[i] * A[i] for i in range(n))
        swoa = sum(F(w[i], A[i]) for i in range(n))
        if swa * c <= W and swoa <= W * c:
            continue          # a pure component exactly at its saturation pressure: both readings of C04 apply
        if swa * c <= W:
            return dict(w=w, T=T, P=P, region='liquid', x=[q(0)] * n, V=q(0))
        if swoa <= W * c:
            return dict(w=w, T=T, P=P, region='vapour', x=[q(0)] * n, V=q(1))
    raise RuntimeError('no proposal')


def exact(op, a, scale, in_gas, prior_scale=None):
    """prior_scale: the same stream was flashed before at the same specification holding prior_scale x the feed"""
    obs = dict(exc=NONE, msg='', T6=0, P6=0, vf9=[0] * len(A))
    try:
        with warnings.catch_warnings():
            warnings.simplefilter('ignore')
            with np.errstate(all='ignore'):
                th = db.synthetic()
                ids = [c.ID for c in th.chemicals]
                ms = tmo.MultiStream(None, thermo=th, phases='gl', T=350., P=101325.)
                V = a['V'][0] / a['V'][1]
                if prior_scale is not None:
                    for i, wi in enumerate(a['w']):
                        if wi:
                            ms.imol['l', ids[i]] = wi * prior_scale
                    if op == 'tp_exact':
                        ms.vle(T=float(a['T']), P=1000. * a['P'])
                    elif op == 'tv_exact':
                        ms.vle(T=float(a['T']), V=V)
                    else:
                        ms.vle(P=1000. * a['P'], V=V)
                    ms.imol['g'] = 0.
                    ms.imol['l'] = 0.
                for i, wi in enumerate(a['w']):
                    if wi:
                        ms.imol['g' if in_gas else 'l', ids[i]] = wi * scale
                if op == 'tp_exact':
                    ms.vle(T=float(a['T']), P=1000. * a['P'])
                elif op == 'tv_exact':
                    ms.vle(T=float(a['T']), V=V)
                else:
                    ms.vle(P=1000. * a['P'], V=V)
                g = np.asarray(ms.imol['g'].to_array(), float)
                l = np.asarray(ms.imol['l'].to_array(), float)
                tot = g + l
                vf = [int(min(max(round(g[i] / tot[i] * 1e9), -1), 10 ** 9 + 1)) if tot[i] > 0 else (0 if g[i] == 0 else -1) for i in range(len(A))]
                obs.update(T6=cap(ms.T * 1e6), P6=cap(ms.P / 1000. * 1e6), vf9=vf)
    except Exception as e:
        obs['exc'], obs['msg'] = type(e).__name__, str(e)[:160]
    return obs


# ---- real packages ---------------------------------------------------------------------------------------------------------
FAMILIES = {'alcohols': ['Methanol', 'Ethanol', 'Propanol', 'Butanol'], 'hydrocarbons': ['Hexane', 'Heptane', 'Octane', 'Benzene', 'Toluene'],
            'aqueous': ['Water', 'Ethanol', 'Propanol', 'Acetone'],
            # close-boiling isomers (relative volatilities 1.02 - 1.2): a badly conditioned Rachford-Rice equation
            'isomers': ['o-Xylene', 'm-Xylene', 'p-Xylene', 'Ethylbenzene', 'Toluene']}


def real(family, ideal):
    key = (family, ideal)
    if key not in _th:
        cc = tmo.Chemicals(FAMILIES[family] + [tmo.Chemical('N2', phase='g'), tmo.Chemical('Glucose', phase='s')])
        if ideal:
            # the ideal twin of the activity-coefficient package: the SAME chemical objects (solver objects cached per chemicals must not mix the two up)
            _th[key] = real(family, False).ideal()
        else:
            _th[key] = tmo.Thermo(cc, cache=False)
    return _th[key]


def _tables(ms):
    return np.asarray(ms.imol['g'].to_array(), float), np.asarray(ms.imol['l'].to_array(), float)


def measured(family, ideal, comp, kind, u1, u2, k):
    """every clause of C04 measured on one flash of a real package.  comp: ID -> kmol/hr;  kind: specification pair"""
    obs = dict(exc=NONE, msg='', tp_equal=True, hs_dev=0, v_bracketed=True, boundary_ok=True, fug_dev=0, scale_dev=0, V6=0, rr_dev=0, span6=0, hist_dev=0)
    try:
        with warnings.catch_warnings():
            warnings.simplefilter('ignore')
            with np.errstate(all='ignore'):
                th = real(family, ideal)

                def fresh(f=1.):
                    s = tmo.MultiStream(None, thermo=th, phases='gl', T=320., P=101325.)
                    for ID, v in comp.items():
                        s.imol['l', ID] = v * f
                    return s
                vol = [i for i in FAMILIES[family] if comp.get(i, 0) > 0]
                # vapour-fraction, phase-boundary and iso-fugacity clauses: no non-condensable / non-volatile; with activity coefficients only
                # within one homologous family (C04's quantifier)
                plain = not (comp.get('N2', 0) or comp.get('Glucose', 0)) and (ideal or family in ('alcohols', 'hydrocarbons', 'isomers'))
                chems = [getattr(th.chemicals, i) for i in vol]
                z = np.array([comp[i] for i in vol], float)
                zn = z / z.sum()
                T = 280. + u1 * 170.
                P = 10 ** (np.log10(2e4) + u2 * (6 - np.log10(2e4)))
                ms = fresh()
                spec = {}
                if kind == 'TP':
                    if plain and len(vol) > 1 and (family == 'isomers' or k > 10.):
                        # inside the two-phase envelope (narrow for close-boiling mixtures): P between dew and bubble pressure at T
                        Pd_, Pb_ = eq.DewPoint(chems, th)(zn, T=T).P, eq.BubblePoint(chems, th)(zn, T=T).P
                        P = Pd_ + (0.05 + 0.9 * u2) * (Pb_ - Pd_)
                    spec = dict(T=T, P=P)
                elif kind == 'TV':
                    spec = dict(T=T, V=0.02 + 0.96 * u2)
                elif kind == 'PV':
                    spec = dict(P=P, V=0.02 + 0.96 * u1)
                elif kind in ('TH', 'TS'):
                    # temperature with enthalpy / entropy between the all-liquid and the all-vapour value at that temperature
                    lo, hi = fresh(), fresh()
                    lo.vle(T=T, V=0.)
                    hi.vle(T=T, V=1.)
                    w = kind[1]
                    spec = dict(T=T)
                    spec[w] = getattr(lo, w) + (0.05 + 0.9 * u2) * (getattr(hi, w) - getattr(lo, w))
                    # width of the two-phase envelope at this temperature relative to the pressure (the T-H / T-S solvers resolve P to 1 Pa)
                    obs['span6'] = cap(abs(lo.P - hi.P) / max(lo.P, hi.P) * 1e6)
                    # what the solver's stated pressure resolution (P_tol = 1 Pa; 3 Pa allowed) is worth in H / S across the envelope
                    th_res = abs(getattr(hi, w) - getattr(lo, w)) * min(1., 3. / max(abs(lo.P - hi.P), 1e-12))
                elif kind in ('Tx', 'Ty', 'Px', 'Py'):
                    # composition specifications (two volatile chemicals): liquid / vapour composition with temperature or pressure
                    # (next to the overall composition: the lever rule needs it between the liquid and the vapour composition)
                    c = float(min(max(zn[0] + ((u2 if kind[0] == 'T' else u1) - 0.5) * 0.3, 0.02), 0.98))
                    spec = {kind[0]: T if kind[0] == 'T' else P, kind[1]: np.array([c, 1. - c])}
                else:
                    lo, hi = fresh(), fresh()
                    lo.vle(P=P, V=0.)
                    hi.vle(P=P, V=1.)
                    w = 'H' if kind == 'PH' else 'S'
                    spec = dict(P=P)
                    # every third case next to the all-liquid end (with non-condensable gas the solver treats that corner separately)
                    frac = u1 if int(u2 * 1000) % 3 else 0.06 * u1
                    spec[w] = getattr(lo, w) + frac * (getattr(hi, w) - getattr(lo, w))
                ms.vle(**spec)
                if 'T' in spec and 'P' not in spec and not (2e4 <= ms.P <= 1e6):
                    # the pressure a temperature specification leads to lies outside 2e4 - 1e6 Pa: outside C04's quantifier
                    # (at a few hundred Pa the 1 Pa pressure resolution of the T-H / T-S solver is a large part of the envelope)
                    obs['exc'], obs['msg'] = 'OutOfQuantifier', 'P = %r' % ms.P
                    return obs
                g, l = _tables(ms)
                obs['tp_equal'] = bool(all(getattr(ms, kk) == vv for kk, vv in spec.items() if kk in 'TP'))
                if 'H' in spec or 'S' in spec:
                    w = 'H' if 'H' in spec else 'S'
                    scale = max(abs(spec[w]), abs(ms.C) * (1. if w == 'H' else 1. / ms.T))
                    dev = abs(getattr(ms, w) - spec[w])
                    if kind in ('TH', 'TS'):
                        dev = max(0., dev - th_res)        # temperature given: the pressure is resolved to P_tol, no final correction of the split
                    obs['hs_dev'] = cap(dev / scale * 1e9)
                if 'V' in spec and plain:
                    # the specification is met at the equilibrium point: one solver resolution to either side brackets it
                    a_, b_ = fresh(), fresh()
                    if 'T' in spec:
                        dP = max(20., 2e-5 * ms.P)
                        a_.vle(T=spec['T'], P=ms.P + dP)
                        b_.vle(T=spec['T'], P=ms.P - dP)
                    else:
                        a_.vle(T=ms.T - 2e-3, P=spec['P'])
                        b_.vle(T=ms.T + 2e-3, P=spec['P'])
                    Va, Vb = a_.vapor_fraction, b_.vapor_fraction
                    in_range = 280. <= ms.T <= 450. and 2e4 <= ms.P <= 1e6
                    # the specification (and what is read back) lies between the equilibrium vapour fractions one solver
                    # resolution to either side of the returned point; judged inside the ranges C04 names only
                    obs['v_bracketed'] = bool(not in_range or (Va - 1e-6 <= spec['V'] <= Vb + 1e-6 and Va - 1e-6 <= ms.vapor_fraction <= Vb + 1e-6))
                    if not obs['v_bracketed']:
                        obs['msg'] = 'V=%r read=%r lower=%r upper=%r T=%r P=%r' % (spec['V'], ms.vapor_fraction, Va, Vb, ms.T, ms.P)
                obs['V6'] = cap(ms.vapor_fraction * 1e6)
                if kind == 'TP' and plain and len(vol) > 1:
                    bp, dp = eq.BubblePoint(chems, th), eq.DewPoint(chems, th)
                    Pb, Pd = bp(zn, T=T).P, dp(zn, T=T).P
                    gi = np.array([g[th.chemicals.index(i)] for i in vol])
                    li = np.array([l[th.chemicals.index(i)] for i in vol])
                    if P >= Pb * (1 + 1e-6):
                        obs['boundary_ok'] = bool(gi.sum() == 0)
                    elif P <= Pd * (1 - 1e-6):
                        obs['boundary_ok'] = bool(li.sum() == 0)
                    elif Pd * (1 + 1e-6) < P < Pb * (1 - 1e-6):
                        obs['boundary_ok'] = bool(gi.sum() > 0 and li.sum() > 0)
                        if gi.sum() > 0 and li.sum() > 0:
                            x, y = li / li.sum(), gi / gi.sum()
                            fl = eq.LiquidFugacities(chems, th)(x, T, P)
                            fg = eq.GasFugacities(chems, th)(y, T, P)
                            ok = zn >= 0.02
                            obs['fug_dev'] = cap((np.abs(fl - fg) / np.maximum(fl, fg))[ok].max() * 1e9)
                            if ideal:
                                # ideal package: an independent Raoult's-law Rachford-Rice solution (bisection to the last bit)
                                K = np.array([c.Psat(T) for c in chems]) / P
                                f = lambda V: float((zn * (K - 1.) / (1. + V * (K - 1.))).sum())
                                lo_, hi_ = 0., 1.
                                if f(lo_) > 0 > f(hi_):
                                    for _ in range(200):
                                        mid = 0.5 * (lo_ + hi_)
                                        if f(mid) > 0:
                                            lo_ = mid
                                        else:
                                            hi_ = mid
                                    obs['rr_dev'] = cap(abs(gi.sum() / (gi.sum() + li.sum()) - 0.5 * (lo_ + hi_)) * 1e9)
                if kind[1] in 'xy':
                    return obs          # (the composition specifications fix the split by the lever rule: no scaling clause)
                # the SAME stream object (and its solver object) refilled with other material - other chemicals of the family in the same
                # number, other proportions, other total - and flashed again with the same kind of specification at the same T / P:
                # the answer is that of a new stream holding that material, whatever the solver remembers
                fam_ids = FAMILIES[family]
                shift = 1 + int(u1 * 1000) % max(len(fam_ids) - 1, 1)
                comp2 = {}
                for n_, (ID, v) in enumerate(sorted(comp.items())):
                    ID2 = fam_ids[(fam_ids.index(ID) + shift) % len(fam_ids)] if ID in fam_ids and int(u2 * 1000) % 2 else ID
                    comp2[ID2] = comp2.get(ID2, 0.) + v * (0.3 + 1.7 * ((n_ * 7 + int(u2 * 100)) % 10) / 10.) * 3.7
                def refill(st):
                    for ph in st.phases:
                        st.imol[ph] = 0.
                    for ID, v in comp2.items():
                        st.imol['l', ID] = v
                    st.T, st.P = 320., 101325.
                new = tmo.MultiStream(None, thermo=th, phases='gl', T=320., P=101325.)
                refill(new)
                refill(ms)
                spec2 = dict(spec)
                for w in ('H', 'S'):
                    if w in spec2:
                        lo2, hi2 = tmo.MultiStream(None, thermo=th, phases='gl', T=320., P=101325.), tmo.MultiStream(None, thermo=th, phases='gl', T=320., P=101325.)
                        refill(lo2); refill(hi2)
                        fixed = {kk: vv for kk, vv in spec.items() if kk in 'TP'}
                        lo2.vle(V=0., **fixed); hi2.vle(V=1., **fixed)
                        spec2[w] = getattr(lo2, w) + 0.5 * (getattr(hi2, w) - getattr(lo2, w))
                try:
                    new.vle(**spec2)
                    ok_new = True
                except Exception:
                    ok_new = False
                if ok_new and 2e4 <= new.P <= 1e6 and 280. <= new.T <= 450.:        # (judged inside the ranges C04 names)
                    ms.vle(**spec2)
                    g1, l1 = _tables(ms)
                    g2, l2 = _tables(new)
                    tot2 = max((g2 + l2).max(), 1e-30)
                    obs['msg'] = 'again: P %r / new %r, T %r / new %r, V %r / new %r' % (ms.P, new.P, ms.T, new.T, ms.vapor_fraction, new.vapor_fraction)
                    if 'V' in spec or kind in ('TH', 'TS'):
                        # a temperature (pressure) is solved for to P_tol = 1 Pa (T_tol): both runs must land within 3 Pa / 1e-6 T of each
                        # other; the split at that resolution is not compared (it is steep where a non-condensable gas is present); with
                        # activity coefficients outside one homologous family the vapour-fraction solvers are not judged (as for the V clause)
                        dP = max(abs(ms.P - new.P) - 3., 0.) / new.P
                        dT = max(abs(ms.T - new.T) - 1e-6 * new.T, 0.) / new.T
                        obs['hist_dev'] = cap(max(dP, dT) * 1e9) if (plain or kind in ('TH', 'TS')) else 0
                    else:
                        obs['hist_dev'] = cap(max(np.abs(g1 - g2).max() / tot2, np.abs(l1 - l2).max() / tot2, abs(ms.T - new.T) / new.T, abs(ms.P - new.P) / new.P) * 1e9)
                # scaling of the feed
                ks = fresh(k)
                ks.vle(**{kk: (vv * k if kk in 'HS' else vv) for kk, vv in spec.items()})
                gk, lk = _tables(ks)
                tot = np.maximum(g + l, 1e-30)
                obs['scale_dev'] = cap(max(np.abs(gk / k - g).max(initial=0.) / tot.max(), (np.abs(lk / k - l) / tot.max()).max(initial=0.)) * 1e9)
    except Exception as e:
        obs['exc'], obs['msg'] = type(e).__name__, str(e)[:160]
    return obs
