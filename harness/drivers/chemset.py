"""Driver binding spec/ChemSet.tla to thermosteam.Chemicals / CompiledChemicals (synthetic chemicals: CAS = ID)."""
import random
import warnings

import thermosteam as tmo

MODULE = 'ChemSet'
NONE = 'none'
COLS = ['p', 'q']
CHEMS = ['A', 'B', 'C']
ANAMES = ['x', 'g']
RESERVED = ('tuple', 'size', 'IDs', 'CASs', 'MW', 'Hf', 'LHV', 'HHV')


def tla_constants(chems=CHEMS):
    q = lambda xs: '{%s}' % ', '.join('"%s"' % x for x in xs)
    defs = '\n'.join(['t_Cols == %s' % q(COLS), 't_Chems == %s' % q(chems), 't_AN == %s' % q(ANAMES), 't_E == {}'])
    return defs, ['Cols <- t_Cols', 'Chems <- t_Chems', 'ANames <- t_AN', 'Ops <- t_E']


class World:
    def __init__(self, chems=CHEMS):
        self.chems = list(chems)
        # fresh chemical objects per world: aliases are remembered by the objects
        self.ch = {c: tmo.Chemical(c, search_db=False, MW=10. * (i + 1)) for i, c in enumerate(chems)}
        self.name_of = {id(v): k for k, v in self.ch.items()}
        self.col = {p: tmo.Chemicals([]) for p in COLS}

    def _n(self, obj):
        return self.name_of.get(id(obj), 'foreign')

    def project(self):
        col = {}
        for p, c in self.col.items():
            compiled = isinstance(c, tmo.CompiledChemicals)
            ids = [self._n(x) for x in c]
            tab = []
            if compiled:
                for name, idx in c._index.items():
                    if isinstance(idx, int):
                        tab.append([name, 'chem', ids[idx]])
                    else:
                        tab.append([name, 'group', [ids[i] for i in idx]])
                # the attribute dictionary and the index must tell the same story
                for name, kind, val in tab:
                    got = c.__dict__.get(name)
                    want = self.ch[val] if kind == 'chem' else [self.ch[v] for v in val]
                    if (got is not want) if kind == 'chem' else (got != want):
                        tab.append(['<dict/index mismatch: %s>' % name, 'chem', 'foreign'])
            col[p] = dict(ids=ids, compiled=compiled, tab=sorted(tab, key=repr))
        return dict(col=col, cal={c: sorted(self.ch[c].aliases) for c in self.chems})

    def apply(self, op, a):
        exc, extra = NONE, {}
        with warnings.catch_warnings():
            warnings.simplefilter('ignore')
            try:
                extra = self._apply(op, a) or {}
            except Exception as e:
                exc = type(e).__name__
                extra = dict(msg=str(e)[:200])
        obs = dict(exc=exc, res=NONE)
        obs.update(extra)
        return obs

    def _apply(self, op, a):
        C, ch = self.col, self.ch
        if op == 'new':
            C[a['p']] = tmo.Chemicals([ch[c] for c in a['cs']])
        elif op == 'append':
            C[a['p']].append(ch[a['c']])
        elif op == 'extend':
            C[a['p']].extend([ch[c] for c in a['cs']])
        elif op == 'extend_from':
            C[a['p']].extend(C[a['q']])
        elif op == 'compile':
            C[a['p']].compile(skip_checks=True)
        elif op == 'set_alias':
            C[a['p']].set_alias(a['n'], a['k'])
        elif op == 'define_group':
            C[a['p']].define_group(a['k'], list(a['ns']))
        elif op == 'index':
            r = C[a['p']].index(a['n'])
            return dict(res=[r + 1] if isinstance(r, int) else [i + 1 for i in r])
        elif op == 'contains':
            return dict(res='yes' if a['n'] in C[a['p']] else 'no')
        elif op == 'getitem':
            r = C[a['p']][a['n']]
            return dict(res=[self._n(x) for x in r] if isinstance(r, list) else [self._n(r)])
        elif op == 'len':
            return dict(res=len(C[a['p']]))
        else:
            raise KeyError(op)


def random_op(rng, chems=CHEMS):
    names = chems + ANAMES
    p = rng.choice(COLS)
    op = rng.choice(['new', 'append', 'append', 'extend', 'extend_from', 'compile', 'compile', 'set_alias', 'set_alias', 'set_alias', 'define_group', 'define_group',
                     'index', 'contains', 'getitem', 'len'])
    if op in ('new', 'extend'):
        return op, dict(p=p, cs=[rng.choice(chems) for _ in range(rng.randint(0 if op == 'new' else 1, 3))])
    if op == 'append':
        return op, dict(p=p, c=rng.choice(chems))
    if op == 'extend_from':
        return op, dict(p=p, q=[c for c in COLS if c != p][0])
    if op in ('compile', 'len'):
        return op, dict(p=p)
    if op == 'set_alias':
        return op, dict(p=p, n=rng.choice(names), k=rng.choice(names))
    if op == 'define_group':
        return op, dict(p=p, k=rng.choice(names), ns=rng.sample(names, rng.randint(1, 3)))
    return op, dict(p=p, n=rng.choice(names))
