"""Driver binding spec/Naming.tla to thermosteam's registry and ID protocol (AbstractStream objects, their class registry)."""
import random
import warnings

import thermosteam as tmo

MODULE = 'Naming'
NONE = 'none'
OBJS = ['o1', 'o2', 'o3']
NAMES = ['a', 'b']
BAD = ['1x']
ALIASES = ['k']
INTS = [0, 2]
MODES = {'safe_none': (None, True), 'safe_false': (False, True), 'safe_true': (True, True), 'unsafe_true': (True, False), 'unsafe_none': (None, False)}
tmo.settings.set_thermo([], cache=False)


def tla_constants(objs=OBJS):
    q = lambda xs: '{%s}' % ', '.join('"%s"' % x for x in xs)
    defs = '\n'.join(['t_Objs == %s' % q(objs), 't_Names == %s' % q(NAMES), 't_Bad == %s' % q(BAD), 't_Aliases == %s' % q(ALIASES),
                      't_Ints == {0, 2}', 't_E == {}'])
    return defs, ['Objs <- t_Objs', 'Names <- t_Names', 'BadNames <- t_Bad', 'Aliases <- t_Aliases', 'Ints <- t_Ints', 'Prefix = "s"',
                  'MaxTicket = 1000', 'Ops <- t_E']


class World:
    def __init__(self, objs=OBJS):
        cls = tmo.AbstractStream
        self.cls = cls
        self.R = R = cls.registry
        R.data.clear()
        R.safe_to_replace.clear()
        R.registered_objects.clear()
        del R.context_levels[:]
        cls.ticket_numbers.clear()
        self.names = list(objs)
        self.o = {n: cls(None) for n in objs}
        self.name_of = {id(v): k for k, v in self.o.items()}

    def _n(self, obj):
        return self.name_of.get(id(obj), 'foreign')

    def project(self):
        R = self.R
        return dict(data=sorted([k, self._n(v)] for k, v in R.data.items()),
                    id={n: o._ID for n, o in self.o.items()},
                    ticket=int(self.cls.ticket_numbers.get(self.cls.ticket_name, 0)),
                    safe=sorted(self._n(x) for x in R.safe_to_replace),
                    reg=sorted(self._n(x) for x in R.registered_objects),
                    ctx=[[self._n(x) for x in lvl] for lvl in R.context_levels])

    def apply(self, op, a):
        exc, extra = NONE, {}
        with warnings.catch_warnings(record=True) as rec:
            warnings.simplefilter('always')
            try:
                extra = self._apply(op, a) or {}
            except Exception as e:
                exc = type(e).__name__
                extra = dict(msg=str(e)[:200])
        kinds = []
        for w in rec:
            m = str(w.message)
            kinds.append('renaming' if 'upon renaming' in m else 'alias_replaced' if m.startswith('alias ') else 'replaced' if 'has been replaced in registry' in m else 'other')
        warn = NONE if not kinds else (kinds[0] if len(kinds) == 1 else '+'.join(kinds))
        obs = dict(exc=exc, warn=warn, res=NONE, level=[])
        obs.update(extra)
        return obs

    def _apply(self, op, a):
        R, O = self.R, self.o
        if op == 'set_id':
            o, k = O[a['o']], a['kind']
            o.ID = None if k == 'none' else '' if k == 'auto' else ('.' + a['v']) if k == 'dot' else a['v']
        elif op == 'discard':
            R.discard(O[a['o']])
        elif op == 'discard_name':
            R.discard(a['k'])
        elif op == 'pop':
            return dict(res=self._n(R.pop(O[a['o']])))
        elif op == 'clear':
            R.clear()
        elif op == 'untrack':
            R.untrack([O[n] for n in a['os']])
        elif op == 'track':
            R.track([O[n] for n in a['os']])
        elif op == 'open_ctx':
            R.open_context_level()
        elif op == 'close_ctx':
            return dict(level=[self._n(x) for x in R.close_context_level()])
        elif op == 'alias':
            override, safe = MODES[a['mode']]
            O[a['o']].register_alias(a['k'], override=override, safe=safe)
        elif op == 'contains':
            return dict(res='yes' if O[a['o']] in R else 'no')
        elif op == 'search':
            x = R.search(a['k'])
            return dict(res=NONE if x is None else self._n(x))
        else:
            raise KeyError(op)


def random_op(rng, objs=OBJS):
    o = rng.choice(objs)
    op = rng.choice(['set_id'] * 8 + ['discard', 'pop', 'discard_name', 'clear', 'untrack', 'track', 'track', 'open_ctx', 'close_ctx', 'alias', 'alias', 'contains', 'search'])
    if op == 'set_id':
        kind = rng.choice(['none', 'auto', 'auto', 'dot', 'int', 'name', 'name', 'name'])
        v = rng.choice(NAMES + (BAD if kind == 'name' and rng.random() < 0.2 else [])) if kind in ('dot', 'name') else (rng.choice(INTS + [5, 9]) if kind == 'int' else 0)
        return op, dict(o=o, kind=kind, v=v)
    if op in ('discard', 'pop', 'contains'):
        return op, dict(o=o)
    if op in ('discard_name', 'search'):
        return op, dict(k=rng.choice(NAMES + ALIASES + ['s1', 's2', 's3', 's6']))
    if op in ('untrack', 'track'):
        return op, dict(os=rng.sample(objs, rng.randint(1, len(objs))))
    if op == 'alias':
        return op, dict(o=o, k=rng.choice(ALIASES), mode=rng.choice(sorted(MODES)))
    return op, dict(x=0)
