"""Driver binding spec/Sparse.tla to thermosteam.base.sparse (C09)."""
import itertools
import operator
import random
import warnings
from fractions import Fraction

import numpy as np

import sys
import thermosteam.base  # noqa
sp = sys.modules['thermosteam.base.sparse']

MODULE = 'Sparse'
NONE = 'none'
REJECT = dict(nd=-1, b=False, e=[])

UNIVERSES = {
    'vb2': dict(names={'v': 'vec', 'b': 'lvec'}, nrows=2, ncols=2),
    'vwb2': dict(names={'v': 'vec', 'w': 'vec', 'b': 'lvec'}, nrows=2, ncols=2),
    'vbA2': dict(names={'v': 'vec', 'b': 'lvec', 'A': 'arr'}, nrows=2, ncols=2),
    'vwbA3': dict(names={'v': 'vec', 'w': 'vec', 'b': 'lvec', 'A': 'arr'}, nrows=2, ncols=3),
    'big': dict(names={'v': 'vec', 'w': 'vec', 'b': 'lvec', 'c': 'lvec', 'A': 'arr', 'B': 'arr'}, nrows=3, ncols=6),
}


def tla_constants(universe, bound=0, dbound=0):
    names = sorted(universe['names'])
    defs = '\n'.join([
        't_Names == {%s}' % ', '.join('"%s"' % n for n in names),
        't_Kind == [n \\in t_Names |-> CASE ' + ' [] '.join('n = "%s" -> "%s"' % (n, universe['names'][n]) for n in names) + ']',
        't_Alphabet == {}', 't_Ops == {}',
    ])
    cfg = ['Names <- t_Names', 'Kind <- t_Kind', 'NRows = %d' % universe['nrows'], 'NCols = %d' % universe['ncols'],
           'Alphabet <- t_Alphabet', 'Bound = %d' % bound, 'DBound = %d' % dbound, 'Ops <- t_Ops']
    return defs, cfg


# ---- value conversion ---------------------------------------------------------

def num(x):
    x = float(x)
    if x != x or x in (float('inf'), float('-inf')):
        return [0, 0]
    f = Fraction(x).limit_denominator(1 << 20)
    return [f.numerator, f.denominator]


def elem(x, isb):
    return bool(x) if isb else num(x)


def tensor(arr):
    """numpy array / scalar -> tensor dict."""
    a = np.asarray(arr)
    isb = a.dtype == np.bool_
    if a.ndim == 0:
        return dict(nd=0, b=bool(isb), e=elem(a[()], isb))
    if a.ndim == 1:
        return dict(nd=1, b=bool(isb), e=[elem(x, isb) for x in a])
    if a.ndim == 2:
        return dict(nd=2, b=bool(isb), e=[[elem(x, isb) for x in r] for r in a])
    return dict(nd=a.ndim, b=bool(isb), e=[])


def image(obj):
    """Dense image of a sparse object built from what it stores (robust against stored indices outside the
    size, which to_array() cannot represent; those show up in rep_of and are judged by RepOK)."""
    def row(r):
        if isinstance(r, sp.SparseLogicalVector):
            a = np.zeros(r.size, dtype=bool)
            for k in r.set:
                if 0 <= k < r.size:
                    a[k] = True
            return a
        a = np.zeros(r.size, dtype=float)
        for k, v in r.dct.items():
            if 0 <= k < r.size:
                a[k] = v
        return a
    if isinstance(obj, sp.SparseArray):
        rows = [row(r) for r in obj.rows]
        if len({len(r) for r in rows}) > 1:
            n = max(len(r) for r in rows)
            rows = [np.concatenate([r, np.zeros(n - len(r), dtype=r.dtype)]) for r in rows]
        return np.array(rows)
    return row(obj)


def dense(obj):
    if isinstance(obj, (sp.SparseVector, sp.SparseLogicalVector, sp.SparseArray)):
        return image(obj)
    return np.asarray(obj)


def from_tensor(t):
    """tensor dict -> numpy array (float or bool)."""
    def val(x):
        return bool(x) if t['b'] else x[0] / x[1]
    if t['nd'] == 0:
        return np.array(val(t['e']))
    if t['nd'] == 1:
        return np.array([val(x) for x in t['e']], dtype=bool if t['b'] else float)
    return np.array([[val(x) for x in r] for r in t['e']], dtype=bool if t['b'] else float)


def rep_of(obj):
    """What the object stores: list of rows [size, keys, vals]."""
    def row(r):
        if isinstance(r, sp.SparseLogicalVector):
            keys = sorted(int(k) for k in r.set)
            return dict(size=int(r.size), keys=keys, vals=[True] * len(keys))
        keys = sorted(r.dct)
        return dict(size=int(r.size), keys=[int(k) for k in keys], vals=[num(r.dct[k]) for k in keys])
    if isinstance(obj, sp.SparseArray):
        return [row(r) for r in obj.rows]
    if isinstance(obj, (sp.SparseVector, sp.SparseLogicalVector)):
        return [row(obj)]
    return []


class World:
    def __init__(self, universe):
        self.universe = universe
        n, m = universe['ncols'], universe['nrows']
        self.objs = {}
        for name, kind in universe['names'].items():
            if kind == 'vec':
                self.objs[name] = sp.SparseVector.from_size(n)
            elif kind == 'lvec':
                self.objs[name] = sp.SparseLogicalVector.from_size(n)
            else:
                self.objs[name] = sp.SparseArray.from_shape((m, n))
        self.ro = {name: False for name in self.objs}

    def set_state(self, st):
        for name, kind in self.universe['names'].items():
            arr = from_tensor(st['objs'][name])
            if kind == 'vec':
                o = sp.SparseVector(arr)
            elif kind == 'lvec':
                o = sp.SparseLogicalVector(arr)
            else:
                o = sp.SparseArray(arr)
            if st['ro'][name]:
                o.setflags(0)
            self.objs[name] = o
            self.ro[name] = bool(st['ro'][name])

    def _ro(self, o):
        if isinstance(o, sp.SparseArray):
            return all(getattr(r, 'read_only', False) for r in o.rows) and bool(o.rows)
        return bool(getattr(o, 'read_only', False))

    def project(self):
        return dict(objs={n: tensor(image(o)) for n, o in self.objs.items()},
                    ro={n: self._ro(o) for n, o in self.objs.items()})

    # ---- operands ---------------------------------------------------------
    def operand(self, o):
        if o['k'] == 'ref':
            return self.objs[o['ref']]
        arr = from_tensor(o['t'])
        if o['k'] == 'py':
            return bool(arr) if o['t']['b'] else float(arr)
        if o['k'] == 'list':
            return arr.tolist()
        if o['k'] == 'sp':          # a fresh sparse object (vector / logical vector / array, any length incl. 1)
            if arr.ndim == 2:
                return sp.SparseArray(arr)
            return sp.SparseLogicalVector(arr) if o['t']['b'] else sp.SparseVector(arr)
        return arr

    def np_operand(self, o, pre):
        if o['k'] == 'ref':
            return pre[o['ref']]
        return from_tensor(o['t'])

    def index(self, ix, np_side=False):
        k = ix['k']
        if k == 'int':
            return ix['i'] - 1
        if k == 'slice':
            return slice(ix['lo'], ix['hi'])
        if k == 'all':
            return slice(None)
        if k == 'fancy':
            return [i - 1 for i in ix['idx']]
        if k == 'mask':
            return np.array(ix['m'], dtype=bool)
        if k == 'row':
            return ix['i'] - 1
        if k == 'cell':
            return (ix['i'] - 1, ix['j'] - 1)
        if k == 'col':
            return (slice(None), ix['j'] - 1)
        if k == 'rowslice':
            return (ix['i'] - 1, slice(ix['lo'], ix['hi']))
        if k == 'rows':
            return [i - 1 for i in ix['idx']]
        if k == 'rowscol':
            return ([i - 1 for i in ix['idx']], ix['j'] - 1)
        if k == 'cells':
            return ([i - 1 for i in ix['idx']], [j - 1 for j in ix['jdx']])
        raise KeyError(k)

    # ---- apply ------------------------------------------------------------------
    def apply(self, op, a):
        pre = {n: image(o) for n, o in self.objs.items()}
        self._pre_ro = {n: self._ro(o) for n, o in self.objs.items()}
        res = None
        exc = NONE
        try:
            with warnings.catch_warnings():
                warnings.simplefilter('ignore')
                res = self._apply(op, a)
                restensor = None if res is None else tensor(dense(res))
                resrep = rep_of(res) if res is not None else []
                if op in ('bin', 'rbin', 'un', 'red') and isinstance(res, (sp.SparseVector, sp.SparseLogicalVector, sp.SparseArray)):
                    # in-place operations change only their target: scribble over the result; the operands and
                    # all other objects (projected below) must not notice
                    try:
                        if res.dtype is bool:
                            res ^= True
                        else:
                            res += 1.
                            res *= 3.
                    except Exception:
                        pass
        except Exception as e:
            exc = type(e).__name__
            restensor, resrep = None, []
        # NumPy second opinion on the dense images (guards against transcription errors in the spec)
        npres, npexc = None, NONE
        try:
            with warnings.catch_warnings():
                warnings.simplefilter('ignore')
                with np.errstate(all='ignore'):
                    npres = self._numpy(op, a, pre)
        except Exception as e:
            npexc = type(e).__name__
        names = sorted(self.objs)
        obs = dict(exc=exc, names=names,
                   rep={n: rep_of(self.objs[n]) for n in names},
                   res=REJECT if restensor is None else restensor,
                   resrep=resrep,
                   np=REJECT if npres is None else tensor(npres), npexc=npexc)
        return obs

    _ops = dict(add=operator.add, sub=operator.sub, mul=operator.mul, truediv=operator.truediv,
                eq=operator.eq, ne=operator.ne, lt=operator.lt, gt=operator.gt, le=operator.le, ge=operator.ge)
    _ops['and'] = operator.and_
    _ops['or'] = operator.or_
    _ops['xor'] = operator.xor
    _iops = dict(add=operator.iadd, sub=operator.isub, mul=operator.imul, truediv=operator.itruediv)
    _iops['and'] = operator.iand
    _iops['or'] = operator.ior
    _iops['xor'] = operator.ixor

    def _apply(self, op, a):
        O = self.objs
        if op in ('iop', 'ilog'):
            t = O[a['tgt']]
            r = self._iops[a['f']](t, self.operand(a['o']))
            assert r is t, 'in-place operator returned another object'
            return None
        if op == 'setitem':
            O[a['tgt']][self.index(a['ix'])] = self.operand(a['o'])
            return None
        if op == 'clear':
            O[a['tgt']].clear()
            return None
        if op == 'setflags':
            O[a['tgt']].setflags(0)
            return None
        if op == 'copy_like':
            O[a['tgt']].copy_like(O[a['src']])
            return None
        if op == 'mix_from':
            O[a['tgt']].mix_from([O[n] for n in a['srcs']])
            return None
        if op == 'bin':
            return self._ops[a['f']](O[a['x']], self.operand(a['o']))
        if op == 'rbin':
            return self._ops[a['f']](self.operand(a['o']), O[a['x']])
        if op == 'un':
            x = O[a['x']]
            f = a['f']
            return {'neg': lambda: -x, 'abs': lambda: abs(x), 'invert': lambda: ~x, 'copy': lambda: x.copy(),
                    'to_array': lambda: x.to_array()}[f]()
        if op == 'red':
            axis = {NONE: None, 'a0': 0, 'a1': 1}[a['axis']]
            return getattr(O[a['x']], a['f'])(axis=axis, keepdims=a['keep'])
        if op == 'getitem':
            return O[a['x']][self.index(a['ix'])]
        raise KeyError(op)

    def _numpy(self, op, a, pre):
        """Same call on dense NumPy arrays; returns the result (pure) or the new image of the target."""
        if op in ('iop', 'ilog', 'setitem', 'clear') and self._pre_ro[a['tgt']]:
            raise ValueError('assignment destination is read-only')
        if op in ('iop', 'ilog'):
            t = pre[a['tgt']].copy()
            y = self.np_operand(a['o'], pre)
            r = self._ops[a['f']](t, y)
            if r.shape != t.shape:
                raise ValueError('non-broadcastable output')
            return r.astype(t.dtype)
        if op == 'setitem':
            t = pre[a['tgt']].copy()
            t[self.index(a['ix'])] = self.np_operand(a['o'], pre)
            return t
        if op == 'clear':
            return np.zeros_like(pre[a['tgt']])
        if op == 'copy_like':
            return pre[a['src']].copy()
        if op == 'mix_from':
            t = np.zeros_like(pre[a['tgt']])
            for n in a['srcs']:
                t = t + pre[n]
            return t
        if op == 'setflags':
            return pre[a['tgt']]
        if op == 'bin':
            return self._ops[a['f']](pre[a['x']], self.np_operand(a['o'], pre))
        if op == 'rbin':
            return self._ops[a['f']](self.np_operand(a['o'], pre), pre[a['x']])
        if op == 'un':
            x = pre[a['x']]
            return {'neg': lambda: -x, 'abs': lambda: abs(x), 'invert': lambda: ~x, 'copy': lambda: x.copy(),
                    'to_array': lambda: x}[a['f']]()
        if op == 'red':
            axis = {NONE: None, 'a0': 0, 'a1': 1}[a['axis']]
            return getattr(pre[a['x']], a['f'])(axis=axis, keepdims=a['keep'])
        if op == 'getitem':
            return pre[a['x']][self.index(a['ix'])]
        raise KeyError(op)


# ---- candidate generation -------------------------------------------------------------

VALUES = [Fraction(0), Fraction(1), Fraction(-1), Fraction(2), Fraction(1, 2)]
BIGVALUES = VALUES + [Fraction(-2), Fraction(3), Fraction(1, 4), Fraction(-1, 2), Fraction(3, 2), Fraction(1 << 6), Fraction(1, 1 << 6)]


def fr(x):
    return [x.numerator, x.denominator]


def T(nd, b, e):
    return dict(nd=nd, b=b, e=e)


def lit(k, t):
    return dict(k=k, ref='', t=t)


def ref(n):
    return dict(k='ref', ref=n, t=REJECT)


def random_operand(universe, rng, values, want_bool=False, allow_2d=True, column=False):
    n, m = universe['ncols'], universe['nrows']
    names = list(universe['names'])
    if column:          # dense (m, 1) operand: == / != compare every row with its own length-1 operand
        return lit(rng.choice(['list', 'nd']), T(2, want_bool, [[rng.random() < 0.5 if want_bool else fr(rng.choice(values))] for _ in range(m)]))
    r = rng.random()
    if r < 0.3:
        cand = [x for x in names if (universe['names'][x] == 'lvec') == want_bool or rng.random() < 0.15]
        if cand:
            return ref(rng.choice(cand))
    def el():
        return rng.random() < 0.5 if want_bool else fr(rng.choice(values))
    shape = rng.choice(['0', '1n', '11', '1n'] + (['2mn', '21n', '2m1x'] if allow_2d else []))
    kind = rng.choice(['list', 'nd', 'sp'])
    if shape == '0':
        return lit(rng.choice(['py', 'py', 'nd']), T(0, want_bool, el()))
    if shape == '1n':
        ln = n if rng.random() < 0.85 else rng.choice([n - 1, n + 1])
        return lit(kind, T(1, want_bool, [el() for _ in range(max(ln, 1))]))
    if shape == '11':
        return lit(kind, T(1, want_bool, [el()]))
    if shape == '2mn':
        return lit(kind, T(2, want_bool, [[el() for _ in range(n)] for _ in range(m)]))
    if shape == '21n':
        return lit(kind, T(2, want_bool, [[el() for _ in range(n)]]))
    return lit(kind, T(2, want_bool, [[el() for _ in range(n)] for _ in range(m + 1)]))


def random_index(universe, kind, rng):
    n, m = universe['ncols'], universe['nrows']
    if kind == 'arr':
        k = rng.choice(['row', 'cell', 'col', 'all', 'rowslice', 'rows', 'rowscol', 'cells'])
        if k in ('rows', 'rowscol', 'cells'):
            ln = rng.randint(1, m)
            idx = rng.sample(range(1, m + 1), ln) if rng.random() < 0.8 else [rng.randint(1, m) for _ in range(ln)]
            if k == 'rows':
                return dict(k=k, idx=idx)
            if k == 'rowscol':
                return dict(k=k, idx=idx, j=rng.randint(1, n))
            return dict(k=k, idx=idx, jdx=[rng.randint(1, n) for _ in idx])
        if k == 'row':
            return dict(k=k, i=rng.randint(1, m))
        if k == 'cell':
            return dict(k=k, i=rng.randint(1, m), j=rng.randint(1, n))
        if k == 'col':
            return dict(k=k, j=rng.randint(1, n))
        if k == 'rowslice':
            lo = rng.randint(0, n)
            return dict(k=k, i=rng.randint(1, m), lo=lo, hi=rng.randint(lo, n))
        return dict(k='all')
    k = rng.choice(['int', 'slice', 'all', 'fancy', 'mask'])
    if k == 'int':
        return dict(k=k, i=rng.randint(1, n))
    if k == 'slice':
        lo = rng.randint(0, n)
        return dict(k=k, lo=lo, hi=rng.randint(lo, n))
    if k == 'fancy':
        return dict(k=k, idx=[rng.randint(1, n) for _ in range(rng.randint(1, n))])
    if k == 'mask':
        return dict(k=k, m=[rng.random() < 0.5 for _ in range(n)])
    return dict(k='all')


ARITH = ['add', 'sub', 'mul', 'truediv']
CMP = ['eq', 'ne', 'lt', 'gt', 'le', 'ge']
LOGIC = ['and', 'or', 'xor']


def _entries(t):
    if t['nd'] == 1:
        return [x for x in t['e']]
    if t['nd'] == 2:
        return [x for row in t['e'] for x in row]
    return []


def random_op(universe, rng, values, mutating=None, state=None):
    """One random (op, args); TLC decides whether it is in contract.  With the current state given, some in-place additions /
    subtractions use an operand (scalar or length 1, every operand kind) that cancels one stored entry exactly."""
    names = list(universe['names'])
    kinds = universe['names']
    nums = [x for x in names if kinds[x] != 'lvec']
    logs = [x for x in names if kinds[x] == 'lvec']
    if state is not None and nums and rng.random() < 0.12:
        tgt = rng.choice(nums)
        ent = [x for x in _entries(state['objs'][tgt]) if isinstance(x, list) and x[0] != 0]
        if ent:
            v = rng.choice(ent)
            f = rng.choice(['add', 'sub'])
            val = [-v[0], v[1]] if f == 'add' else [v[0], v[1]]
            shape = rng.choice(['0', '11', '11', '211'])
            if shape == '0':
                o = lit(rng.choice(['py', 'nd']), T(0, False, val))
            elif shape == '11':
                o = lit(rng.choice(['list', 'nd', 'sp', 'sp']), T(1, False, [val]))
            else:
                o = lit(rng.choice(['nd', 'sp']), T(2, False, [[val]]))
            return 'iop', dict(tgt=tgt, f=f, o=o)
    if mutating is None:
        mutating = rng.random() < 0.5
    if mutating:
        op = rng.choice(['iop'] * 5 + ['ilog'] * 2 + ['setitem'] * 5 + ['clear', 'copy_like', 'mix_from', 'mix_from'] + (['setflags'] if rng.random() < 0.1 else []))
        if op == 'iop':
            return op, dict(tgt=rng.choice(nums), f=rng.choice(ARITH), o=random_operand(universe, rng, values, want_bool=rng.random() < 0.1))
        if op == 'ilog':
            return op, dict(tgt=rng.choice(logs), f=rng.choice(LOGIC), o=random_operand(universe, rng, values, want_bool=True, allow_2d=False))
        if op == 'setitem':
            tgt = rng.choice(names)
            ix = random_index(universe, kinds[tgt], rng)
            wb = (kinds[tgt] == 'lvec') or rng.random() < 0.1
            if rng.random() < 0.6:
                # a value whose shape matches the selection (the interesting, accepted case)
                n, m = universe['ncols'], universe['nrows']
                k = ix['k']
                cnt = {'int': 0, 'cell': 0, 'all': n, 'row': n, 'col': m}.get(k)
                if k in ('slice', 'rowslice'):
                    cnt = ix['hi'] - ix['lo']
                elif k in ('fancy', 'rowscol', 'cells'):
                    cnt = len(ix['idx'])
                elif k == 'mask':
                    cnt = sum(ix['m'])
                elif k == 'rows':
                    cnt = n

                def el():
                    return rng.random() < 0.5 if wb else fr(rng.choice(values + [Fraction(0)] * 3))
                if cnt and rng.random() < 0.85:
                    if kinds[tgt] == 'arr' and k == 'all':
                        o = lit(rng.choice(['list', 'nd', 'sp']), T(2, wb, [[el() for _ in range(n)] for _ in range(m)]))
                    elif k == 'rows' and rng.random() < 0.5:
                        o = lit(rng.choice(['list', 'nd']), T(2, wb, [[el() for _ in range(n)] for _ in ix['idx']]))
                    else:
                        o = lit(rng.choice(['list', 'nd', 'sp']), T(1, wb, [el() for _ in range(cnt)]))
                else:
                    o = lit(rng.choice(['py', 'nd']), T(0, wb, el()))
                return op, dict(tgt=tgt, ix=ix, o=o)
            return op, dict(tgt=tgt, ix=ix, o=random_operand(universe, rng, values, want_bool=wb))
        if op in ('clear', 'setflags'):
            return op, dict(tgt=rng.choice(names))
        if op == 'copy_like':
            tgt = rng.choice(names)
            return op, dict(tgt=tgt, src=rng.choice([x for x in names if kinds[x] == kinds[tgt]]))
        vecs = [x for x in names if kinds[x] == 'vec']
        return op, dict(tgt=rng.choice(vecs), srcs=[rng.choice(vecs) for _ in range(rng.randint(0, 3))])
    op = rng.choice(['bin'] * 6 + ['rbin', 'un', 'red', 'red', 'getitem', 'getitem'])
    if op == 'bin':
        x = rng.choice(names)
        if kinds[x] == 'lvec':
            f = rng.choice(LOGIC + ['eq', 'ne'])
            return op, dict(x=x, f=f, o=random_operand(universe, rng, values, want_bool=True, allow_2d=False))
        f = rng.choice(ARITH + CMP)
        if kinds[x] == 'arr' and rng.random() < 0.12:
            return op, dict(x=x, f=rng.choice(['eq', 'ne', 'eq', 'ne', 'lt', 'add']), o=random_operand(universe, rng, values, column=True))
        return op, dict(x=x, f=f, o=random_operand(universe, rng, values, want_bool=rng.random() < 0.1))
    if op == 'rbin':
        return op, dict(x=rng.choice(nums), f=rng.choice(ARITH), o=lit('py', T(0, False, fr(rng.choice(values)))))
    if op == 'un':
        x = rng.choice(names)
        return op, dict(x=x, f=rng.choice(['invert', 'copy', 'to_array'] if kinds[x] == 'lvec' else ['neg', 'abs', 'copy', 'to_array']))
    if op == 'red':
        return op, dict(x=rng.choice(names), f=rng.choice(['any', 'all', 'sum', 'mean', 'max', 'min']),
                        axis=rng.choice([NONE, NONE, 'a0', 'a1']), keep=rng.random() < 0.5)
    x = rng.choice(names)
    return op, dict(x=x, ix=random_index(universe, kinds[x], rng))
