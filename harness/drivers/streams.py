"""Driver binding spec/Streams.tla to thermosteam Stream / MultiStream (C01, C12, C13)."""
import pickle
import random
import warnings

import numpy as np

import thermosteam as tmo

MODULE = 'Streams'
NONE = 'none'
NOSNAP = dict(k='none')
ALLPH = ['L', 'S', 'g', 'l', 's']

UNIVERSAL = ['Water', 'Ethanol', 'Methanol']
_thermo = {}


def thermo(pkg):
    if not _thermo:
        chems = {i: tmo.Chemical(i) for i in UNIVERSAL}
        for i in UNIVERSAL:
            tmo.Chemical(i, cache=True)          # the session's chemical cache holds standard chemicals of the same names
        _thermo['P'] = tmo.Thermo(tmo.Chemicals([chems['Water'], chems['Ethanol'], chems['Methanol']]), cache=False)
        _thermo['Q'] = tmo.Thermo(tmo.Chemicals([chems['Methanol'], chems['Ethanol'], chems['Water']]), cache=False)
        _thermo['R'] = tmo.Thermo(tmo.Chemicals([chems['Ethanol'], chems['Water']]), cache=False)
        # same chemicals at the same positions as P, other models (another enthalpy / entropy datum for ethanol)
        eth = tmo.Chemical('Ethanol', phase_ref='g', cache=False)
        _thermo['P2'] = tmo.Thermo(tmo.Chemicals([tmo.Chemical('Water', cache=False), eth, tmo.Chemical('Methanol', cache=False)]), cache=False)
        # the SAME chemicals object as P with another mixture model (Peng-Robinson departure functions)
        _thermo['P3'] = tmo.Thermo(_thermo['P'].chemicals, mixture=tmo.PRMixture.from_chemicals(_thermo['P'].chemicals), cache=False)
    return _thermo[pkg]


PKG_CHEMS = {'P': [1, 2, 3], 'Q': [1, 2, 3], 'R': [1, 2], 'P2': [1, 2, 3], 'P3': [1, 2, 3]}

UNIVERSES = {
    'mc3': dict(names=['a', 'b', 'c'], pkg={'a': 'P', 'b': 'P', 'c': 'Q'}, nc=2, pkgs={'P': [1, 2], 'Q': [1, 2], 'P2': [1, 2], 'P3': [1, 2]}),
    'mc2': dict(names=['a', 'b'], pkg={'a': 'P', 'b': 'P'}, nc=2, pkgs={'P': [1, 2], 'Q': [1, 2], 'P2': [1, 2], 'P3': [1, 2]}),
    'big': dict(names=['a', 'b', 'c', 'd', 'e'], pkg={'a': 'P', 'b': 'P', 'c': 'Q', 'd': 'R', 'e': 'P'}, nc=3,
                pkgs=PKG_CHEMS),
}
# the model universes use two chemicals: packages P = (Water, Ethanol, Methanol) and Q (reversed) restricted to
# chemicals 1, 2; chemical 3 simply stays at zero there.


def tla_constants(universe):
    names = universe['names']
    pk = sorted(universe['pkgs'])
    defs = '\n'.join([
        't_Names == {%s}' % ', '.join('"%s"' % n for n in names),
        't_Order == <<%s>>' % ', '.join('"%s"' % n for n in names),
        't_InitPkg == [x \\in t_Names |-> CASE ' + ' [] '.join('x = "%s" -> "%s"' % (n, universe['pkg'][n]) for n in names) + ']',
        't_Pkgs == {%s}' % ', '.join('"%s"' % p for p in pk),
        't_PkgChems == [p \\in t_Pkgs |-> CASE ' + ' [] '.join('p = "%s" -> {%s}' % (p, ', '.join(map(str, universe['pkgs'][p]))) for p in pk) + ']',
        't_Empty == {}',
    ])
    cfg = ['Names <- t_Names', 'NameOrder <- t_Order', 'InitPkg <- t_InitPkg', 'NC = %d' % universe['nc'], 'Pkgs <- t_Pkgs',
           'PkgChems <- t_PkgChems', 'FlowVals <- t_Empty', 'TVals <- t_Empty', 'PVals <- t_Empty', 'Splits <- t_Empty',
           'ModelPhaseSets <- t_Empty', 'ModelPhases <- t_Empty', 'Ops <- t_Empty']
    return defs, cfg


def val(x):
    x = float(x)
    r = round(x)
    if abs(x - r) < 1e-9 * max(1., abs(x)):
        return int(r)
    return int(x * 1000003) % 2000000011   # non-integral where the contract makes everything integral


# pressures / temperatures: the model's small integers are mapped to physical values
P_OF = {100: 101325, 200: 202650, 50: 50662}
T_OF = {300: 300, 350: 350, 320: 320}
P_BACK = {v: k for k, v in P_OF.items()}


class World:
    def __init__(self, universe):
        self.universe = universe
        self.nc = universe['nc']
        self.s = {}
        self.saved = {n: None for n in universe['names']}
        for n in universe['names']:
            self.s[n] = tmo.Stream(None, thermo=thermo(universe['pkg'][n]), T=300, P=P_OF[100], phase='l')

    # ---- projection ---------------------------------------------------------------
    def _pkg(self, stream):
        for p, th in _thermo.items():
            if stream._thermo is th:
                return p
        # a loaded pickle has a package object of its own: recognise it by its content (chemicals in order, their reference phases,
        # the mixture model), not only by the names
        def sig(th):
            return (tuple(th.chemicals.IDs), tuple(c.phase_ref for c in th.chemicals), type(th.mixture).__name__)
        want = sig(stream._thermo)
        for p, th in _thermo.items():
            if want == sig(th):
                return p
        return '?'

    def _vec(self, stream, row):
        """flow vector over the universal chemical list"""
        arr = row.to_array() if hasattr(row, 'to_array') else np.asarray(row)
        ids = stream.chemicals.IDs
        out = [0] * self.nc
        for i, ID in enumerate(ids):
            u = UNIVERSAL.index(ID)
            if u < self.nc:
                out[u] = val(arr[i])
                if abs(float(arr[i]) - round(float(arr[i]))) > 1e-9 * max(1., abs(float(arr[i]))):
                    out[u] = -777777   # a non-integral flow (only reachable out of contract): not a legal model state
            elif arr[i]:
                out[0] = -999999  # material outside the modelled chemicals: cannot be expressed
        return out

    def _ids(self, stream):
        imol = stream._imol
        fr = id(imol.data)
        tr = id(stream._thermal_condition)
        pr = id(imol._phase) if hasattr(imol, '_phase') else id(imol)
        return fr, tr, pr

    def project(self):
        names = self.universe['names']
        ids = {n: self._ids(self.s[n]) for n in names}
        st = {}
        for n in names:
            x = self.s[n]
            multi = isinstance(x, tmo.MultiStream)
            try:
                if x._imol._chemicals is not x._thermo.chemicals:
                    # a failed (out-of-contract) package change left indexer and stream on different packages
                    raise RuntimeError('inconsistent object')
                if multi:
                    ph = sorted(x.phases)
                    fl = {p: self._vec(x, x.imol.data.rows[x.imol.get_phase_index(p)]) for p in ph}
                else:
                    ph = [x.phase]
                    fl = {x.phase: self._vec(x, x.imol.data)}
            except Exception:
                # the object is internally inconsistent (e.g. fewer rows than phases): an ill-formed record,
                # which the specification rejects (WellFormed) when the step was in contract
                ph, fl = ['l', 'l'], {'l': [0] * self.nc}
            canon = []
            for k in range(3):
                canon.append(next(m for m in names if ids[m][k] == ids[n][k]))
            P = val(x.P)
            st[n] = dict(k='m' if multi else 's', ph=ph, fl=fl, T=val(x.T), P=P_BACK.get(P, P), pkg=self._pkg(x),
                         price=val(x.price), cf=val(x.characterization_factors.get('GWP', 0)),
                         fr=canon[0], tr=canon[1], pr=canon[2])
        sv = {}
        for n in names:
            d = self.saved[n]
            sv[n] = NOSNAP if d is None else d['snap']
        return dict(st=st, sv=sv)

    # ---- direct state construction (TLC-dumped states) ----------------------------------------------
    def set_state(self, state):
        names = self.universe['names']
        st = state['st']
        for n in names:
            r = st[n]
            th = thermo(r['pkg'])
            ids = th.chemicals.IDs
            def flows(vec):
                return [(UNIVERSAL[c], float(v)) for c, v in enumerate(vec) if v and UNIVERSAL[c] in ids]
            P = P_OF.get(r['P'], r['P'])
            if r['k'] == 's':
                x = tmo.Stream(None, thermo=th, T=r['T'], P=P, phase=r['ph'][0], **dict(flows(r['fl'][r['ph'][0]])))
            else:
                x = tmo.MultiStream(None, thermo=th, T=r['T'], P=P, phases=tuple(r['ph']),
                                    **{p: flows(r['fl'][p]) for p in r['ph'] if flows(r['fl'][p])})
            x.price = r.get('price', 0)
            if r.get('cf'):
                x.characterization_factors['GWP'] = r['cf']
            self.s[n] = x
        # re-create sharing of containers as the ids say
        for n in names:
            r = st[n]
            for m in names:
                if m == n:
                    break
                q = st[m]
                if r['k'] != q['k']:
                    continue
                flow, tp, ph = r['fr'] == q['fr'], r['tr'] == q['tr'], r['pr'] == q['pr']
                if not (flow or tp or ph):
                    continue
                x, y = self.s[n], self.s[m]
                if tp:
                    x._thermal_condition = y._thermal_condition
                if r['k'] == 's':
                    if flow:
                        x._imol.data = y._imol.data
                    if ph:
                        x._imol._phase = y._imol._phase
                else:
                    if ph:          # same indexer object (a proxy)
                        x._imol = y._imol
                    elif flow:
                        x._imol.data = y._imol.data
                    x.reset_cache()
        for n in names:
            snap = state['sv'][n]
            if snap.get('k', 'none') != 'none':
                tmp = World.__new__(World)
                tmp.universe = dict(names=['z'], pkg={'z': st[n]['pkg']}, nc=self.nc, pkgs=self.universe['pkgs'])
                tmp.nc = self.nc
                tmp.s = {}
                tmp.saved = {'z': None}
                rec = dict(st[n]); rec.update(k=snap['k'], ph=snap['ph'], fl=snap['fl'], T=snap['T'], P=snap['P'], fr='z', tr='z', pr='z')
                tmp.set_state(dict(st={'z': rec}, sv={'z': NOSNAP}))
                self.saved[n] = dict(data=tmp.s['z'].get_data(), snap=snap)
            else:
                self.saved[n] = None

    # ---- behavioural confirmation of the sharing ids --------------------------------------------------
    def behaves(self):
        """Write through each stream and read through every other one: visible exactly where the projected
        container ids say the container is shared.  Every write is undone."""
        proj = self.project()['st']
        names = self.universe['names']
        ok = True
        for n in names:
            x = self.s[n]
            chem = x.chemicals.IDs[0]
            for m in names:
                if m == n:
                    continue
                y = self.s[m]
                if chem not in y.chemicals.IDs:
                    continue
                # flow
                before = float(y.imol[chem])
                key = (x.phases[0], chem) if isinstance(x, tmo.MultiStream) else chem
                x.imol[key] += 1.
                seen = float(y.imol[chem]) != before
                x.imol[key] -= 1.
                if seen != (proj[n]['fr'] == proj[m]['fr']):
                    ok = False
                # temperature
                T0 = y.T
                x.T = x.T + 1.
                seen = y.T != T0
                x.T = x.T - 1.
                if seen != (proj[n]['tr'] == proj[m]['tr']):
                    ok = False
                # phase label
                if proj[n]['k'] == 's' and proj[m]['k'] == 's':
                    p0, q0 = x.phase, y.phase
                    x.phase = 'S' if p0 != 'S' else 's'
                    seen = y.phase != q0
                    x.phase = p0
                    if seen != (proj[n]['pr'] == proj[m]['pr']):
                        ok = False
        return ok

    # ---- C14: a derived property against a freshly created stream in the same state ----------------------
    def fresh_like(self, x):
        th = x._thermo
        if type(th.mixture).__name__ != 'IdealMixture':
            # equation-of-state mixtures keep working state on the mixture object, which every stream of the package shares:
            # the reference is a fresh stream on a fresh package (same chemicals, same mixture class)
            th = tmo.Thermo(th.chemicals, mixture=type(th.mixture).from_chemicals(th.chemicals), cache=False)
        if isinstance(x, tmo.MultiStream):
            y = tmo.MultiStream(None, thermo=th, T=x.T, P=x.P, phases=x.phases)
            y.imol.data[:] = x.imol.data.to_array()
        else:
            y = tmo.Stream(None, thermo=th, T=x.T, P=x.P, phase=x.phase)
            y.imol.data[:] = x.imol.data.to_array()
        return y

    def read_diff(self, x, prop):
        def get(s):
            try:
                v = getattr(s, prop)
                return None if v is None else float(v)
            except Exception as e:
                return 'exc:' + type(e).__name__
        v = get(x)
        w = get(self.fresh_like(x))
        if isinstance(v, str) or isinstance(w, str) or v is None or w is None:
            return 0 if v == w else 2 ** 30
        if v != v or w != w:
            return 0 if (v != v and w != w) else 2 ** 30
        scale = max(abs(v), abs(w), 1e-300)
        return int(min(abs(v - w) / scale * 1e12, 2 ** 30))

    # ---- C11: views, totals, unit conversions --------------------------------------------------------------
    # independent table of conversion factors from the base units (kmol/hr, kg/hr, m3/hr)
    UNITS = {
        'kmol/hr': ('mol', 1.), 'mol/s': ('mol', 1000. / 3600.), 'mol/min': ('mol', 1000. / 60.), 'lbmol/hr': ('mol', 2.2046226218487757),
        'kg/hr': ('mass', 1.), 'lb/hr': ('mass', 2.2046226218487757), 'g/min': ('mass', 1000. / 60.), 'kg/s': ('mass', 1. / 3600.),
        'tonne/day': ('mass', 24. / 1000.),
        'm3/hr': ('vol', 1.), 'L/min': ('vol', 1000. / 60.), 'gal/min': ('vol', 264.17205235814845 / 60.), 'm3/s': ('vol', 1. / 3600.),
    }
    BADUNITS = ['K', 'kg', 'm', 'Pa', 'kmol', 'hr', 'm3', 'kJ/hr']

    def _factor(self, x, view, p, chem):
        """What one kmol/hr of `chem` in phase p of stream x is worth in the base unit of `view`
        (evaluated from the chemical's own models at the stream's CURRENT T, P and phase)."""
        ch = x.chemicals[chem]
        if view == 'mol':
            return 1.
        if view == 'mass':
            return float(ch.MW)
        return 1000. * float(ch.V(p, x.T, x.P))

    def _rel(self, got, want):
        try:
            got = float(got)
        except Exception:
            return 2 ** 30
        if got != got or want != want:
            return 0 if (got != got and want != want) else 2 ** 30
        scale = max(abs(got), abs(want), 1e-300)
        return int(min(abs(got - want) / scale * 1e12, 2 ** 30))

    def _indexer(self, x, view):
        return {'mol': x.imol, 'mass': x.imass, 'vol': x.ivol}[view]

    def _key(self, x, p, chem):
        return (p, chem) if isinstance(x, tmo.MultiStream) else chem

    def _rows(self, x):
        if isinstance(x, tmo.MultiStream):
            return [(p, x.imol.data.rows[x.imol.get_phase_index(p)].to_array()) for p in x.phases]
        return [(x.phase, x.imol.data.to_array())]

    def _total(self, x, view):
        tot = 0.
        for p, arr in self._rows(x):
            for ID, n in zip(x.chemicals.IDs, arr):
                if n:
                    tot += n * self._factor(x, view, p, ID)
        return tot

    def view_ops(self, op, a):
        x = self.s[a['x']]
        if op == 'vget':
            chem = UNIVERSAL[a['c'] - 1]
            n = float(x.imol[self._key(x, a['p'], chem)])
            try:
                want = n * self._factor(x, a['view'], a['p'], chem)
            except Exception:
                return dict(diff=0, note='no model')
            how = a.get('how', 'indexer')
            if how == 'array' and not isinstance(x, tmo.MultiStream):
                got = {'mass': x.mass, 'vol': x.vol, 'mol': x.mol}[a['view']][x.chemicals.index(chem)]
            else:
                got = self._indexer(x, a['view'])[self._key(x, a['p'], chem)]
            return dict(diff=self._rel(got, want))
        if op == 'vset':
            chem = UNIVERSAL[a['c'] - 1]
            f = self._factor(x, a['view'], a['p'], chem)
            self._indexer(x, a['view'])[self._key(x, a['p'], chem)] = a['v'] * f
            return {}
        if op == 'tget':
            view = {'F_mol': 'mol', 'F_mass': 'mass', 'F_vol': 'vol'}[a['which']]
            try:
                want = self._total(x, view)
            except Exception:
                return dict(diff=0, note='no model')
            return dict(diff=self._rel(getattr(x, a['which']), want))
        if op == 'tset':
            cur = getattr(x, a['which'])
            setattr(x, a['which'], cur * a['q'][0] / a['q'][1])
            return {}
        if op == 'uget':
            chem = UNIVERSAL[a['c'] - 1]
            view, conv = self.UNITS[a['units']]
            n = float(x.imol[self._key(x, a['p'], chem)])
            try:
                want = n * self._factor(x, view, a['p'], chem) * conv
            except Exception:
                return dict(diff=0, note='no model')
            got = x.get_flow(a['units'], self._key(x, a['p'], chem))
            return dict(diff=self._rel(got, want))
        if op == 'uset':
            chem = UNIVERSAL[a['c'] - 1]
            view, conv = self.UNITS[a['units']]
            f = self._factor(x, view, a['p'], chem)
            x.set_flow(a['v'] * f * conv, a['units'], self._key(x, a['p'], chem))
            return {}
        if op == 'measured':
            if a['what'] == 'view_copy':
                # bulk write of another stream's mass / volume view object: positions are taken as they are
                y = self.s[a['y']]
                src = np.asarray(getattr(y, a['view']), float).copy()
                n = min(len(src), len(np.asarray(getattr(x, a['view']), float)))
                if a['via'] == 'attr':
                    setattr(x, a['view'], getattr(y, a['view'])) if len(src) == len(x.mol) else None
                else:
                    if len(src) == len(x.mol):
                        getattr(x, 'i' + a['view'])[...] = getattr(y, a['view'])
                if len(src) != len(x.mol):
                    return dict(diff=0, note='different sizes')
                got = np.asarray(getattr(x, a['view']), float)
                return dict(diff=max([self._rel(g, w) for g, w in zip(got, src)] + [0]))
            if a['what'] == 'mol_bulk':
                y = self.s[a['y']]
                if isinstance(x, tmo.MultiStream) or isinstance(y, tmo.MultiStream) or x.chemicals is not y.chemicals:
                    return dict(diff=0, note='not two single-phase streams of one package')
                view = a['view']
                np.asarray(getattr(x, view), float)                       # the view object exists before the write
                x.imol[...] = y.imol[...]
                ids = x.chemicals.IDs
                want = [float(y.imol[i]) * self._factor(x, view, x.phase, i) for i in ids]
                d1 = max([self._rel(g, w) for g, w in zip(np.asarray(getattr(x, view), float), want)] + [0])
                # and a write through the view reaches the molar flows
                getattr(x, 'i' + view)[ids[0]] = 7.
                d2 = self._rel(float(x.imol[ids[0]]) * self._factor(x, view, x.phase, ids[0]), 7.)
                return dict(diff=max(d1, d2))
            if a['what'] == 'reset_flow':
                if isinstance(x, tmo.MultiStream):
                    return dict(diff=0, note='multi-phase: other call signature')
                units = a['units']
                view, conv = self.UNITS[units]
                chem = x.chemicals.IDs[0]
                x.reset_flow(phase=a['p'], units=units, **{chem: a['v']})
                d1 = self._rel(x.get_flow(units, chem), a['v'])
                want = float(x.imol[chem]) * self._factor(x, view, a['p'], chem) * conv
                return dict(diff=max(d1, self._rel(a['v'], want)))
            if a['what'] == 'construct_total':
                # a new stream built with flows and a total flow given in some unit of measure: the total reads back in that unit
                units = a['units']
                th = x.thermo
                ids = x.chemicals.IDs
                if a['k'] == 'm':
                    new = tmo.MultiStream(None, thermo=th, units=units, total_flow=a['v'], l=[(ids[0], 1.), (ids[1], 3.)], g=[(ids[0], 2.)])
                else:
                    new = tmo.Stream(None, thermo=th, units=units, total_flow=a['v'], **{ids[0]: 1., ids[1]: 3.})
                return dict(diff=self._rel(new.get_total_flow(units), a['v']))
            raise KeyError(a['what'])
        if op == 'ubad':
            how = a.get('how', 'get_flow')
            if how == 'get_flow':
                x.get_flow(a['units'], ...)
            else:
                # a perfectly good unit of ANOTHER dimension (possibly used legitimately a moment ago)
                view, units = a['view'], a['units']
                chem = x.chemicals.IDs[0]
                key = (x.phases[0], chem) if isinstance(x, tmo.MultiStream) else chem
                if how == 'view_get':
                    self._indexer(x, view).get_data(units, *((key,) if not isinstance(key, tuple) else key))
                elif how == 'view_set':
                    self._indexer(x, view).set_data(1., units, *((key,) if not isinstance(key, tuple) else key))
                elif how == 'get_property':
                    x.get_property({'mol': 'F_mol', 'mass': 'F_mass', 'vol': 'F_vol'}[view], units)
                else:
                    x.set_property({'mol': 'F_mol', 'mass': 'F_mass', 'vol': 'F_vol'}[view], 1., units)
            return {}
        raise KeyError(op)

    # ---- operations ---------------------------------------------------------------------------------------
    def apply(self, op, a):
        exc = NONE
        extra = {}
        try:
            with warnings.catch_warnings():
                warnings.simplefilter('ignore')
                extra = self._apply(op, a) or {}
        except Exception as e:
            exc = type(e).__name__
            extra = dict(msg=str(e)[:200])
        obs = dict(exc=exc, behaves=True, res=[], resT=0, diff=0, carried=True)
        obs.update(extra)
        if exc == NONE and op in ('copy', 'pickle', 'proxy', 'flow_proxy', 'link_with', 'unlink', 'copy_like'):
            try:
                obs['behaves'] = bool(self.behaves())
            except Exception as e:
                obs['behaves'] = False
                obs['msg'] = 'behaves: ' + repr(e)[:200]
        return obs

    def _chem(self, x, c):
        return UNIVERSAL[c - 1]

    def _apply(self, op, a):
        S = self.s
        if op == 'mix_from':
            S[a['r']].mix_from([S[i] for i in a['ins']], energy_balance=a['eb'])
        elif op == 'split_to':
            x = S[a['x']]
            ids = x.chemicals.IDs
            q = a['q']
            split = np.array([q[UNIVERSAL.index(i)][0] / q[UNIVERSAL.index(i)][1] if UNIVERSAL.index(i) < self.nc else 0. for i in ids])
            if len({tuple(v) for v in q}) == 1 and a.get('scalar'):
                split = q[0][0] / q[0][1]
            x.split_to(S[a['y']], S[a['z']], split, energy_balance=a['eb'])
        elif op == 'separate_out':
            S[a['x']].separate_out(S[a['y']], energy_balance=False)
        elif op in ('copy_flow', 'copy_flow_multi'):
            if a['all']:
                IDs = ...
            else:
                IDs = tuple(UNIVERSAL[c - 1] for c in a['ids'])
                if len(IDs) == 1 and a.get('as_str'):
                    IDs = IDs[0]
            if isinstance(S[a['x']], tmo.MultiStream):
                S[a['x']].copy_flow(S[a['y']], ... if a.get('ph', 'all') == 'all' else a['ph'], IDs, remove=a['remove'], exclude=a['excl'])       # (other, phase, IDs)
            else:
                S[a['x']].copy_flow(S[a['y']], IDs, remove=a['remove'], exclude=a['excl'])
        elif op == 'scale':
            S[a['x']].scale(a['q'][0] / a['q'][1])
        elif op == 'empty':
            S[a['x']].empty()
        elif op == 'set_flow':
            x = S[a['x']]
            if isinstance(x, tmo.MultiStream):
                x.imol[a['p'], UNIVERSAL[a['c'] - 1]] = float(a['v'])
            else:
                x.imol[UNIVERSAL[a['c'] - 1]] = float(a['v'])
        elif op == 'set_T':
            S[a['x']].T = float(a['T'])
        elif op == 'set_P':
            S[a['x']].P = float(P_OF.get(a['P'], a['P']))
        elif op == 'set_phases':
            S[a['x']].phases = tuple(a['phs'])
        elif op == 'set_phase':
            S[a['x']].phase = a['p']
        elif op == 'reduce_phases':
            S[a['x']].reduce_phases()
        elif op == 'as_stream':
            S[a['x']].as_stream()
        elif op == 'get_eq':
            getattr(S[a['x']], a['kind'])
        elif op == 'view_read':
            v = S[a['x']][a['p']]
            return dict(res=self._vec(v, v.imol.data), resT=val(v.T))
        elif op == 'view_write':
            v = S[a['x']][a['p']]
            v.imol[UNIVERSAL[a['c'] - 1]] = float(a['v'])
        elif op == 'view_set_T':
            S[a['x']][a['p']].T = float(a['T'])
        elif op == 'save':
            x = S[a['x']]
            proj = self.project()['st'][a['x']]
            self.saved[a['x']] = dict(data=x.get_data(), snap=dict(k=proj['k'], ph=proj['ph'], fl=proj['fl'], T=proj['T'], P=proj['P']))
        elif op == 'restore':
            S[a['x']].set_data(self.saved[a['x']]['data'])
        elif op == 'copy':
            S[a['d']] = S[a['x']].copy()
            self.saved[a['d']] = None
        elif op == 'pickle':
            # the default property package of the session is the stream's own when it is pickled and another one when the pickle
            # is loaded (every other time): the pickle must carry its package
            src = S[a['x']]
            self._pickles = getattr(self, '_pickles', 0) + 1
            if self._pickles % 2:
                tmo.settings.set_thermo(src.thermo)
            blob = pickle.dumps(src)
            if self._pickles % 2:
                other = [p for p in sorted(self.universe['pkgs']) if thermo(p) is not src.thermo]
                tmo.settings.set_thermo(thermo(other[0]))
            S[a['d']] = new = pickle.loads(blob)
            self.saved[a['d']] = None
            # the pickle carries its own property package: the chemicals of the loaded stream are those of the source (a session
            # may hold other chemicals of the same name, e.g. in the chemical cache), and so are its properties
            def sig(ch):
                return (ch.ID, ch.CAS, ch.phase_ref, ch.locked_state, float(ch.Hf or 0.), float(ch.Tb or 0.), float(ch.MW))
            ok = [sig(c) for c in new.chemicals] == [sig(c) for c in src.chemicals]
            if ok and not src.isempty():
                h0, h1 = float(src.H), float(new.H)
                ok = abs(h0 - h1) <= 1e-9 * max(abs(h0), abs(float(src.C)), 1e-300)
            return dict(carried=bool(ok))
        elif op == 'copy_like':
            S[a['d']].copy_like(S[a['x']])
        elif op == 'proxy':
            S[a['d']] = S[a['x']].proxy()
            self.saved[a['d']] = None
        elif op == 'flow_proxy':
            S[a['d']] = S[a['x']].flow_proxy()
            self.saved[a['d']] = None
        elif op == 'link_with':
            S[a['d']].link_with(S[a['x']], flow=a['flow'], phase=a['phase'], TP=a['TP'])
        elif op == 'unlink':
            S[a['x']].unlink()
        elif op in ('vget', 'vset', 'tget', 'tset', 'uget', 'uset', 'ubad', 'measured'):
            return self.view_ops(op, a)
        elif op == 'reset_thermo':
            S[a['x']]._reset_thermo(thermo(a['pkg']))
        elif op == 'pickle_obj':
            return dict(carried=bool(pickle_object(a['kind'])))
        elif op == 'flash_TP':
            x = S[a['x']]
            rows = {ph: x.imol[ph].to_array().copy() for ph in x.phases}
            x.vle(T=float(T_OF.get(a['T'], a['T'])), P=float(P_OF.get(a['P'], a['P'])))
            for ph, r in rows.items():
                x.imol[ph] = r
        elif op == 'reassign':
            x = S[a['x']]
            T0 = x.T
            if a['q'] == 'H':
                x.H = x.H
            else:
                x.S = x.S
            x.T = T0
        elif op == 'read':
            return dict(diff=self.read_diff(S[a['x']], a['prop']))
        elif op == 'construct':
            old = S[a['x']]
            kw = dict(thermo=old._thermo, T=300, P=P_OF[100], price=a['price'],
                      characterization_factors=({'GWP': a['cf']} if a['cf'] else None))
            S[a['x']] = tmo.Stream(None, phase='l', **kw) if a['k'] == 's' else tmo.MultiStream(None, phases=('g', 'l'), **kw)
            self.saved[a['x']] = None
        elif op == 'set_price':
            S[a['x']].price = float(a['v'])
        else:
            raise KeyError(op)


# ---- random operations (TLC decides what is in contract) -------------------------------------------------

PROPS = ['H', 'h', 'S', 'C', 'Cn', 'V', 'kappa', 'mu', 'sigma', 'epsilon', 'Hvap', 'rho', 'Cp', 'alpha', 'nu', 'Pr', 'F_vol', 'Hnet']
PHASESETS = [['g', 'l'], ['l'], ['L', 'l'], ['g'], ['L', 'g'], ['g', 'l', 's'], ['S', 's'], ['L', 'S', 'g', 'l', 's'], ['s'], ['L']]


def random_op(universe, rng, st, ops):
    names = universe['names']
    nc = universe['nc']
    op = rng.choice(ops)
    if op == 'measured':          # only generated by directed schedules (it ends a history)
        op = 'vget'
    x = rng.choice(names)
    y = rng.choice(names)
    z = rng.choice(names)
    fv = lambda: 4 * rng.randint(0, 6)
    if op == 'mix_from':
        return op, dict(r=x, ins=[rng.choice(names) for _ in range(rng.randint(0, 3))], eb=rng.random() < 0.4)
    if op == 'split_to':
        fr = [[0, 1], [1, 4], [1, 2], [3, 4], [1, 1]]
        if rng.random() < 0.5:
            q = [rng.choice(fr)] * nc
            scalar = True
        else:
            q = [rng.choice(fr) for _ in range(nc)]
            scalar = False
        return op, dict(x=x, y=y, z=z, q=q, eb=rng.random() < 0.5, scalar=scalar)
    if op == 'separate_out':
        return op, dict(x=x, y=y)
    if op in ('copy_flow', 'copy_flow_multi'):
        pk = universe['pkgs'][st['st'][y]['pkg']]
        ids = sorted(c for c in pk if c <= nc and rng.random() < 0.5)
        allf = rng.random() < 0.4
        if allf:
            ids = sorted(c for c in pk if c <= nc)
        name = 'copy_flow_multi' if st['st'][x]['k'] == 'm' else 'copy_flow'      # multi-phase receivers: contract on totals only
        a = dict(x=x, y=y, ids=ids, all=allf and len(ids) == len([c for c in pk if c <= nc]), remove=rng.random() < 0.5,
                 excl=(not allf) and rng.random() < 0.3, as_str=rng.random() < 0.5, ph='all')
        if name == 'copy_flow_multi' and not a['excl'] and rng.random() < 0.4:
            a['ph'] = rng.choice(st['st'][x]['ph'])         # a phase of the receiver named explicitly
        return name, a
    if op == 'scale':
        return op, dict(x=x, q=rng.choice([[1, 2], [2, 1], [3, 1], [1, 4], [0, 1], [1, 1]]))
    if op == 'empty':
        return op, dict(x=x)
    if op in ('set_flow', 'view_write'):
        ph = st['st'][x]['ph']
        return op, dict(x=x, p=rng.choice(ph), c=rng.randint(1, nc), v=fv())
    if op in ('set_T', 'view_set_T'):
        a = dict(x=x, T=rng.choice([300, 320, 350]))
        if op == 'view_set_T':
            a['p'] = rng.choice(st['st'][x]['ph'])
        return op, a
    if op == 'set_P':
        return op, dict(x=x, P=rng.choice([100, 200, 50]))
    if op == 'reassign':
        return op, dict(x=x, q=rng.choice(['H', 'S']))
    if op == 'flash_TP':
        return op, dict(x=x, T=rng.choice([300, 320, 350]), P=rng.choice([100, 200, 50]))
    if op == 'pickle_obj':
        return op, dict(kind=rng.choice(PICKLE_KINDS))
    if op == 'set_phases':
        return op, dict(x=x, phs=rng.choice(PHASESETS))
    if op == 'set_phase':
        return op, dict(x=x, p=rng.choice(ALLPH))
    if op in ('reduce_phases', 'as_stream', 'save', 'restore', 'unlink'):
        return op, dict(x=x)
    if op == 'get_eq':
        return op, dict(x=x, kind=rng.choice(['vle', 'lle', 'sle']))
    if op == 'view_read':
        return op, dict(x=x, p=rng.choice(st['st'][x]['ph']))
    if op in ('copy', 'pickle', 'copy_like', 'proxy', 'flow_proxy'):
        return op, dict(d=x, x=y)
    if op in ('vget', 'vset', 'uget', 'uset'):
        a = dict(x=x, p=rng.choice(st['st'][x]['ph']), c=rng.randint(1, nc))
        if op in ('vget', 'vset'):
            a['view'] = rng.choice(['mass', 'vol', 'vol', 'mol'])
            a['how'] = rng.choice(['indexer', 'array'])
        else:
            a['units'] = rng.choice(sorted(World.UNITS))
        if op in ('vset', 'uset'):
            a['v'] = 4 * rng.randint(0, 6)
        return op, a
    if op == 'tget':
        return op, dict(x=x, which=rng.choice(['F_mol', 'F_mass', 'F_vol']))
    if op == 'tset':
        return op, dict(x=x, which=rng.choice(['F_mol', 'F_mass', 'F_vol']), q=rng.choice([[2, 1], [1, 2], [3, 1], [1, 4], [1, 1]]))
    if op == 'ubad':
        if rng.random() < 0.4:
            return op, dict(x=x, units=rng.choice(World.BADUNITS), how='get_flow')
        view = rng.choice(['mol', 'mass', 'vol'])
        units = rng.choice([u for u, (v, _) in World.UNITS.items() if v != view])
        return op, dict(x=x, units=units, view=view, how=rng.choice(['view_get', 'view_set', 'get_property', 'set_property']))
    if op == 'read':
        return op, dict(x=x, prop=rng.choice(PROPS))
    if op == 'reset_thermo':
        return op, dict(x=x, pkg=rng.choice(sorted(universe['pkgs'])))
    if op == 'construct':
        return op, dict(x=x, k=rng.choice(['s', 'm']), price=rng.choice([0, 3, 7]), cf=rng.choice([0, 5, 11]))
    if op == 'link_with':
        return op, dict(d=x, x=y, flow=rng.random() < 0.6, phase=rng.random() < 0.5, TP=rng.random() < 0.5)
    raise KeyError(op)


# ---- pickling of chemicals, property packages, reactions (C13): observable state before / after ----------------------------------
PICKLE_KINDS = ['chemical', 'package', 'package_groups', 'reaction', 'reaction_tagged', 'reaction_set']


def _chem_sig(ch):
    vals = [ch.ID, ch.CAS, ch.phase_ref, ch.locked_state, ch.MW, ch.Hf, ch.Tb, ch.Tm, ch.Hfus, ch.S0, sorted(ch.aliases)]
    if ch.locked_state:
        vals += [float(ch.H(320., 101325.)), float(ch.Cn(330.))]
    else:
        vals += [float(ch.H('l', 320., 101325.)), float(ch.S('g', 400., 101325.)), float(ch.Cn('l', 330.)), float(ch.Psat(350.)), float(ch.V('l', 300., 101325.))]
    return vals


def _pkg_sig(th):
    cc = th.chemicals
    groups = sorted(cc.chemical_groups)
    return [list(cc.IDs), [_chem_sig(c) for c in cc], type(th.mixture).__name__, th.Gamma.__name__, th.Phi.__name__, th.PCF.__name__,
            groups, [cc.chemical_group_members(g) for g in groups], [[round(float(v), 12) for v in cc._group_mol_compositions[g]] for g in groups],
            [[round(float(v), 12) for v in cc._group_wt_compositions[g]] for g in groups],
            sorted((k, v) for k, v in cc._index.items() if isinstance(v, int))]


def _rxn_sig(r):
    st = r._stoichiometry
    st = st.to_array() if hasattr(st, 'to_array') else [np.asarray(i.to_array() if hasattr(i, 'to_array') else i).tolist() for i in st]
    out = [type(r).__name__, r._basis, np.asarray(st).tolist(), np.asarray(r.X, float).tolist(),
           list(getattr(r, 'phases', ()) or ()), list(r.chemicals.IDs)]
    try:
        out.append(r.reactant if isinstance(r, tmo.Reaction) else list(r.reactants))
    except Exception:
        out.append('?')
    return out


def pickle_object(kind):
    """True iff the loaded object shows the observable state of the pickled one"""
    if kind == 'chemical':
        ch = tmo.Chemical('Ethanol', phase_ref='g', cache=False)
        ch.Hf = -200000.
        ch.aliases.add('EtOH_custom')
        return _chem_sig(pickle.loads(pickle.dumps(ch))) == _chem_sig(ch)
    if kind in ('package', 'package_groups'):
        cc = tmo.Chemicals([tmo.Chemical('Water', cache=False), tmo.Chemical('Ethanol', phase_ref='g', cache=False), tmo.Chemical('Methanol', cache=False),
                            tmo.Chemical('Glucose', phase='s', cache=False)])
        th = tmo.Thermo(cc, cache=False)
        th.chemicals.set_alias('Water', 'Wasser')
        if kind == 'package_groups':
            th.chemicals.define_group('Alcohols', ['Ethanol', 'Methanol'], [0.3, 0.7])
            th.chemicals.define_group('All', ['Water', 'Ethanol', 'Methanol'], [1., 2., 3.], wt=True)
        new = pickle.loads(pickle.dumps(th))
        return _pkg_sig(new) == _pkg_sig(th)
    th = thermo('P')
    if kind == 'reaction':
        r = tmo.Reaction({'Ethanol': -1., 'Water': 2.5}, reactant='Ethanol', X=0.75, chemicals=th.chemicals, basis='wt')
    elif kind == 'reaction_tagged':
        r = tmo.Reaction('Ethanol,g -> 2 Water,l', reactant='Ethanol', X=0.25, chemicals=th.chemicals)
    else:
        r = tmo.ParallelReaction([tmo.Reaction({'Ethanol': -1., 'Water': 2.}, reactant='Ethanol', X=0.5, chemicals=th.chemicals),
                                  tmo.Reaction({'Methanol': -1., 'Water': 1.}, reactant='Methanol', X=0.125, chemicals=th.chemicals)])
    return _rxn_sig(pickle.loads(pickle.dumps(r))) == _rxn_sig(r)
