"""Shared check plumbing: verdict bookkeeping, known findings, evidence files, exit codes."""
import fnmatch
import hashlib
import json
import os
import sys
import time

VERIF = os.path.dirname(os.path.dirname(os.path.abspath(__file__)))
OUT = os.environ.get('VERIF_OUT', VERIF)        # evidence / replay files (elsewhere only when a seeded change is tried on a scratch copy)
KNOWN = os.path.join(VERIF, 'known_findings.json')


def load_known(prop):
    if not os.path.exists(KNOWN):
        return []
    with open(KNOWN) as f:
        data = json.load(f)
    return [e for e in data.get('findings', []) if e.get('property') == prop and e.get('status') == 'known']


class Ctx:
    def __init__(self, prop, tier, seed):
        self.prop = prop
        self.tier = tier
        self.seed = seed
        self.t0 = time.time()
        self.violations = {}     # key -> dict(what, replay, count)
        self.notes = []

    @property
    def quick(self):
        return self.tier == 'quick'

    def violation(self, key, what, replay=None):
        """Record a violation.  key identifies the failing input / call site / history class."""
        v = self.violations.get(key)
        if v is None:
            self.violations[key] = dict(what=what, replay=replay, count=1)
        else:
            v['count'] += 1

    def note(self, msg):
        self.notes.append(msg)
        print('# ' + msg, flush=True)


def write_replay(prop, key, payload):
    d = os.path.join(OUT, 'replay')
    os.makedirs(d, exist_ok=True)
    h = hashlib.sha1(key.encode()).hexdigest()[:10]
    path = os.path.join(d, '%s-%s.json' % (prop, h))
    with open(path, 'w') as f:
        json.dump(dict(property=prop, key=key, **(payload or {})), f, indent=1, default=str)
    return path


def case_stats(cases):
    """cases: iterable of (judged, description).  evaluations = all executed cases; distinct_nontrivial = number of DISTINCT
    descriptions (operation, arguments, state it was applied to) among the cases that were judged in contract."""
    n = 0
    seen = set()
    for judged, desc in cases:
        n += 1
        if judged:
            seen.add(hashlib.sha1(json.dumps(desc, sort_keys=True, default=str).encode()).hexdigest())
    return dict(evaluations=n, distinct_nontrivial=len(seen))


def finish(ctx, level, coverage, assumptions):
    """Apply the known-findings list, print the verdict lines, write evidence, return exit code."""
    known = load_known(ctx.prop)
    new = []
    reported_known = []
    for key, v in sorted(ctx.violations.items()):
        hit = None
        for e in known:
            if fnmatch.fnmatchcase(key, e['key']):
                hit = e
                break
        if hit is not None:
            reported_known.append((hit, key, v))
        else:
            new.append((key, v))
    seen = set()
    for e, key, v in reported_known:
        if e['key'] in seen:
            continue
        seen.add(e['key'])
        print('KNOWN-FINDING: property=%s %s [%s]' % (ctx.prop, e.get('what', v['what']), e['key']), flush=True)
    for key, v in new:
        path = write_replay(ctx.prop, key, dict(what=v['what'], count=v['count'], replay=v['replay']))
        print('VIOLATION property=%s replay=%s' % (ctx.prop, path), flush=True)
        print('#   %s: %s (x%d)' % (key, v['what'][:int(os.environ.get('VERIF_WHAT_LEN', '600'))], v['count']), flush=True)
    if os.environ.get('VERIF_DEBUG'):
        with open('/tmp/verif-debug-%s.json' % ctx.prop, 'w') as f:
            json.dump({k: dict(what=v['what'], count=v['count']) for k, v in ctx.violations.items()}, f, indent=1, default=str)
    cov = dict(coverage)
    cov.setdefault('samples', [])
    ev = dict(property_id=ctx.prop, tier=ctx.tier, seed=ctx.seed, level=level, coverage=cov,
              assumptions=assumptions, wall_s=round(time.time() - ctx.t0, 2),
              violations=len(new))
    ev['coverage']['known_findings_reproduced'] = sorted(seen)
    ev['coverage']['new_violation_keys'] = [k for k, _ in new][:50]
    # extensions of the specification beyond the listed properties (ids X..) keep their reports apart from the evidence files
    evdir = os.path.join(OUT, 'extras', 'evidence') if ctx.prop.startswith('X') else os.path.join(OUT, 'evidence')
    os.makedirs(evdir, exist_ok=True)
    with open(os.path.join(evdir, ctx.prop + '.json'), 'w') as f:
        json.dump(ev, f, indent=1, default=str)
    print('# %s %s: %d new violation key(s), %d known finding(s) reproduced, %.1fs'
          % (ctx.prop, ctx.tier, len(new), len(seen), time.time() - ctx.t0), flush=True)
    return 1 if new else 0
