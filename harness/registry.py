"""What each registered check claims (MANIFEST.json is generated from this by tools/manifest.py)."""
import os
VERIF = os.path.dirname(os.path.dirname(os.path.abspath(__file__)))

NOTES = ('All checks: ./check <id> --tier quick|thorough. Each check model-checks an explicit TLA+ specification with TLC, '
         'lets TLC choose states / operation sequences, executes them on the real thermosteam objects from /repo (working tree), '
         'and has TLC validate the recorded executions against the specification. Known findings: /verif/known_findings.json.')
NOT_YET = {}

CHECKS = {
    'C18': dict(
        engine='Flowsheet', category='model_checking',
        technique='TLA+ spec (Flowsheet.tla) model-checked by TLC; TLC-dumped states, witness paths and -simulate behaviours replayed on real units/streams; TLC trace validation of every recorded step',
        text='TLC explores the complete reachable graph of the rewiring state machine (3 units with fixed/variable ports, 2-3 streams, 26 operations) '
             'and checks Consistent/NoDuplicates/FixedSizes in every state; the same Pre/Post definitions then judge every step the real '
             'AbstractUnit/AbstractStream objects take from TLC-dumped states (STEP), along TLC witness paths and along TLC-simulated behaviours '
             'of length 40 on 6 units/10 streams, so the implementation is shown to follow the checked design on everything explored.',
        note='Trusted: TLC, the projection (unit.ins/outs, stream.sink/source), the intended semantics written in Flowsheet.tla. '
             'Exhaustive for the model; sampled (seeded) for argument tuples at each dumped state in the quick tier.'),
}
