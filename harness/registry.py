"""What each registered check claims (MANIFEST.json is generated from this by tools/manifest.py)."""
import os
VERIF = os.path.dirname(os.path.dirname(os.path.abspath(__file__)))

NOTES = ('All checks: ./check <id> --tier quick|thorough. Each check model-checks an explicit TLA+ specification with TLC, '
         'lets TLC choose states / operation sequences, executes them on the real thermosteam objects from /repo (working tree), '
         'and has TLC validate the recorded executions against the specification. Known findings: /verif/known_findings.json.')
NOT_YET = {}

CHECKS = {
    'C18': dict(
        engine='Flowsheet', category='model_checking',
        technique='TLA+ spec (Flowsheet.tla) model-checked by TLC; TLC-dumped states, witness paths and -simulate behaviours replayed on real units/streams; TLC trace validation of every recorded step',
        text='TLC explores the complete reachable graph of the rewiring state machine (3 units with fixed/variable ports, 2-3 streams, 26 operations) '
             'and checks Consistent/NoDuplicates/FixedSizes in every state; the same Pre/Post definitions then judge every step the real '
             'AbstractUnit/AbstractStream objects take from TLC-dumped states (STEP), along TLC witness paths and along TLC-simulated behaviours '
             'of length 40 on 6 units/10 streams, so the implementation is shown to follow the checked design on everything explored.',
        note='Trusted: TLC, the projection (unit.ins/outs, stream.sink/source), the intended semantics written in Flowsheet.tla. '
             'Exhaustive for the model; sampled (seeded) for argument tuples at each dumped state in the quick tier.'),
    'C09': dict(
        engine='Sparse', category='model_checking',
        technique='TLA+ spec of the dense (NumPy) semantics (Sparse.tla) model-checked by TLC; operations executed on real SparseVector/SparseLogicalVector/SparseArray objects at TLC-dumped states, along TLC witness paths and along random 30-step histories; TLC validates every step and the representation clause',
        text='TLC enumerates every sequence of in-place / item-assignment / clear / copy_like / mix_from operations on size-2 objects over a 4-value '
             'alphabet (complete graph) and checks shape stability and read-only freezing of the dense semantics; every state TLC dumps is then '
             'loaded into real sparse objects and random mutating and pure operations (operators x operand kinds x index kinds x reductions) are '
             'judged by TLC against the dense semantics, the rejection rules and the stored-entries-are-exactly-the-non-zeros clause; random '
             'histories of 30 operations on objects up to 3x6 with cancelling/fractional/large values are validated the same way.',
        note='Trusted: TLC; the NumPy transcription in Sparse.tla (cross-checked against NumPy itself on every step: a disagreement aborts the check); '
             'dyadic values make float arithmetic exact. Out of contract: division by zero, column operands (m,1), 2-d single-row operands on 1-d targets.'),
    'C10': dict(
        engine='Indexer', category='model_checking',
        technique='TLA+ spec of key classification, dense read/write meaning and the two bounded lookup caches (Indexer.tla) model-checked by TLC; TLC witness paths and long random lookup/write histories executed on real indexers; TLC validates every returned value and the data after every step',
        text='TLC explores every history of lookups and cross-package resolutions over the model key set with tiny cache capacities (FIFO eviction and '
             'trimming happen constantly) and checks that every cached resolution equals the pure classification of its key (CacheCoherent, ResultOK); a '
             'deviation switch reproducing the original defect must violate the invariant (vacuity guard). The real ChemicalIndexer/MaterialIndexer are then '
             'driven along TLC witness paths, from TLC-dumped data states, and through histories of 1500-5000 lookups/writes with keys of every form (IDs, CAS, '
             'aliases, groups, nested tuples/lists, ellipsis, phase forms) so that the real 100- and 500-entry caches are filled and evicted; TLC checks each '
             'result against the dense meaning of the key and that writes touch only the addressed entries.',
        note='Trusted: TLC, the projection (indexer.data.to_array()), integer flows/dyadic group compositions (exact). Caches are never constrained in trace '
             'validation (only observable results), so refactoring the caches raises no alarm.'),
    'C01': dict(
        engine='Streams', category='model_checking',
        technique='TLA+ spec of stream material/sharing semantics (Streams.tla) model-checked by TLC to a depth bound; TLC-dumped states, witness paths and random histories executed on real Stream/MultiStream objects of three property packages; TLC validates conservation clauses on every step',
        text='TLC explores all sequences (depth 4-5) of mix_from / split_to / separate_out / copy_flow / empty / flow edits / phase changes over 3 streams, 2 chemicals, '
             '2 packages (one listing the chemicals in another order) and checks well-formedness and sharing consistency; every dumped state is rebuilt on real streams and '
             'random conservation operations (any inlet multiset incl. the receiver itself, scalar and per-chemical splits, removal/exclusion copies, scaling) are judged by '
             'TLC: per-chemical totals, non-negativity, phase-class conservation, min-pressure rule, frame condition; random 30-step histories over 5 streams / 3 packages likewise. Inlets sharing the receiver\'s flow container (proxies, links) count like the receiver; copy_flow onto multi-phase receivers is judged on per-chemical totals (refusals accepted).',
        note='Trusted: TLC; the projection (imol data rows, T, P, phases, object identity of data / thermal-condition / phase containers, confirmed behaviourally); integer flows so that comparison is exact. Where the property leaves the outcome open (phase of mixed material, temperature after an energy balance) the spec clauses leave it open.'),
    'C12': dict(
        engine='Streams', category='model_checking',
        technique='TLA+ spec (Streams.tla: AsMulti/AsSingle/Relabel, live phase views, save/restore) model-checked by TLC with the action property RepresentationKeepsContents; executions of real streams validated by TLC',
        text='TLC explores all sequences (depth 4-6) of phases/phase assignment, reduce_phases, as_stream, equilibrium getters, phase-view writes and save/restore over phase sets drawn from '
             's/l/g/S/L and checks that every representation change keeps totals, T, P; the real objects are driven from TLC-dumped states, along witness paths and random histories, and TLC checks '
             'totals, T, P, that each phase keeps its material (other-case label only when the exact one is absent), that phase sub-streams are live views, and that restore reproduces the snapshot.',
        note='Trusted: TLC; the projection (imol data rows, T, P, phases, object identity of data / thermal-condition / phase containers, confirmed behaviourally); integer flows so that comparison is exact. Where the property leaves the outcome open (phase of mixed material, temperature after an energy balance) the spec clauses leave it open.'),
    'C13': dict(
        engine='Streams', category='model_checking',
        technique='TLA+ spec of container sharing (canonical container ids per stream) model-checked by TLC with the action property IndependentUntouched; sharing of the real objects projected from identity and confirmed behaviourally; TLC validates every step',
        text='TLC explores all sequences (depth 4-5) of construct / copy / pickle / copy_like / proxy / flow_proxy / link_with(flags) / unlink interleaved with writes and checks that a write never '
             'reaches a stream sharing no container with the written one; on the real objects TLC checks after every such call which containers are shared (exactly the advertised ones), that '
             'values are equal where the property says so (flows per phase, phases, T, P, price and characterisation factors through pickling), and a write-through probe confirms the sharing ids.',
        note='Trusted: TLC; the projection (imol data rows, T, P, phases, object identity of data / thermal-condition / phase containers, confirmed behaviourally); integer flows so that comparison is exact. Where the property leaves the outcome open (phase of mixed material, temperature after an energy balance) the spec clauses leave it open.'),
    'C14': dict(
        engine='PropCache', category='model_checking',
        technique='TLA+ spec of the property memo protocol (PropCache.tla) model-checked by TLC (invariants Fresh, MemoSound; the original proxy protocol must fail); TLC witness paths, the counterexample schedule and directed/random histories executed on real streams; every property read validated by TLC (Streams.tla read clause) against a freshly created stream',
        text='TLC explores all interleavings (depth bound) of reads of three properties (one phase-independent) with temperature / phase / composition / total-flow changes and with '
             'proxy and link creation, and checks that a read always returns the value of the reader\'s current state; the same model with the original proxy() (shared memo, private key) violates it, '
             'and that counterexample schedule is replayed on the real code. Real streams are then driven along every witness path containing a read, through directed A-B-A schedules '
             '(read, change through one handle, read, change back, read through another handle) and random 40-step histories mixing 18 properties with every public mutator; TLC judges every read.',
        note='Trusted: TLC; the oracle "fresh stream with equal flows, phases, T, P" evaluated by the same property package (tolerance 1e-9 relative); caches themselves are never observed.'),
    'C11': dict(
        engine='Streams', category='model_checking',
        technique='TLA+ specs (Streams.tla view/total/unit operations; ViewCache.tla for the molar-volume memo, with the original protocol as vacuity guard) checked by TLC; real streams driven from TLC-dumped and random states, along directed read-change-read schedules and random histories; TLC validates every step',
        text='TLC checks that the volumetric view\'s memo (T, P, phase) -> V always converts with the molar volume of the current state (the phase-less original violates it) and explores the '
             'stream state machine for pre-states; on the real objects every view read (imass/ivol/mass/vol, F_mol/F_mass/F_vol, get_flow in 13 units) is compared with mol x MW, '
             'mol x molar volume at the current phase/T/P, sums of those and an independent unit table, every view/unit/total write must store exactly the corresponding molar flows, '
             'inconsistent units must raise DimensionError, interleaved with T/P/phase/phases changes, linking, copy_like, mixing and property-package resets.',
        note='Trusted: TLC; chemical.MW / chemical.V evaluated directly as the oracle for the conversion factor; tolerance 1e-9 relative; integer molar flows.'),
    'C05': dict(
        engine='Reaction', category='model_checking',
        technique='TLA+ spec of stoichiometric reactions over exact rationals (Reaction.tla) model-checked by TLC with action properties ReactConserves / ReactConverts; reactions applied to real streams, arrays and other-package streams on mol and wt basis; TLC validates every application',
        text='TLC explores all sequences (depth 3-4) of loading five balanced reactions on H2/O2/H2O/CH4/CO/CO2 with every reactant choice, setting feeds, combining reactions and applying single / parallel / series / system '
             'reactions, and checks element conservation and exact conversion on the model; every application on the real objects (stream on mol basis, the same reaction on wt basis, a stream of another package '
             'order, dense and sparse arrays) must give exactly the rational result, and must raise instead of returning a negative flow. Phase-tagged reactions on multi-phase streams run through ReactEnergy.tla (synthetic chemicals); of those steps C05 owns the clause that an infeasible conversion in the named phase must raise.',
        note='Trusted: TLC; the projection (reaction._stoichiometry, _reactant_index, X; stream.mol) rounded to rationals with denominators <= 2^20; dyadic data so that the mol-basis path is exact.'),
    'C17': dict(
        engine='Reaction', category='model_checking',
        technique='TLA+ spec of reaction arithmetic as values (Reaction.tla: AddR/SubR/MulR/NegR/Backwards) model-checked by TLC with AddIsParallel and SubUndoesAdd; real Reaction / ReactionSet objects validated by TLC after every operator',
        text='TLC checks on the model that a + b acts like a and b in parallel on every model feed and that (a + b) - b is a again, for every pair built from the library; on the real objects every binary, scalar, '
             'unary and in-place operator, copy, backwards (with and without reactant), conversion assignment on reactions, items and sets is compared with the value semantics (stoichiometry, reactant, X), '
             'operands must be unchanged and results must be new objects.',
        note='Trusted: TLC; the projection (reaction._stoichiometry, _reactant_index, X; stream.mol) rounded to rationals with denominators <= 2^20; dyadic data so that the mol-basis path is exact.'),
    'C19': dict(
        engine='NetworkOrder', category='model_checking',
        technique='TLA+ spec of the acceptable simulation orders as a nondeterministic scheduler (NetworkOrder.tla) model-checked by TLC over every flowsheet of the unit universe; paths of the real Network.from_units validated by TLC as behaviours of the scheduler',
        text='TLC shows for every DAG over 3-4 units plus up to two back-edges that the scheduler (emit a unit once all its feeders are emitted or share its strongly connected component) never gets stuck and only '
             'produces linear extensions modulo loops, so the contract is satisfiable and not vacuous; each of those flowsheets is built from real units and Network.from_units is run for every permutation of the '
             'unit list, as are random connected flowsheets of 5-10 units with 0-3 back-edges; TLC checks completeness, single occurrence (acyclic case), order, and recycle reporting on every recorded path.',
        note='Trusted: TLC; the flattening of Network.path and get_all_recycles(); "common recycle loop" = same strongly connected component.'),
    'C07': dict(
        engine='FreeEnergy', category='model_checking',
        technique='TLA+ spec defining H and S as sums of signed segments along the physical path from the reference state (FreeEnergy.tla) model-checked by TLC over a parameter grid (reference-state, derivative, jump, reference-shift identities); real Chemical / mixture objects built per grid point and validated by TLC',
        text='TLC checks the listed identities on the path definition for every grid point (3 reference phases x heat-capacity coefficients x 4 placements of Tm, Tb around T_ref x S0); for each grid point a real '
             'Chemical is built through Chemical.blank + add_method + reset_free_energies so that the library\'s own _init_energies, its nine enthalpy/entropy functors and IdealMixture run, and H, S (at three pressures), '
             'Cn in all three phases at transition and off-transition temperatures plus mixture H, Cn, S of two such chemicals must equal the integer values of the path definition (one unit of 1/400 J/mol, 1/20 J/mol/K).',
        note='Trusted: TLC; synthetic chemicals with Cn = 2cT (polynomial family only; "arbitrary Cn symbolically" is not covered); 8 database chemicals x 3 reference phases are checked with measured identities (ppm deviations judged by TLC); scaled amounts and the multi-phase forms xH / xCn / xS included; gas pressure term and ideal mixing term removed by the driver using the library\'s R.'),
    'C02': dict(
        engine='Energy', category='model_checking',
        technique='TLA+ enthalpy-ledger spec (Energy.tla: mix with heat input, energy-balanced separation, enthalpy / entropy assignment) model-checked by TLC; histories executed on real streams (database chemicals) are validated step by step by TLC against the ledger in fixed point',
        text='TLC explores all sequences of feed / mix / separate / assign over 3 streams with small integer enthalpies (ledger invariant: the pool of enthalpy changes only by heat added or assigned; receiver pressure = min over non-empty inlets). '
             'Random histories on real liquid / gas / two-phase streams of Water, Ethanol, Propanol, N2 (mix_from with energy balance and Q incl. the receiver among the inlets and single / no non-empty inlets, separate_out after a mix, '
             'H / h / S assignment with targets taken at temperatures inside and outside 250-500 K, re-assignment of the current value) are logged with H, P, emptiness before and after and TLC judges every step: '
             'H_out = sum H_in + Q within C_flow x 1e-5 K, P = min P, separation leaves the difference, read-back of assigned H / h / S, temperature stays inside the model range, same-value assignment leaves T.',
        note='Trusted: TLC; enthalpy read through the library (C07/C14 cover its meaning); tolerance is ten times the documented solver resolution. Known finding: entropy assignment on liquid phases (noise of the thermo package liquid entropy).'),
    'C06': dict(
        engine='ReactEnergy', category='model_checking',
        technique='TLA+ spec defining the heat of reaction, Hnet and the adiabatic temperature rule over exact rationals (ReactEnergy.tla) model-checked by TLC (enthalpy ledger, dH x reactant = change of Hnet, adiabatic balance, mol/wt consistency); histories on real Reaction / ParallelReaction / SeriesReaction / ReactionSystem objects and streams validated step by step by TLC',
        text='TLC explores every single / parallel / series / system set of two library reactions (mol and wt basis, phase-less and phase-tagged) on four feeds followed by isothermal / adiabatic reactions and re-heating and checks the ledger and '
             'the definition of dH on the model. Random histories on real objects built from synthetic chemicals with exact enthalpies (load a set, feed a single- or multi-phase stream, query dH of the reaction or of a set member, react, '
             'adiabatic_reaction with heat input) log material, temperature and Hnet before / after; TLC judges material, dH value, Hnet value, isothermal heat of reaction (where the definition applies), adiabatic balance and temperature.',
        note='Trusted: TLC; synthetic chemicals only (constant Cn, constant latent heats); infeasible conversions out of contract (C05).'),
    'C03': dict(
        engine='PhaseEq', category='exploration',
        technique='TLA+ contract spec of equilibrium calls as nondeterministic material-moving actions (PhaseEq.tla) model-checked by TLC; phase x chemical tables logged from real vle / lle / sle / vlle calls are validated step by step by TLC against the contract',
        text='The specification allows an equilibrium call any outcome that conserves every chemical over the phases, keeps all entries non-negative, touches only the phases (and for sle the solute) the calculation works on and places '
             'gas-only / condensed-only chemicals accordingly; TLC checks ledger, non-negativity and persistence of the locked placement over all call sequences on small tables. Histories of 8 calls on random real streams '
             '(7 chemicals incl. gas-, liquid- and solid-only ones, flows over six decades, every initial distribution over g/l/L/s, all supported specification pairs) are logged in quanta of 1e-8 and judged by TLC.',
        note='Trusted: TLC; the solvers are not modelled (contract only); calls that raise are not judged; H/S targets come from the library\'s own bounding flashes.'),
    'C15': dict(
        engine='LiquidEq', category='exploration',
        technique='TLA+ spec of the LLE solver object\'s memory protocol (what is remembered, when it is reused) with the call contracts (LiquidEq.tla) model-checked by TLC; TLC witness schedules and random histories on real lle / sle calls validated by TLC',
        text='TLC explores all sequences of lle calls (temperatures x compositions x chemical sets x reuse allowed / forbidden) on the memory protocol: the split returned is always the equilibrium of the current call (Fresh); with the reuse test as '
             'originally written the invariant fails (vacuity guard) and that schedule is replayed. Every witness schedule runs on a reusing stream, a non-reusing twin and a scaled twin; TLC judges equality with the fresh solve, activities, proportionality, '
             'top-chemical labelling; sle histories: only the solute moves, never more dissolved than present / than the given solubility, pure solute by melting point.',
        note='Trusted: TLC; activities evaluated with the library\'s own Gamma object; solver numerics not modelled. Known finding: the default pseudo-equilibrium method returns phases with unequal activities.'),
    'C16': dict(
        engine='Activity', category='exploration',
        technique='TLA+ spec of the gather / normalise / scatter plumbing and instance cache around an uninterpreted group-contribution formula (Activity.tla) model-checked by TLC with two deviation guards; measured quantities of real activity-coefficient objects judged by TLC against the contract clauses',
        text='TLC explores all pairs of evaluations over every order of every chemical subset: the caller\'s composition is untouched and the value of a chemical does not depend on its position (the originally written gather loop and an unordered cache key are shown to fail). '
             'Random evaluations of the real UNIFAC / Dortmund / NIST / ideal objects (2-6 chemicals, with and without group data, interior, vertex, near-vertex, trace and edge compositions, 250-450 K) log side effects, ones for chemicals without groups, '
             'functional form vs object call, permutation difference, pure-component limit and the Gibbs-Duhem residual; TLC judges each.',
        note='Trusted: TLC; numerical clauses measured in floating point by the driver (central differences for Gibbs-Duhem).'),
    'C08': dict(
        engine='BubbleDew', category='exploration',
        technique='TLA+ spec defining bubble / dew points of ideal mixtures with Psat = a T as exact rationals (BubbleDew.tla), model-checked by TLC for the C08 statements; values returned by real BubblePoint / DewPoint objects on such synthetic chemicals and measured residuals on real packages are validated by TLC',
        text='TLC checks bracketing (dew <= bubble pressure, bubble <= dew temperature), round trip, normalised compositions, single-component = saturation and scale independence on the rational definition for all weight vectors of the grid. '
             'Real BubblePoint / DewPoint objects on synthetic chemicals (ideal package) are called with 1-5 components incl. zero and trace ones, at any scale and order of the list, and the returned T, P, y / x compared with the rationals by TLC. '
             'For water-alcohol and hydrocarbon packages (ideal and Dortmund UNIFAC) the driver re-evaluates the defining equations with the library\'s own model objects and logs residuals for every clause; TLC judges them.',
        note='Trusted: TLC; Psat / Gamma / Phi / PCF objects of the library when re-evaluating the equations on real packages (C16 covers Gamma); tolerance 1e-6 relative there.'),
    'C20': dict(
        engine='Separations', category='exploration',
        technique='TLA+ spec defining the routing helpers (mix-and-split, phase split) and stating the others as balance-and-target contracts (Separations.tla), model-checked by TLC; histories of real helper calls are validated step by step by TLC',
        text='TLC verifies on all small tables that the definitions of mix-and-split and phase split close the balance (inlets before = outlets after, also with the outlet among the inlets). '
             'Histories of calls to the real helpers on five streams and a two-phase stream log all flows before / after; TLC judges per call: per-chemical balance, non-negativity unless infeasibility is reported, split / moisture / partition-coefficient / '
             'reconstruction / residual targets, forced top and bottom chemicals, frame (untouched streams).',
        note='Trusted: TLC; targets measured in floating point by the driver; equilibrium wrappers judged on balance only.'),
    'C04': dict(
        engine='Flash', category='exploration',
        technique='TLA+ spec of the Rachford-Rice characterisation of an ideal flash over exact rationals (Flash.tla on IdealVLE.tla), model-checked by TLC; proposals verified exactly by TLC are compared with real flashes of synthetic chemicals, and measured clauses of real-package flashes are judged by TLC',
        text='TLC checks on a grid that every feed and T / P ratio falls in exactly one region (all liquid / all vapour / two-phase with a Rachford-Rice root) independent of the feed scale. For synthetic ideal mixtures the driver proposes the solution (x, V); '
             'TLC verifies it in rationals and the real vle(T,P), vle(T,V), vle(P,V) must return it. For alcohol / hydrocarbon / aqueous packages (ideal and Dortmund, with optional non-condensable and non-volatile) the driver measures per flash: specified T / P returned, '
             'H / S reproduced, specified vapour fraction bracketed by neighbouring flashes, phase boundaries, iso-fugacity, scaling; TLC judges each.',
        note='Trusted: TLC; bubble / dew pressures and fugacity objects of the library for the real-package clauses (C08, C16); tolerances as listed in the assumptions.'),
}
