"""C08 - bubble and dew points satisfy their equations and bracket the two-phase region."""
import random
from fractions import Fraction

from harness import core, par, replayjob, tlc
from harness.drivers import bubbledew as db

ASSUME = [
    'TLC 1.8 evaluates the specification correctly',
    'exact sub-world: ideal package, synthetic chemicals with Psat_i = 1000 a_i T Pa (a = 1, 4, 3, 2, 4): TLC computes bubble / dew pressures, temperatures '
    'and compositions as rationals and compares the returned values to 5e-5 K, 5e-4 kPa, 5e-8 in fractions',
    'real packages (water + C1-C4 alcohols; C6-C8 alkanes and aromatics; ideal and Dortmund-UNIFAC): the defining equations are re-evaluated with the '
    'library\'s own Gamma / Phi / PCF / Psat objects at the returned point; residuals, round trips, bracketing, single-component values, scale and order '
    'independence are measured in floating point (tolerance 1e-6 relative) and judged from the logged integers',
]

RULE = ' Counting: evaluations = every executed call; distinct_nontrivial = distinct (operation, arguments, state before the call) among the calls that were judged, i.e. in contract, not state shaping and (where the property says so) returned normally.'


def key_of(step, clause):
    a = step['a']
    if step['op'] == 'measured':
        tot = float(sum(a['z9'])) or 1.
        trace = any(0 < v / tot < 1e-5 for v in a['z9'])
        # strongly non-ideal compositions under an activity model: a pair with a miscibility gap, or water with a C3 / C4 alcohol
        # (azeotrope, water / butanol gap) - the input class of the recorded dew-solver findings
        amount = {i: v / tot for i, v in zip(a['ids'], a['z9'])}
        present = {i for i, v in amount.items() if v > 1e-5}
        nonideal = not a['ideal'] and len(present) > 1 and (a['family'] == 'partly_miscible' or ('Water' in present and present & {'Propanol', 'Butanol'}))
        cls = ('trace' if trace else 'plain') + (',nonideal' if nonideal else '')
        return 'BubbleDew:measured:%s,%s,%s:%s' % (a['family'], 'ideal' if a['ideal'] else ('gamma+poynting' if a.get('pcf') else 'gamma'), cls, clause)
    return 'BubbleDew:%s:scaled=%s,permuted=%s,n=%d:%s' % (step['op'], a['scaled'], a['permuted'], sum(1 for v in a['w'] if v), clause)


def exact_case(seed):
    rng = random.Random(seed)
    n = len(db.A)
    present = rng.sample(range(n), rng.randint(1, 5))
    w = [0] * n
    for i in present:
        w[i] = rng.choice([1, 1, 2, 5, 1000])
    if max(w) == 1000 and rng.random() < 0.5:
        w = [v if v != 1000 else 1 for v in w]
        w[rng.choice(present)] = 1000          # one dominant component, the others at trace level
    op = rng.choice(['bubble_P', 'bubble_T', 'dew_P', 'dew_T'])
    W, swa = sum(w), sum(w[i] * db.A[i] for i in range(n))
    swoa = sum(Fraction(w[i], db.A[i]) for i in range(n))
    T = rng.randint(260, 480)
    if op.endswith('_P'):
        spec = T
    else:
        # a pressure (integer kPa) whose bubble / dew temperature lies in 260-480 K
        Pexact = (T * Fraction(swa, W)) if op == 'bubble_T' else (T * W / swoa)
        spec = max(1, int(Pexact))
        if spec > 2000:
            return None
    scale = rng.choice([1., 1. / W, 3.7, 1e-3, 250.])
    perm = list(range(n))
    if rng.random() < 0.6:
        rng.shuffle(perm)
    obs = db.exact(op, w, spec, scale, perm)
    a = dict(w=w, scaled=scale != 1. / W, permuted=perm != list(range(n)))
    a['T' if op.endswith('_P') else 'P'] = spec
    return dict(op=op, a=a, post=dict(w=w), obs=obs, job=['exact_case', seed])


def measured_case(seed):
    rng = random.Random(seed)
    n = len(db.A)
    fam = rng.choice(sorted(db.FAMILIES))
    ideal = rng.random() < 0.4 and fam != 'partly_miscible'
    pcf = (not ideal) and rng.random() < 0.4
    ids = rng.sample(db.FAMILIES[fam], rng.randint(1, len(db.FAMILIES[fam])))
    z = [rng.choice([0.02 + rng.random(), 0.02 + rng.random(), 1e-6, 0.]) for _ in ids]
    if sum(1 for v in z if v > 0) == 0:
        z[0] = 1.
    T0 = rng.uniform(280, 440)
    perm = list(range(len(ids)))
    rng.shuffle(perm)
    obs = db.measured(fam, ideal, ids, z, T0, rng.choice([2., 1e-3, 40.]), perm, pcf)
    return dict(op='measured', a=dict(family=fam, ideal=ideal, pcf=pcf, ids=ids, T=int(T0 * 1000), z9=[int(v * 1e9) for v in z], w=[0] * n, tol=1000),
                post=dict(w=[0] * n), obs=obs, job=['measured_case', seed])


def as_trace(step):
    if step is None:
        return None
    s = dict(step)
    s.pop('job', None)
    return dict(id='B0', mode='fan', init=dict(w=[0] * len(db.A)), steps=[s])


def replay_exact(seed):
    return as_trace(exact_case(seed))


def replay_measured(seed):
    return as_trace(measured_case(seed))


def run(ctx):
    rng = random.Random(ctx.seed)
    quick = ctx.quick
    r, _ = tlc.model_check('MC_BubbleDew.tla', 'MC_BubbleDew.cfg', coverage=False, timeout=3000)
    if r.violated:
        ctx.violation('BubbleDew:MC:%s' % r.violated, 'definition violates %s' % r.violated, dict(kind='mc', counterexample=r.counterexample()[:5000]))
    elif not r.ok:
        raise tlc.MachineryError(r.out[-3000:])
    ctx.note('MC BubbleDew: %d distinct states' % r.distinct)
    steps = []
    n = len(db.A)
    steps = [s for s in par.pmap(exact_case, [('%d:x%d' % (ctx.seed, k),) for k in range(500 if quick else 15000)]) if s]
    steps += par.pmap(measured_case, [('%d:m%d' % (ctx.seed, k),) for k in range(500 if quick else 6000)])
    per = 50
    traces = [dict(id='B%d' % i, mode='fan', init=dict(w=[0] * n), steps=steps[i * per:(i + 1) * per]) for i in range((len(steps) + per - 1) // per)]
    defs, cfgc = db.tla_constants()
    cases = []
    v = tlc.validate_traces('BubbleDew', defs, cfgc, traces, procs=16)
    n_ok, per_op = 0, {}
    for t in traces:
        x = v[t['id']]
        bad = dict(x['stepfail'])
        ooc = set(x['stepooc'])
        for l, s in enumerate(t['steps'], 1):
            cases.append((l not in ooc, [s['op'], s['a'], s['obs'] if s['op'] == 'measured' else None]))
            if l in bad:
                ctx.violation(key_of(s, bad[l]), '%s %r: %s obs=%r' % (s['op'], s['a'], bad[l], s['obs']),
                              dict(kind='job', func='replay_exact' if s['job'][0] == 'exact_case' else 'replay_measured', args=[s['job'][1]], clause=bad[l]))
            elif l not in ooc:
                n_ok += 1
                per_op[s['op']] = per_op.get(s['op'], 0) + 1
    cov = dict(states=r.distinct, transitions=r.generated, traces_validated_against_impl=len(traces), steps_validated_in_contract=n_ok,
               per_operation_in_contract_steps=per_op, exhaustive=False, mc_exhaustive_for_cfg=True, samples=[dict(op=steps[0]['op'], a=steps[0]['a'])],
               rule='MC: bracketing, round trip, normalisation, single-component and scale statements on the rational definition over all weight vectors in '
                    '{0,1,2,5}^3. Exact binding: bubble / dew P and T of synthetic ideal mixtures (1-5 chemicals incl. trace 1:1000 components, any scale and '
                    'order of the chemical list) compared with the rational values. Real packages: measured residuals of every C08 clause')
    cov.update(core.case_stats(cases))
    cov['rule'] += RULE
    return 'exploration', cov, ASSUME


def replay(ctx, data):
    return replayjob.run('C08', data, dict(replay_exact=replay_exact, replay_measured=replay_measured), 'BubbleDew', db.tla_constants())
