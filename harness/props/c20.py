"""C20 - separation helper functions close the material balance and meet their targets."""
import random

from harness import core, par, replayjob, tlc
from harness.drivers import separations as dsp

ASSUME = [
    'TLC 1.8 evaluates the specification correctly',
    'flows are logged in quanta of 1e-7 of five times the largest amount of each chemical; balances are judged to 8 quanta, measured targets '
    '(achieved partition coefficients, moisture fraction, split reconstruction, residual of the balance solver) to 1e-4 relative / 2e-6 absolute',
    'package Water / Ethanol / Octanol / Glucose (solid) / O2 (gas) / NaCl (solid); the equilibrium wrappers are judged on the balance only (C03 / C04 / C15 '
    'cover the equilibrium itself); calls on which the library reports infeasibility are accepted as reported',
]

RULE = ' Counting: evaluations = every executed call; distinct_nontrivial = distinct (operation, arguments, state before the call) among the calls that were judged, i.e. in contract, not state shaping and (where the property says so) returned normally.'


def key_of(step, clause):
    return 'Separations:%s:%s' % (step['op'], clause)


def history(seed, k, n_steps):
    rng = random.Random(seed)
    w = dsp.World(rng)
    init = w.project()
    steps = []
    for _ in range(n_steps):
        if rng.random() < 0.2:
            w.refeed(rng)
            steps.append(dict(op='feed', a=dict(x=0), post=w.project(), obs=dict(exc='none')))
            continue
        op, a = dsp.random_op(rng, w)
        obs = w.apply(op, a)
        steps.append(dict(op=op, a=a, post=w.project(), obs=obs))
    return dict(id='P%d' % k, mode='seq', init=init, steps=steps, job=[seed, k, n_steps])


def run(ctx):
    rng = random.Random(ctx.seed)
    quick = ctx.quick
    r, _ = tlc.model_check('MC_Separations.tla', 'MC_Separations.cfg', coverage=False, timeout=3000)
    if r.violated:
        ctx.violation('Separations:MC:%s' % r.violated, 'routing definitions violate %s' % r.violated, dict(kind='mc', counterexample=r.counterexample()[:5000]))
    elif not r.ok:
        raise tlc.MachineryError(r.out[-3000:])
    ctx.note('MC Separations: %d distinct states, %d transitions' % (r.distinct, r.generated))
    traces = par.pmap(history, [('%d:%d' % (ctx.seed, k), k, 10) for k in range(150 if quick else 4000)])
    defs, cfgc = dsp.tla_constants()
    stats = dict(ok=0, ops={})
    jobs_of = {t['id']: t.pop('job') for t in traces}
    todo, n_traces = traces, 0
    cases = []
    while todo:
        v = tlc.validate_traces('Separations', defs, cfgc, todo, procs=16)
        n_traces += len(todo)
        nxt = []
        for t in todo:
            x = v[t['id']]
            n_ok = x['l'] - 1 if x['code'] in ('rejected', 'ooc') else len(t['steps'])
            for i, s in enumerate(t['steps'], 1):
                pre_ = t['steps'][i - 2]['post'] if i > 1 else t['init']
                cases.append((i <= n_ok and i not in set(x['stepooc']) and s['op'] != 'feed', [s['op'], s['a'], pre_]))
            for s in t['steps'][:n_ok]:
                if s['op'] != 'feed':
                    stats['ok'] += 1
                    stats['ops'][s['op']] = stats['ops'].get(s['op'], 0) + 1
            if x['code'] == 'rejected':
                s = t['steps'][x['l'] - 1]
                pre = t['steps'][x['l'] - 2]['post'] if x['l'] > 1 else t['init']
                ctx.violation(key_of(s, x['clause']), '%s %r: %s obs=%r pre=%r post=%r' % (s['op'], s['a'], x['clause'], s['obs'], pre['m'], s['post']['m']),
                              dict(replayjob.job(history, jobs_of[t['id'].rstrip('c')], t['id']), clause=x['clause']))
                if t['steps'][x['l']:]:
                    nxt.append(dict(id=t['id'] + 'c', mode='seq', init=s['post'], steps=t['steps'][x['l']:]))
        todo = nxt
    cov = dict(states=r.distinct, transitions=r.generated, traces_validated_against_impl=n_traces, steps_validated_in_contract=stats['ok'],
               per_operation_in_contract_steps=stats['ops'], exhaustive=False, mc_exhaustive_for_cfg=True,
               samples=[dict(ops=[[s['op'], s['a']] for s in traces[0]['steps'][:3]])],
               rule='MC: mix-and-split (every pair of inlets incl. the top outlet itself and duplicates, every split vector over {0, 1/4, 1/2, 1}) and phase split on '
                    'all small tables: inlets before = outlets after. Real helpers: histories of 10 calls over 5 streams + one two-phase stream: mix_and_split, '
                    'phase_split, adjust_moisture_content (strict / lenient, sufficient / insufficient water), partition (K over six decades, forced top / bottom '
                    'chemicals, outlets with previous content), vle / lle wrappers (with multi-stream copy, efficiency), chemical_splits, material_balance')
    cov.update(core.case_stats(cases))
    cov['rule'] += RULE
    return 'exploration', cov, ASSUME


def replay(ctx, data):
    return replayjob.run('C20', data, dict(history=history), 'Separations', dsp.tla_constants())
