"""C04 - a vapour-liquid flash honours its specifications and the equilibrium conditions."""
import random

from harness import core, par, replayjob, tlc
from harness.drivers import flash as df

ASSUME = [
    'TLC 1.8 evaluates the specification correctly',
    'exact sub-world: ideal package, synthetic chemicals with Psat_i = 1000 a_i T Pa; the driver proposes a Rachford-Rice solution (x, V) for each feed, '
    'TLC verifies the proposal exactly in rationals and requires the real flash to return it (fractions vaporised to 2.5e-7 at given T, P and 5e-6 at given vapour fraction - V_tol is 1e-6 -, pressure to 2 Pa, temperature to 1e-3 K)',
    'real packages (C1-C4 alcohols; C6-C8 alkanes and aromatics; water with organics; ideal and Dortmund UNIFAC; optional N2 and glucose): specified T / P '
    'returned bit-identical, H / S reproduced to 1e-6, specified vapour fraction bracketed by flashes one solver resolution to either side (20 Pa / 2e-3 K), '
    'phase boundaries from the library\'s own bubble / dew pressures (C08), fugacities from LiquidFugacities / GasFugacities (1e-4), scaling (1e-6); measured in '
    'floating point by the driver and judged from the logged integers',
]

RULE = ' Counting: evaluations = every executed call; distinct_nontrivial = distinct (operation, arguments, state before the call) among the calls that were judged, i.e. in contract, not state shaping and (where the property says so) returned normally.'


def key_of(step, clause):
    a = step['a']
    if step['op'] == 'measured':
        kind = a['kind']
        if kind in ('TH', 'TS'):
            vol = [i for i in a['ids'] if i not in ('N2', 'Glucose')]
            kind += ',single' if len(vol) == 1 else ',multi'
            kind += '+solute' if 'Glucose' in a['ids'] else ''
            kind += '+gas' if 'N2' in a['ids'] else ''
            if len(vol) > 1:
                kind += ',narrow' if step['obs'].get('span6', 10 ** 6) < 50000 else ',wide'       # envelope narrower than 5 % of the pressure
        return 'Flash:measured:%s,%s,%s:%s' % (a['family'], 'ideal' if a['ideal'] else 'gamma', kind, clause)
    return 'Flash:%s:%s%s:%s' % (step['op'], a.get('region', ''), ',again' if a.get('again') else '', clause)


def exact_case(seed):
    rng = random.Random(seed)
    n = len(df.A)
    a = df.propose(rng)
    op = 'tp_exact'
    if a['region'] == 'two':
        op = rng.choice(['tp_exact', 'tp_exact', 'tv_exact', 'pv_exact'])
    a = dict(a, scaled=rng.random() < 0.5)
    a['again'] = rng.random() < 0.3          # a second call on a stream that was flashed before with another amount of the same feed
    obs = df.exact(op, a, rng.choice([1e-3, 40., 1000., 1e-10]) if a['scaled'] else 1., rng.random() < 0.3, rng.choice([1., 7., 0.01]) if a['again'] else None)
    return dict(op=op, a=a, post=dict(w=[0] * n, c=[1, 1]), obs=obs, job=['exact_case', seed])


def measured_case(seed):
    rng = random.Random(seed)
    n = len(df.A)
    fam = rng.choice(sorted(df.FAMILIES))
    ideal = rng.random() < 0.35
    ids = rng.sample(df.FAMILIES[fam], rng.randint(1, len(df.FAMILIES[fam])))
    comp = {i: 0.02 + rng.random() for i in ids}
    if rng.random() < 0.3:
        comp['N2'] = 0.01 * rng.random()
    if rng.random() < 0.3:
        comp['Glucose'] = 0.01 * rng.random()
    f = 10 ** rng.uniform(-1, 2)
    comp = {i: v * f for i, v in comp.items()}
    kind = rng.choice(['TP', 'TP', 'TV', 'PV', 'PH', 'PS', 'TP', 'TP', 'TV', 'PV', 'PH', 'PS', 'TH', 'TS', 'xy', 'xy', 'xy'])
    if rng.random() < 0.08:
        # directed: ONE volatile chemical with a non-volatile solute (and sometimes gas) under an enthalpy / entropy specification
        # (the single-chemical shortcuts of the solver with other material present)
        one = rng.choice(ids)
        comp = {one: comp[one], 'Glucose': f * 0.03 * (0.2 + rng.random())}
        if rng.random() < 0.3:
            comp['N2'] = f * 0.01 * rng.random()
        kind = rng.choice(['PH', 'PH', 'PS', 'TH'])
    if kind == 'xy':
        kind = rng.choice(['Tx', 'Ty', 'Px', 'Py'])
        comp = {i: comp[i] for i in sorted(comp)[:2]} if len([i for i in comp if i not in ('N2', 'Glucose')]) >= 2 else comp
        comp = {i: v for i, v in comp.items() if i not in ('N2', 'Glucose')}
        if len(comp) != 2:
            kind = 'TP'
    obs = df.measured(fam, ideal, comp, kind, rng.random(), rng.random(), rng.choice([1e-3, 50., 3.]))
    return dict(op='measured', a=dict(family=fam, ideal=ideal, kind=kind, ids=sorted(comp), tol=1000, hstol=100000 if kind in ('TH', 'TS') else 1000, htol=10000 if kind in ('TP', 'PH') else 100000, stol=100000 if kind[1] in 'HS' else 1000, ftol=100000, w=[0] * n, T=1, P=1),
                post=dict(w=[0] * n, c=[1, 1]), obs=obs, job=['measured_case', seed])


def as_trace(step):
    s = dict(step)
    s.pop('job', None)
    return dict(id='F0', mode='fan', init=dict(w=[0] * len(df.A), c=[1, 1]), steps=[s])


def replay_exact(seed):
    return as_trace(exact_case(seed))


def replay_measured(seed):
    return as_trace(measured_case(seed))


def run(ctx):
    rng = random.Random(ctx.seed)
    quick = ctx.quick
    r, _ = tlc.model_check('MC_Flash.tla', 'MC_Flash.cfg', coverage=False, timeout=3000)
    if r.violated:
        ctx.violation('Flash:MC:%s' % r.violated, 'definition violates %s' % r.violated, dict(kind='mc', counterexample=r.counterexample()[:5000]))
    elif not r.ok:
        raise tlc.MachineryError(r.out[-3000:])
    ctx.note('MC Flash: %d distinct states' % r.distinct)
    steps = []
    n = len(df.A)
    zero = dict(w=[0] * n, c=[1, 1])
    jobs = [('%d:x%d' % (ctx.seed, k),) for k in range(300 if quick else 10000)]
    steps = par.pmap(exact_case, jobs) + par.pmap(measured_case, [('%d:m%d' % (ctx.seed, k),) for k in range(600 if quick else 8000)])
    per = 40
    traces = [dict(id='F%d' % i, mode='fan', init=zero, steps=steps[i * per:(i + 1) * per]) for i in range((len(steps) + per - 1) // per)]
    defs, cfgc = df.tla_constants()
    cases = []
    v = tlc.validate_traces('Flash', defs, cfgc, traces, procs=16)
    n_ok, per_op, n_ooc, n_refused = 0, {}, 0, 0
    for t in traces:
        x = v[t['id']]
        bad = dict(x['stepfail'])
        ooc = set(x['stepooc'])
        for l, s in enumerate(t['steps'], 1):
            cases.append((l not in ooc, [s['op'], s['a'], s['obs'] if s['op'] == 'measured' else None]))
            if l in bad:
                ctx.violation(key_of(s, bad[l]), '%s %r: %s obs=%r' % (s['op'], s['a'], bad[l], s['obs']),
                              dict(kind='job', func='replay_exact' if s['job'][0] == 'exact_case' else 'replay_measured', args=[s['job'][1]], clause=bad[l]))
            elif l in ooc and s['op'] == 'measured':
                n_refused += 1          # a specification the library refused (not judged)
            elif l in ooc:
                n_ooc += 1
            else:
                n_ok += 1
                name = s['op'] + (':' + s['a']['kind'] if s['op'] == 'measured' else ':' + s['a']['region'])
                per_op[name] = per_op.get(name, 0) + 1
    if n_ooc:
        raise tlc.MachineryError('%d proposals were rejected by the specification (the driver must only propose exact solutions)' % n_ooc)
    cov = dict(states=r.distinct, transitions=r.generated, traces_validated_against_impl=len(traces), steps_validated_in_contract=n_ok, measured_specifications_refused_by_the_library=n_refused,
               per_operation_in_contract_steps=per_op, exhaustive=False, mc_exhaustive_for_cfg=True, samples=[dict(op=steps[0]['op'], a=steps[0]['a'])],
               rule='MC: for every feed of the grid and T / P ratio exactly one of all-liquid / all-vapour / two-phase holds, Rachford-Rice roots are solutions, '
                    'scale independence. Exact binding: TP flashes in all three regions and TV / PV flashes of synthetic ideal mixtures (1-5 chemicals, any '
                    'scale, material initially in either phase) against solutions TLC verifies in rationals. Real packages: every clause of C04 measured per flash')
    cov.update(core.case_stats(cases))
    cov['rule'] += RULE
    return 'exploration', cov, ASSUME


def replay(ctx, data):
    return replayjob.run('C04', data, dict(replay_exact=replay_exact, replay_measured=replay_measured), 'Flash', df.tla_constants())
