"""C15 - liquid-liquid and solid-liquid splits meet their equilibrium and labelling rules."""
import random

from harness import core, par, replayjob, tlc
from harness.drivers import liquideq as dl

ASSUME = [
    'TLC 1.8 evaluates the specification correctly',
    'package Water / Ethanol / Octane / Butanol / EthylAcetate (Dortmund UNIFAC) plus the solutes Naphthalene / Urea / AdipicAcid; the activities are '
    'evaluated with the library\'s own activity-coefficient object (C16 is about it); tolerances: activities 5 % relative (the Gibbs-minimising methods stop at '
    'f_tol = 1e-6 on the Gibbs energy, which leaves the activities of dilute components uncertain at the per-cent level), reuse vs. fresh solve 1e-5 of each chemical\'s total, '
    'proportionality 1e-6 (pseudo equilibrium) / 1e-3 (Gibbs minimisers: two runs differing in the last bits of the normalised feed agree to solver resolution)',
    'the solver numerics are not modelled; the model is the memory protocol of the LLE object (what is remembered, when it is reused) and the contracts',
]

MC_TEMPLATE = '''---- MODULE %(name)s ----
EXTENDS LiquidEq
c_Dev == {%(dev)s}
c_Comps == {"z1", "z2", "z3"}
c_Sets == {"c1", "c2"}
Depth == TLCGet("level") <= %(depth)d
====
'''
MC_CFG = '''SPECIFICATION Spec
CONSTANTS
  Temps = {1, 2, 3}
  Comps <- c_Comps
  ChemSets <- c_Sets
  Deviations <- c_Dev
  Ops = {"lle"}
  ActTol = 0
  SameTol = 0
  ScaleTol = 0
VIEW view
INVARIANT Fresh
INVARIANT MemSound
CONSTRAINT Depth
CHECK_DEADLOCK FALSE
'''
# a model call (T index, composition name, chemical-set name) is realised only when the composition belongs to the set
REAL = {('z1', 'c1'), ('z2', 'c1'), ('z3', 'c2'), ('z4', 'c2')}


def apalache_inductive():
    """Fresh /\\ MemSound is an inductive invariant of the memory protocol for ALL temperatures (Apalache, symbolic):
    Init => Inv and Inv /\\ Next => Inv'; with the one-sided temperature test the step must fail (guard)."""
    import os
    import shutil
    import subprocess
    import tempfile
    if not shutil.which('apalache-mc'):
        return 'apalache-mc not available'
    src = open('/verif/spec/apalache/MemProto.tla').read()
    d = tempfile.mkdtemp(prefix='verif-apa-')
    try:
        def run(name, text, init, length):
            with open(os.path.join(d, name + '.tla'), 'w') as fh:
                fh.write(text)
            p = subprocess.run(['apalache-mc', 'check', '--init=' + init, '--inv=IndInv', '--length=%d' % length, '--out-dir=' + os.path.join(d, 'out'),
                                name + '.tla'], cwd=d, capture_output=True, text=True, timeout=600)
            return 'EXITCODE: OK' in p.stdout
        base = run('MemProto', src, 'Init', 0)
        step = run('MemProto', src, 'IndInit', 1)
        dev = src.replace('MODULE MemProto', 'MODULE MemProtoDev').replace('memT = T /\\ memZ = z', 'T <= memT /\\ memZ = z')
        assert dev != src.replace('MODULE MemProto', 'MODULE MemProtoDev')
        dev_step = run('MemProtoDev', dev, 'IndInit', 1)
        if not (base and step):
            raise tlc.MachineryError('Apalache did not establish the inductive invariant of the memory protocol (base %r, step %r)' % (base, step))
        if dev_step:
            raise tlc.MachineryError('Apalache accepted the one-sided temperature test (vacuity guard)')
        return 'Fresh /\\ MemSound inductive for unbounded temperatures (base and step); the one-sided test fails the step'
    finally:
        shutil.rmtree(d, ignore_errors=True)


def schedule_trace(tid, path, method, tops):
    w = dl.LLEWorld(method)
    steps = []
    for e in path:
        a = e['a']
        if (a['z'], a['cs']) not in REAL:
            return None
        obs = w.lle(a, dl.COMPS[a['z']], dl.TEMPS[a['T']], tops)
        if obs['exc'] == 'none' and not w.memory_matches(dl.TEMPS[a['T']], dl.COMPS[a['z']]):
            obs['exc'], obs['msg'] = 'MemoryNotUpdated', 'the solver object does not remember the call just made'
        steps.append(dict(op='lle', a=a, post=w.project(), obs=obs))
    return dict(id=tid, mode='seq', init=dict(T=0, z='none', cs='none'), steps=steps)


def random_lle_trace(seed, tid, method):
    rng = random.Random(seed)
    w = dl.LLEWorld(method, k=rng.choice([1e-3, 1e3, 7.]))
    steps = []
    last_comp, last_T = None, 300.
    for n in range(rng.randint(2, 5)):
        ids = rng.sample(dl.LLE_IDS, rng.randint(2, 5))
        if not ({'Water'} & set(ids)) or not ({'Octane', 'Butanol', 'EthylAcetate'} & set(ids)):
            ids = sorted(set(ids) | {'Water', rng.choice(['Octane', 'Butanol', 'EthylAcetate'])})
        if steps and rng.random() < 0.5:
            comp = dict(last_comp)            # same composition again, other temperature (or the same)
        else:
            comp = {i: rng.choice([1., 2., 5., 10., 0.5]) for i in ids}
            if len(ids) > 2 and rng.random() < 0.2:
                comp[rng.choice(ids)] = rng.choice([1e-3, 3e-4])       # a minor component (below 1e-6 kmol/hr in the feed scaled by 1e-3)
        repeat = bool(steps) and comp == last_comp and rng.random() < 0.5
        last_comp = comp
        # (an exact repeat of the previous call - same material, same temperature - is the case in which the solver may reuse)
        T = last_T if repeat else rng.choice([rng.uniform(285, 355), 298.15, 310., 330.])
        last_T = T
        Ti = int(round(T * 1000))
        zname = 'r' + '_'.join('%s%g' % (k[:2], v) for k, v in sorted(comp.items()))
        a = dict(T=Ti, z=zname, cs='r' + ''.join(sorted(i[:2] for i in comp)), uc=rng.random() < 0.8)
        obs = w.lle(a, comp, T, rng.choice(list(comp)) if repeat and rng.random() < 0.7 else rng.choice(['none', 'none'] + list(comp)))
        steps.append(dict(op='lle', a=a, post=w.project(), obs=obs))
    return dict(id=tid, mode='seq', init=dict(T=0, z='none', cs='none'), steps=steps)


def sle_trace(seed, tid):
    rng = random.Random(seed)
    w = dl.SLEWorld(rng)
    steps = []
    for n in range(rng.randint(1, 5)):
        if n and rng.random() < 0.4:
            w.change_solvents(rng)
        if n and rng.random() < 0.3:
            w.switch_solute()
        if n and rng.random() < 0.3:
            w.change_amount(rng)
        T = rng.uniform(250, 450)
        sol = rng.choice([None, None, None, 0.001, 0.05, 0.3, 0.9, 0., 1.])
        obs = w.sle(T, sol)
        if obs['exc'] != 'none' and steps:
            break           # what a solver object does after a call that raised is not C15's subject (the first call's failure is reported)
        steps.append(dict(op='sle', a=dict(solute=w.solute, T=int(round(T * 1000)), given=sol is not None, pure=w.pure, first=n == 0), post=dict(T=0, z='none', cs='none'), obs=obs))
    return dict(id=tid, mode='seq', init=dict(T=0, z='none', cs='none'), steps=steps)

RULE = ' Counting: evaluations = every executed call; distinct_nontrivial = distinct (operation, arguments, state before the call) among the calls that were judged, i.e. in contract, not state shaping and (where the property says so) returned normally.'


def key_of(step, clause):
    a = step['a']
    if step['op'] == 'lle':
        return 'LiquidEq:lle:method=%s,n=%s:%s' % (step['obs'].get('method', '?'), step['obs'].get('n', '?'), clause)
    return 'LiquidEq:sle:%s,%s,%s:%s' % ('given' if a['given'] else 'computed', 'pure' if a['pure'] else 'solvents', 'first' if a['first'] else 'later', clause)


def run(ctx):
    rng = random.Random(ctx.seed)
    quick = ctx.quick
    depth = 4 if quick else 5
    files = {'MC_LiquidEq.tla': MC_TEMPLATE % dict(name='MC_LiquidEq', dev='', depth=depth), 'MC_LiquidEq.cfg': MC_CFG}
    r, states = tlc.model_check('MC_LiquidEq.tla', 'MC_LiquidEq.cfg', dump=True, coverage=False, files=files, timeout=3400, workers=1)    # one worker: the witness paths are reproducible
    if r.violated:
        ctx.violation('LiquidEq:MC:%s' % r.violated, 'memory protocol model violates %s' % r.violated, dict(kind='mc', counterexample=r.counterexample()[:6000]))
    elif not r.ok:
        raise tlc.MachineryError(r.out[-3000:])
    ctx.note('MC LiquidEq (depth %d): %d distinct states, %d transitions' % (depth, r.distinct, r.generated))
    inductive = 'not run (quick tier)'
    if not quick:
        inductive = apalache_inductive()
        ctx.note('Apalache: ' + inductive)
    files = {'MC_LiquidEqDev.tla': MC_TEMPLATE % dict(name='MC_LiquidEqDev', dev='"T_test_one_sided"', depth=4), 'MC_LiquidEqDev.cfg': MC_CFG}
    rd, _ = tlc.model_check('MC_LiquidEqDev.tla', 'MC_LiquidEqDev.cfg', coverage=False, files=files, timeout=3400)
    if rd.violated not in ('Fresh', 'MemSound'):
        raise tlc.MachineryError('the one-sided temperature test should violate Fresh (vacuity guard), got %r' % rd.violated)
    dev_trace = [s.get('path') for s in rd.error_trace_states() if s.get('path') is not None]
    witness = sorted((s['path'] for s in states if s.get('path')), key=repr)
    realisable = [p for p in witness if all((e['a']['z'], e['a']['cs']) in REAL for e in p)]
    if dev_trace:
        realisable.append(max(dev_trace, key=len))
    # the witness paths reach every memory state; extend each by every possible next call (all transitions of the model)
    calls = [dict(op='lle', a=dict(T=T, z=z, cs=cs, uc=uc)) for T in (1, 2, 3) for (z, cs) in sorted(REAL) if z != 'z4' for uc in (True, False)]
    ext = [p + [c] for p in realisable for c in calls] + [p + [c, d] for p in realisable[:6] for c in calls[::5] for d in calls[::3]]
    chosen = ext if not quick else rng.sample(ext, min(100, len(ext)))
    if dev_trace:
        chosen.append(max(dev_trace, key=len))
    jobs = [('W%d' % k, p, 'pseudo equilibrium' if k % 10 else 'shgo', 'none' if k % 3 else 'Water') for k, p in enumerate(chosen)]
    job_of = {j[0]: ('schedule_trace', list(j)) for j in jobs}
    traces = [t for t in par.pmap(schedule_trace, jobs) if t]
    n_sched = len(traces)
    methods = ['pseudo equilibrium', 'shgo', 'pseudo equilibrium', 'differential evolution']
    jobs = [('%d:L%d' % (ctx.seed, k), 'L%d' % k, methods[k % 4] if not quick or k % 20 == 3 else methods[1 if k % 5 == 0 else 0]) for k in range(40 if quick else 2500)]
    job_of.update({j[1]: ('random_lle_trace', list(j)) for j in jobs})
    traces += par.pmap(random_lle_trace, jobs)
    jobs = [('%d:S%d' % (ctx.seed, k), 'S%d' % k) for k in range(150 if quick else 4000)]
    job_of.update({j[1]: ('sle_trace', list(j)) for j in jobs})
    traces += par.pmap(sle_trace, jobs)
    # remember the method in the observation (for violation keys)
    defs, cfgc = dl.tla_constants()
    stats = dict(ok=0, ops={})
    todo, n_traces = traces, 0
    cases = []
    method_of = {}
    while todo:
        v = tlc.validate_traces('LiquidEq', defs, cfgc, todo, procs=16)
        n_traces += len(todo)
        nxt = []
        for t in todo:
            x = v[t['id']]
            n_ok = x['l'] - 1 if x['code'] in ('rejected', 'ooc') else len(t['steps'])
            for i, s in enumerate(t['steps'], 1):
                cases.append((i <= n_ok, [s['op'], s['a'], t['id'].rstrip('c') if s['op'] == 'sle' else (t['steps'][i - 2]['post'] if i > 1 else t['init'])]))
            for s in t['steps'][:n_ok]:
                stats['ok'] += 1
                stats['ops'][s['op']] = stats['ops'].get(s['op'], 0) + 1
            if x['code'] == 'rejected':
                s = t['steps'][x['l'] - 1]
                ctx.violation(key_of(s, x['clause']), '%s %r: %s obs=%r' % (s['op'], s['a'], x['clause'], s['obs']),
                              dict(kind='job', func=job_of[t['id'].rstrip('c')][0], args=job_of[t['id'].rstrip('c')][1], trace=t['id'], clause=x['clause']))
                if t['steps'][x['l']:]:
                    nxt.append(dict(id=t['id'] + 'c', mode='seq', init=s['post'], steps=t['steps'][x['l']:]))
        todo = nxt
    cov = dict(states=r.distinct, transitions=r.generated, traces_validated_against_impl=n_traces, schedules_from_model=n_sched,
               steps_validated_in_contract=stats['ok'], per_operation_in_contract_steps=stats['ops'],
               vacuity_guard='LiquidEq with the one-sided temperature test violates %s; its counterexample schedule is replayed on the real solver' % rd.violated,
               exhaustive=False, mc_exhaustive_for_cfg=True, mc_depth_bound=depth, unbounded_inductive_invariant=inductive,
               samples=[dict(ops=[[s['op'], s['a']] for s in traces[0]['steps'][:4]])],
               rule='MC: all sequences (depth bound) of lle calls over 3 temperatures x 3 compositions x 2 chemical sets x reuse allowed / forbidden on the memory '
                    'protocol (Fresh, MemSound); TLC witness schedules are replayed on real streams (reusing stream, non-reusing twin, scaled twin) and the split, '
                    'activities, proportionality and labelling judged by TLC; random lle histories over 2-5 chemicals with every method; random sle histories '
                    '(3 solutes, 0-3 solvents, given / computed solubility, 250-450 K)')
    cov.update(core.case_stats(cases))
    cov['rule'] += RULE
    return 'exploration', cov, ASSUME


def replay(ctx, data):
    return replayjob.run('C15', data, dict(schedule_trace=schedule_trace, random_lle_trace=random_lle_trace, sle_trace=sle_trace), 'LiquidEq', dl.tla_constants())
