"""C18 - flowsheet connections stay mutually consistent under every rewiring operation.

Pipeline (DESIGN 2.1): TLC model-checks spec/Flowsheet.tla; TLC's dumped states and TLC's
simulated behaviours supply pre-states / operation sequences; the driver executes them on real
AbstractUnit/AbstractStream objects; TLC validates the recorded executions against the spec.
"""
import random

from harness import tlc
from harness.drivers import flowsheet as fs

ASSUME = [
    'TLC 1.8 evaluates the specification correctly',
    'projection reads unit.ins/outs and stream.source/sink (public attributes); placeholders are compared as the anonymous value "missing"',
    'operations are exercised only inside the preconditions listed in the property (Pre in Flowsheet.tla); out-of-contract steps are ignored',
]


def key_of(universe, st, step, clause):
    """Identify a rejection by operation, port-list kind and failing clause."""
    op, a = step['op'], step['a']
    kind = ''
    if 'side' in a and 'u' in a and a['u'] in universe['units']:
        spec = universe['units'][a['u']]
        kind = 'fixed' if spec[2 if a['side'] == 'in' else 3] else 'variable'
    if op == 'unit_disconnect_sel':
        kind = 'by_stream' if a.get('bs') else 'by_index'
    if op == 'unit_insert':
        kind = 'ik=%s,ok=%s' % ('int' if a['ik'] else 'none', 'int' if a['ok'] else 'none')
    return 'Flowsheet:%s:%s:%s' % (op, kind, clause)


def run_paths(universe, paths, prefix):
    traces = []
    for k, path in enumerate(paths):
        w = fs.World(universe)
        init = w.project()
        steps = []
        for e in path:
            obs = w.apply(e['op'], e['a'])
            steps.append(dict(op=e['op'], a=e['a'], post=w.project(), obs=obs))
        traces.append(dict(id='%s%d' % (prefix, k), mode='seq', init=init, steps=steps))
    return traces


def run_steps(universe, states, rng, per_op, prefix, max_len=2, max_xs=2):
    traces = []
    for k, st in enumerate(states):
        steps = []
        for op, a in fs.candidates(universe, st, rng, per_op=per_op, max_len=max_len, max_xs=max_xs):
            w = fs.World(universe)
            w.set_state(st)
            obs = w.apply(op, a)
            steps.append(dict(op=op, a=a, post=w.project(), obs=obs))
        traces.append(dict(id='%s%d' % (prefix, k), mode='fan', init=st, steps=steps))
    return traces


def judge(ctx, universe, traces, verdicts, stats):
    for t in traces:
        v = verdicts[t['id']]
        if t['mode'] == 'fan':
            stats['steps_in_contract'] += len(t['steps']) - len(v['stepooc'])
            stats['steps_ooc'] += len(v['stepooc'])
            ooc = set(v['stepooc'])
            for i, s in enumerate(t['steps'], 1):
                if i not in ooc:
                    stats['ops'][s['op']] = stats['ops'].get(s['op'], 0) + 1
            for l, clause in v['stepfail']:
                s = t['steps'][l - 1]
                ctx.violation(key_of(universe, t['init'], s, clause),
                              '%s%r from state %r: %s' % (s['op'], s['a'], t['init'], clause),
                              dict(kind='step', universe=universe, init=t['init'], steps=[s], clause=clause))
        else:
            n_ok = v['l'] - 1 if v['code'] in ('rejected', 'ooc') else len(t['steps'])
            stats['steps_in_contract'] += n_ok
            for s in t['steps'][:n_ok]:
                stats['ops'][s['op']] = stats['ops'].get(s['op'], 0) + 1
            if v['code'] == 'ooc':
                stats['traces_truncated_ooc'] += 1
            if v['code'] == 'rejected':
                s = t['steps'][v['l'] - 1]
                ctx.violation(key_of(universe, None, s, v['clause']),
                              'step %d %s%r: %s' % (v['l'], s['op'], s['a'], v['clause']),
                              dict(kind='trace', universe=universe, init=t['init'], steps=t['steps'][:v['l']],
                                   clause=v['clause']))


def run(ctx):
    rng = random.Random(ctx.seed)
    quick = ctx.quick
    # 1. model checking (design level) + state dump
    cfg = 'MC_Flowsheet_s2.cfg' if quick else 'MC_Flowsheet_s3.cfg'
    uni = fs.UNIVERSES['mc2' if quick else 'mc3']
    r, states = tlc.model_check('MC_Flowsheet.tla', cfg, dump=True, coverage=True, timeout=3000)
    if r.violated:
        ctx.violation('Flowsheet:MC:%s' % r.violated, 'specification violates %s' % r.violated,
                      dict(kind='mc', cfg=cfg, counterexample=r.counterexample()[:5000]))
    elif not r.ok:
        raise tlc.MachineryError('MC did not complete:\n' + r.out[-3000:])
    never = sorted(a for a, (d, g) in r.actions.items() if g == 0 and a not in ('Init',))
    ctx.note('MC %s: %d distinct states, %d transitions, depth %d; actions never taken: %s'
             % (cfg, r.distinct, r.generated, r.depth, never or 'none'))
    witness = [s['path'] for s in states if s.get('path')]
    witness.sort(key=repr)
    states = [{k: s[k] for k in ('ins', 'outs', 'sink', 'source')} for s in states]
    states.sort(key=repr)
    # 2. STEP: candidate operations at TLC-dumped states, executed on the real objects
    n_states = 250 if quick else 6000
    sample = states if n_states >= len(states) else rng.sample(states, n_states)
    step_traces = run_steps(uni, sample, rng, per_op=2 if quick else 3, prefix='S')
    # 3. SIM: TLC-simulated behaviours on the larger universe, replayed on the real objects
    nsim, depth = (150, 40) if quick else (3000, 40)
    res, paths = tlc.simulate_paths('MC_Flowsheet.tla', 'MC_Flowsheet_big.cfg', nsim, depth, ctx.seed + 1,
                                    procs=8 if quick else 16)
    for rr in res:
        if rr.violated:
            ctx.violation('Flowsheet:SIM:%s' % rr.violated, 'simulation of the specification violates %s' % rr.violated,
                          dict(kind='mc', cfg='MC_Flowsheet_big.cfg', counterexample=rr.counterexample()[:5000]))
    big = fs.UNIVERSES['big']
    sim_traces = run_paths(big, paths, 'P')
    # plus the witness paths TLC recorded for dumped states (history-reached versions of those states)
    wsample = witness if not quick else rng.sample(witness, min(300, len(witness)))
    wit_traces = run_paths(uni, wsample, 'W')
    # 4. trace validation by TLC
    stats = dict(steps_in_contract=0, steps_ooc=0, traces_truncated_ooc=0, ops={})
    defs, cfgc = fs.tla_constants(uni, max_len=2, max_xs=2)
    v1 = tlc.validate_traces('Flowsheet', defs, cfgc, step_traces, procs=16)
    judge(ctx, uni, step_traces, v1, stats)
    v3 = tlc.validate_traces('Flowsheet', defs, cfgc, wit_traces, procs=16)
    judge(ctx, uni, wit_traces, v3, stats)
    defs, cfgc = fs.tla_constants(big, max_len=4, max_xs=3)
    v2 = tlc.validate_traces('Flowsheet', defs, cfgc, sim_traces, procs=16)
    judge(ctx, big, sim_traces, v2, stats)
    n_tr = len(step_traces) + len(sim_traces) + len(wit_traces)
    sample_trace = None
    if sim_traces:
        t = sim_traces[0]
        sample_trace = dict(universe='big', ops=[[s['op'], s['a']] for s in t['steps'][:8]], verdict=v2[t['id']]['code'])
    cov = dict(states=r.distinct, transitions=r.generated, depth=r.depth,
               traces_validated_against_impl=n_tr,
               steps_validated_in_contract=stats['steps_in_contract'],
               steps_out_of_contract_ignored=stats['steps_ooc'],
               sim_traces_truncated_out_of_contract=stats['traces_truncated_ooc'],
               per_operation_in_contract_steps=stats['ops'],
               mc_actions={a: list(c) for a, c in sorted(r.actions.items())},
               mc_actions_never_taken=never,
               dumped_states_used=len(sample), dumped_states_total=len(states),
               sim_behaviours=len(sim_traces), witness_paths_replayed=len(wit_traces), sim_depth=depth,
               exhaustive=False, mc_exhaustive_for_cfg=True,
               samples=[sample_trace, dict(step_state=sample[0], step_ops=[[s['op'], s['a']] for s in step_traces[0]['steps'][:5]])],
               rule='MC: complete reachable graph of Flowsheet.tla for the cfg; STEP: sampled operations at TLC-dumped states; '
                    'SIM: TLC -simulate behaviours on 6 units/10 streams; every recorded step validated by TLC against Pre/Post/invariants')
    return 'model_checking', cov, ASSUME


def replay(ctx, data):
    rp = data.get('replay') or {}
    if rp.get('kind') not in ('step', 'trace'):
        print('# replay: nothing executable in this file (model-level counterexample)')
        print(rp.get('counterexample', ''))
        return 1
    uni = rp['universe']
    w = fs.World(uni)
    w.set_state(rp['init'])
    steps = []
    for s in rp['steps']:
        obs = w.apply(s['op'], s['a'])
        steps.append(dict(op=s['op'], a=s['a'], post=w.project(), obs=obs))
        print('# %s %r -> %r %r' % (s['op'], s['a'], obs, steps[-1]['post']))
    tr = [dict(id='R0', mode='seq', init=rp['init'], steps=steps)]
    defs, cfgc = fs.tla_constants(uni, max_len=6, max_xs=4)
    v = tlc.validate_traces('Flowsheet', defs, cfgc, tr, procs=1)['R0']
    print('# verdict: %r' % (v,))
    if v['code'] == 'rejected':
        print('VIOLATION property=C18 replay=%s' % data.get('_path', ''))
        return 1
    return 0
