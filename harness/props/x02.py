"""X02 - life cycle of chemical collections (specification extension, not one of the listed properties).

spec/ChemSet.tla is an exact model of thermosteam.Chemicals / CompiledChemicals: building, appending, extending, compiling, aliases
(which the chemical objects remember and carry into later compilations), chemical groups and the name lookups.  TLC checks the lookup
guarantees on the model, refutes two weaker expectations (vacuity guards), and its behaviours are replayed on real objects (synthetic
chemicals); every recorded step is validated against the model by TLC.  A rejection means the code's behaviour changed - it is
reported as a deviation of this extension, not as a violation of a listed property."""
import random

from harness import par, tlc
from harness.drivers import chemset as dn

ASSUME = [
    'TLC 1.8 evaluates the specification correctly',
    'the projection reads the members in order, the class (compiled or not), CompiledChemicals._index cross-checked with the attribute dictionary, and Chemical.aliases',
    'synthetic chemicals (search_db=False, CAS = ID, no names of their own); compile(skip_checks=True); extend with another collection only between uncompiled collections and set_alias only on names that are not groups (the code half-applies those calls; outside the model)',
]


def key_of(step, clause):
    a = step['a']
    extra = ''
    return 'ChemSet:%s:%s:%s' % (step['op'], extra, clause)


def run_paths(paths, prefix, objs):
    traces = []
    for k, path in enumerate(paths):
        w = dn.World(objs)
        init = w.project()
        steps = []
        for e in path:
            obs = w.apply(e['op'], e['a'])
            steps.append(dict(op=e['op'], a=e['a'], post=w.project(), obs=obs))
        traces.append(dict(id='%s%d' % (prefix, k), mode='seq', init=init, steps=steps))
    return traces


def random_history(seed, k, n):
    rng = random.Random(seed)
    return [dict(op=op, a=a) for op, a in (dn.random_op(rng) for _ in range(n))]


def run(ctx):
    rng = random.Random(ctx.seed)
    quick = ctx.quick
    cfg = 'MC_ChemSet_quick.cfg' if quick else 'MC_ChemSet.cfg'
    r, states = tlc.model_check('MC_ChemSet.tla', cfg, dump=True, coverage=False, timeout=3000)
    if r.violated:
        ctx.violation('ChemSet:MC:%s' % r.violated, 'naming model violates %s' % r.violated, dict(kind='mc', counterexample=r.counterexample()[:5000]))
    elif not r.ok:
        raise tlc.MachineryError(r.out[-3000:])
    ctx.note('MC %s: %d distinct states, %d transitions, depth %d' % (cfg, r.distinct, r.generated, r.depth))
    # vacuity guards: the two weaker expectations must be refuted by the model
    dev = open(tlc.os.path.join(tlc.SPEC, 'MC_ChemSet_dev.cfg')).read()
    for inv in ('IDDenotesMember', 'AliasesAreLocal'):
        rd, _ = tlc.model_check('MC_ChemSet.tla', 'dev.cfg', coverage=False, files={'dev.cfg': dev.replace('@INV@', inv)}, timeout=3000)
        if rd.violated != inv:
            raise tlc.MachineryError('the model should refute %s (vacuity guard), got %r' % (inv, rd.violated))
    objs = dn.CHEMS[:2] if quick else dn.CHEMS
    witness = sorted((s['path'] for s in states if s.get('path')), key=repr)
    wsample = witness if len(witness) <= (400 if quick else 20000) else rng.sample(witness, 400 if quick else 20000)
    groups = [(objs, run_paths(wsample, 'W', objs))]
    res, paths = tlc.simulate_paths('MC_ChemSet.tla', 'MC_ChemSet_sim.cfg', 100 if quick else 3000, 25, ctx.seed + 1, procs=8 if quick else 16)
    for rr in res:
        if rr.violated:
            ctx.violation('ChemSet:SIM:%s' % rr.violated, 'simulation of the naming model violates %s' % rr.violated, dict(kind='mc', counterexample=rr.counterexample()[:5000]))
    groups.append((dn.CHEMS, run_paths(paths, 'P', dn.CHEMS)))
    hist = par.pmap(random_history, [('%d:%d' % (ctx.seed, k), k, 40) for k in range(100 if quick else 3000)])
    groups.append((dn.CHEMS, run_paths(hist, 'R', dn.CHEMS)))
    stats = dict(ok=0, ooc=0, ops={})
    n_tr = 0
    for ob, traces in groups:
        defs, cfgc = dn.tla_constants(ob)
        todo = traces
        while todo:
            v = tlc.validate_traces('ChemSet', defs, cfgc, todo, procs=16)
            n_tr += len(todo)
            nxt = []
            for t in todo:
                x = v[t['id']]
                n_ok = x['l'] - 1 if x['code'] in ('rejected', 'ooc') else len(t['steps'])
                ooc = set(x['stepooc'])
                for i, s in enumerate(t['steps'][:n_ok], 1):
                    if i in ooc:
                        stats['ooc'] += 1
                    else:
                        stats['ok'] += 1
                        stats['ops'][s['op']] = stats['ops'].get(s['op'], 0) + 1
                if x['code'] == 'rejected':
                    s = t['steps'][x['l'] - 1]
                    ctx.violation(key_of(s, x['clause']), 'step %d %s %r: %s (obs %r)' % (x['l'], s['op'], s['a'], x['clause'], s['obs']),
                                  dict(kind='trace', objs=ob, steps=[dict(op=z['op'], a=z['a']) for z in t['steps'][:x['l']]], clause=x['clause']))
                    if t['steps'][x['l']:]:
                        nxt.append(dict(id=t['id'] + 'c', mode='seq', init=s['post'], steps=t['steps'][x['l']:]))
            todo = nxt
    cov = dict(states=r.distinct, transitions=r.generated, depth=r.depth, traces_validated_against_impl=n_tr,
               steps_validated_in_contract=stats['ok'], steps_out_of_contract_ignored=stats['ooc'], per_operation_in_contract_steps=stats['ops'],
               exhaustive=False, mc_exhaustive_for_cfg=True,
               samples=[dict(ops=[[s['op'], s['a']] for s in groups[-1][1][0]['steps'][:5]])],
               rule='MC: all sequences (depth 6) of new / append / extend / extend-from / compile / set_alias / define_group over two collections of 2-3 '
                    'chemicals with alias and group names that may coincide with chemical IDs: no duplicates, name table functional and inside the collection, '
                    'compiling freezes members and order, set_alias never removes a name; two weaker expectations refuted (vacuity guards). Witness paths, '
                    'simulated behaviours (depth 25) and random histories replayed on real Chemicals objects; every step (members, class, name table, aliases '
                    'remembered by the chemicals, result, exception) validated by TLC')
    return 'model_checking', cov, ASSUME


def replay(ctx, data):
    rp = data.get('replay') or {}
    if rp.get('kind') != 'trace':
        print(rp.get('counterexample', '# nothing executable'))
        return 1
    tr = run_paths([rp['steps']], 'R', rp['objs'])
    for s in tr[0]['steps']:
        print('# %s %r -> %r' % (s['op'], s['a'], s['obs']))
    defs, cfgc = dn.tla_constants(rp['objs'])
    v = tlc.validate_traces('ChemSet', defs, cfgc, tr, procs=1)['R0']
    print('# verdict: %r' % (v,))
    if v['code'] == 'rejected':
        print('VIOLATION property=X02 replay=%s' % data.get('_path', ''))
        return 1
    return 0
