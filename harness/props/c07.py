"""C07 - pure-component and mixture enthalpy/entropy are thermodynamically consistent."""
import random

from harness import tlc
from harness.drivers import freeenergy as df

ASSUME = [
    'TLC 1.8 evaluates the specification correctly',
    'synthetic chemicals (Chemical.blank + add_method) with Cn = 2 c T in every phase and integer latent heats go through the '
    'library\'s own _init_energies, functors and IdealMixture; all expected values are integers in units of 1/400 J/mol and 1/20 J/mol/K '
    '(tolerance one unit)',
    'the identities "for arbitrary heat-capacity functions, symbolically" are covered only for this polynomial family (every wiring error of the '
    'nine functors is visible in it); of the bundled database 8 chemicals (water, alcohols, hydrocarbons, acetone) x 3 reference phases are checked with '
    'measured identities (reference state, jumps at Tm and Tb, gas pressure term to 10 ppm; dH/dT and dS/dT against a Simpson quadrature of Cn over 20 K to 500 ppm)',
]


def queries(rng, par, n):
    out = []
    pts = sorted({par['Tm20'], par['Tb20'], 5963, 5000, 6000, 7000, 8000, 9000, 4400, par['Tm20'] + 20, par['Tb20'] - 20})
    for _ in range(n):
        out.append(('eval', dict(ph=rng.choice('slg'), T20=rng.choice(pts), k=rng.choice([0, 0, 1, 2, -1]))))
    return out


def key_of(par, step, clause):
    a = step['a']
    if step['op'] == 'db':
        return 'FreeEnergy:db:%s,ref=%s:%s' % (a['chem'], a['ref'], clause)
    return 'FreeEnergy:%s:ref=%s%s:ph=%s:%s' % (step['op'], par['ref'], '' if par.get('lock', 'none') == 'none' else ',locked', a['ph'], clause)


def run(ctx):
    rng = random.Random(ctx.seed)
    quick = ctx.quick
    r, states = tlc.model_check('MC_FreeEnergy.tla', 'MC_FreeEnergy.cfg', dump=True, coverage=False, timeout=3000)
    if r.violated:
        ctx.violation('FreeEnergy:MC:%s' % r.violated, 'path definition violates %s' % r.violated, dict(kind='mc', counterexample=r.counterexample()[:5000]))
    elif not r.ok:
        raise tlc.MachineryError(r.out[-3000:])
    ctx.note('MC FreeEnergy grid: %d distinct states' % r.distinct)
    pairs = sorted(({'par': s['par'], 'mix': s['mix']} for s in states), key=repr)
    sample = pairs if not quick else rng.sample(pairs, min(150, len(pairs)))
    traces = []
    for k, st in enumerate(sample):
        st = dict(st, via=rng.choice(['same', 'inplace_other', 'copy_other', 'setters', 'setters']))     # how phase-locked chemicals are made (driver)
        w = df.World(st['par'], st['mix'], st['via'])
        steps = []
        for op, a in queries(rng, st['par'], 12 if quick else 30):
            obs = w.apply(op, a)
            steps.append(dict(op=op, a=a, post=w.project(), obs=obs))
        for _ in range(4 if quick else 8):
            a = dict(ph=rng.choice('slg'), T20=rng.choice([5000, 5963, 6400, 8000]), n1=rng.choice([0, 1, 2, 3]), n2=rng.choice([1, 2, 5]),
                     sc=rng.choice([0, 0, -40, -60, 20]))
            obs = w.apply('mix', a)
            steps.append(dict(op='mix', a=a, post=w.project(), obs=obs))
        for _ in range(3 if quick else 6):
            labels = rng.sample(['s', 'l', 'g', 'S', 'L'], rng.randint(1, 4))
            if rng.random() < 0.5:
                labels = list(dict.fromkeys(labels + rng.choice([['l', 'L'], ['s', 'S']])))
            rows = [[ph, rng.choice([0, 1, 2]), rng.choice([1, 3])] for ph in labels]
            a = dict(T20=rng.choice([5000, 5963, 6400, 8000]), rows=rows, ph='x')
            obs = w.apply('xmix', a)
            steps.append(dict(op='xmix', a=a, post=w.project(), obs=obs))
        traces.append(dict(id='F%d' % k, mode='fan', init=st, steps=steps))
    # chemicals of the bundled database, every reference phase (measured identities)
    db = [(c, ref) for c in df.DB_CHEMS for ref in 'slg']
    st = dict(sample[0], via='same')
    w = df.World(st['par'], st['mix'])
    steps = []
    for c, ref in (db if not quick else db):
        a = dict(chem=c, ref=ref)
        steps.append(dict(op='db', a=a, post=w.project(), obs=w.apply('db', a)))
    traces.append(dict(id='DB', mode='fan', init=st, steps=steps))
    defs, cfgc = df.tla_constants()
    v = tlc.validate_traces('FreeEnergy', defs, cfgc, traces, procs=16)
    n_steps = 0
    for t in traces:
        x = v[t['id']]
        n_steps += len(t['steps']) - len(x['stepooc'])
        for l, clause in x['stepfail']:
            s = t['steps'][l - 1]
            ctx.violation(key_of(t['init']['par'], s, clause), 'par %r %s %r: %s obs=%r' % (t['init']['par'], s['op'], s['a'], clause, s['obs']),
                          dict(kind='step', init=t['init'], steps=[dict(op=s['op'], a=s['a'])], clause=clause))
    cov = dict(states=r.distinct, transitions=r.generated, traces_validated_against_impl=len(traces), steps_validated_in_contract=n_steps,
               parameter_tuples_bound_to_real_chemicals=len(sample), parameter_tuples_total=len(pairs),
               exhaustive=not quick, samples=[dict(par=traces[0]['init']['par'], queries=[[s['op'], s['a']] for s in traces[0]['steps'][:4]])],
               rule='MC: reference-state, derivative, jump and reference-shift identities of the path definition on the whole parameter grid '
                    '(3 reference phases x heat-capacity coefficients x 4 (Tm, Tb) placements around T_ref x S0); for each grid point a real Chemical is '
                    'built and H, S (three pressures), Cn in all three phases at transition and off-transition temperatures, and the mixture H, Cn, S of two '
                    'such chemicals (also with scaled amounts and in the multi-phase forms xH / xCn / xS), are validated by TLC against the path definition; database chemicals: measured identities')
    return 'model_checking', cov, ASSUME


def replay(ctx, data):
    rp = data.get('replay') or {}
    if rp.get('kind') != 'step':
        print(rp.get('counterexample', '# nothing executable'))
        return 1
    w = df.World(rp['init']['par'], rp['init']['mix'], rp['init'].get('via', 'same'))
    steps = []
    for s in rp['steps']:
        obs = w.apply(s['op'], s['a'])
        steps.append(dict(op=s['op'], a=s['a'], post=w.project(), obs=obs))
        print('# %s %r -> %r' % (s['op'], s['a'], obs))
    defs, cfgc = df.tla_constants()
    v = tlc.validate_traces('FreeEnergy', defs, cfgc, [dict(id='R0', mode='fan', init=rp['init'], steps=steps)], procs=1)['R0']
    print('# verdict: %r' % (v,))
    if v['stepfail']:
        print('VIOLATION property=C07 replay=')
        return 1
    return 0
