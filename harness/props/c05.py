"""C05 - reactions conserve mass and atoms and convert exactly X of the reactant."""
from harness.props import reaction_common as rc


def run(ctx):
    return rc.run(ctx, 'C05', rc.APPLY, rc.SHAPE + ['set_X', 'mul', 'add'])


def replay(ctx, data):
    return rc.replay(ctx, data, 'C05')
