"""C05 - reactions conserve mass and atoms and convert exactly X of the reactant."""
from harness.props import c06
from harness.props import reaction_common as rc


def run(ctx):
    level, cov, assume = rc.run(ctx, 'C05', rc.APPLY_C05, rc.SHAPE + ['set_X', 'mul', 'add'])
    # phase-tagged reactions on multi-phase streams (ReactEnergy.tla): infeasible conversions must be refused
    cov['phase_tagged_feasibility'] = c06.tagged_feasibility(ctx)
    assume = assume + ['phase-tagged reactions on multi-phase streams are exercised through ReactEnergy.tla (synthetic chemicals): material and '
                       'energy clauses are reported by C06, the refusal of infeasible conversions by C05']
    return level, cov, assume


def replay(ctx, data):
    if ((data.get('replay') or {}).get('kind')) == 'seq' and 'hf' in ((data.get('replay') or {}).get('init') or {}):
        return c06.replay(ctx, data)
    return rc.replay(ctx, data, 'C05')
