"""C09 - sparse flow arrays behave exactly like the dense NumPy arrays they represent."""
import random

from harness import tlc
from harness.drivers import sparse as sd

ASSUME = [
    'TLC 1.8 evaluates the specification correctly',
    'dense semantics in Sparse.tla is a transcription of NumPy; every step also carries NumPy\'s own answer and a '
    'spec/NumPy disagreement aborts the check as a machinery failure instead of blaming the code',
    'values are dyadic rationals of bounded size so that float arithmetic is exact and comparison is equality',
    'division by zero and column operands of shape (m,1) are outside the contract (Pre)',
]


def shape_of(universe, o):
    if o['k'] == 'ref':
        return 'ref:' + universe['names'].get(o['ref'], '?')
    t = o['t']
    n, m = universe['ncols'], universe['nrows']
    if t['nd'] == 0:
        s = '0d'
    elif t['nd'] == 1:
        ln = len(t['e'])
        s = '1d:' + ('1' if ln == 1 else 'n' if ln == n else 'other')
    else:
        r, c = len(t['e']), len(t['e'][0])
        s = '2d:%s,%s' % ('1' if r == 1 else 'm' if r == m else 'other', '1' if c == 1 else 'n' if c == n else 'other')
    return '%s:%s%s' % (o['k'], s, ':bool' if t['b'] else '')


def key_of(universe, step, clause):
    op, a = step['op'], step['a']
    kinds = universe['names']
    parts = [op]
    if 'f' in a:
        parts.append(a['f'])
    tgt = a.get('tgt', a.get('x'))
    parts.append(kinds.get(tgt, '?'))
    if 'ix' in a:
        parts.append('ix=' + a['ix']['k'])
    if 'o' in a:
        parts.append(shape_of(universe, a['o']) + (',self' if a['o'].get('k') == 'ref' and a['o'].get('ref') == tgt else ''))
    if op == 'red':
        parts.append('axis=%s,keep=%s' % (a['axis'], a['keep']))
    if op == 'mix_from':
        parts.append('n=%d,self=%d' % (len(a['srcs']), a['srcs'].count(a['tgt'])))
    return 'Sparse:%s:%s' % (':'.join(parts), clause.split('.')[0] + ('.' + clause.split('.')[1] if clause.startswith(('result', 'post')) else ''))


def too_big(st, lim=256):
    for t in st['objs'].values():
        if t['b']:
            continue
        rows = t['e'] if t['nd'] == 2 else [t['e']]
        for r in rows:
            for x in r:
                if abs(x[0]) > lim or x[1] > lim or x[1] == 0:
                    return True
    return False


def lit_too_big(a, lim=256):
    o = a.get('o')
    if not o or o['k'] == 'ref' or o['t']['b']:
        return False
    t = o['t']
    flat = [t['e']] if t['nd'] == 0 else t['e'] if t['nd'] == 1 else [x for r in t['e'] for x in r]
    return any(abs(x[0]) > lim or x[1] > lim for x in flat)


def run_steps(universe, states, rng, n_ops, prefix, values):
    traces = []
    for k, st in enumerate(states):
        steps = []
        for _ in range(n_ops):
            op, a = sd.random_op(universe, rng, values, state=st)
            w = sd.World(universe)
            w.set_state(st)
            obs = w.apply(op, a)
            post = w.project()
            if too_big(post):
                continue
            steps.append(dict(op=op, a=a, post=post, obs=obs))
        traces.append(dict(id='%s%d' % (prefix, k), mode='fan', init=st, steps=steps))
    return traces


def random_state(universe, rng, values):
    n, m = universe['ncols'], universe['nrows']

    def el(b):
        if b:
            return rng.random() < 0.4
        return sd.fr(rng.choice(values)) if rng.random() < 0.6 else [0, 1]
    objs = {}
    for name, kind in universe['names'].items():
        b = kind == 'lvec'
        if kind == 'arr':
            rows = [[el(b) for _ in range(n)] for _ in range(m)]
            if rng.random() < 0.3:
                rows[rng.randrange(m)] = [[0, 1]] * n          # an empty row
            objs[name] = dict(nd=2, b=b, e=rows)
        else:
            objs[name] = dict(nd=1, b=b, e=[el(b) for _ in range(n)])
    return dict(objs=objs, ro={name: False for name in objs})


def run_systematic(universe, rng, n_states, prefix, values, extra=20):
    """Random dense states; at each: every reduction x axis x keepdims and every unary op on every object,
    plus `extra` random operations."""
    traces = []
    for k in range(n_states):
        st = random_state(universe, rng, values)
        ops = []
        for name, kind in universe['names'].items():
            for f in ('any', 'all', 'sum', 'mean', 'max', 'min'):
                for axis in (sd.NONE, 'a0', 'a1'):
                    for keep in (False, True):
                        ops.append(('red', dict(x=name, f=f, axis=axis, keep=keep)))
            for f in (['invert', 'copy', 'to_array'] if kind == 'lvec' else ['neg', 'abs', 'copy', 'to_array']):
                ops.append(('un', dict(x=name, f=f)))
        ops += [sd.random_op(universe, rng, values) for _ in range(extra)]
        steps = []
        for op, a in ops:
            w = sd.World(universe)
            w.set_state(st)
            obs = w.apply(op, a)
            post = w.project()
            if too_big(post):
                continue
            steps.append(dict(op=op, a=a, post=post, obs=obs))
        traces.append(dict(id='%s%d' % (prefix, k), mode='fan', init=st, steps=steps))
    return traces


def run_random_traces(universe, rng, n, length, prefix, values):
    traces = []
    for k in range(n):
        w = sd.World(universe)
        init = w.project()
        steps = []
        for _ in range(length):
            snapshot = w.project()
            op, a = sd.random_op(universe, rng, values, state=snapshot)
            obs = w.apply(op, a)
            post = w.project()
            if too_big(post):
                # magnitudes leave what TLC's 32-bit integers can carry: end the trace before this step
                break
            steps.append(dict(op=op, a=a, post=post, obs=obs))
        traces.append(dict(id='%s%d' % (prefix, k), mode='seq', init=init, steps=steps))
    return traces


def run_paths(universe, paths, prefix):
    traces = []
    for k, path in enumerate(paths):
        w = sd.World(universe)
        init = w.project()
        steps = []
        for e in path:
            obs = w.apply(e['op'], e['a'])
            steps.append(dict(op=e['op'], a=e['a'], post=w.project(), obs=obs))
        traces.append(dict(id='%s%d' % (prefix, k), mode='seq', init=init, steps=steps))
    return traces


def judge(ctx, universe, traces, verdicts, stats):
    spec_bugs = []
    for t in traces:
        v = verdicts[t['id']]
        fails = list(v['stepfail'])
        ooc = set(v['stepooc'])
        if t['mode'] == 'seq':
            n_ok = v['l'] - 1 if v['code'] in ('rejected', 'ooc') else len(t['steps'])
            if v['code'] == 'rejected':
                fails.append((v['l'], v['clause']))
            if v['code'] == 'ooc':
                stats['traces_truncated_ooc'] += 1
        else:
            n_ok = len(t['steps'])
        for i, s in enumerate(t['steps'][:n_ok], 1):
            if i in ooc:
                stats['steps_ooc'] += 1
            else:
                stats['steps_in_contract'] += 1
                stats['ops'][s['op']] = stats['ops'].get(s['op'], 0) + 1
        for l, clause in fails:
            s = t['steps'][l - 1]
            if clause.startswith('SPEC_VS_NUMPY'):
                spec_bugs.append((clause, s['op'], s['a'], s['obs']['np'], s['obs']['npexc'], t['init'] if t['mode'] == 'fan' else None))
                continue
            pre = t['init'] if t['mode'] == 'fan' else (t['steps'][l - 2]['post'] if l > 1 else t['init'])
            ctx.violation(key_of(universe, s, clause),
                          '%s %r: %s (exc=%s res=%r)' % (s['op'], s['a'], clause, s['obs']['exc'], s['obs']['res']),
                          dict(kind='step', universe=universe, init=pre, steps=[dict(op=s['op'], a=s['a'])], clause=clause))
    if spec_bugs:
        raise tlc.MachineryError('specification disagrees with NumPy on %d steps, e.g. %r' % (len(spec_bugs), spec_bugs[:3]))


def run(ctx):
    rng = random.Random(ctx.seed)
    quick = ctx.quick
    stats = dict(steps_in_contract=0, steps_ooc=0, traces_truncated_ooc=0, ops={})
    # 1. model checking of the dense semantics + dump
    cfg, uname = ('MC_Sparse_vb2.cfg', 'vb2')
    uni = sd.UNIVERSES[uname]
    r, states = tlc.model_check('MC_Sparse.tla', cfg, dump=True, coverage=False, timeout=3000)
    if r.violated:
        ctx.violation('Sparse:MC:%s' % r.violated, 'specification violates %s' % r.violated,
                      dict(kind='mc', cfg=cfg, counterexample=r.counterexample()[:5000]))
    elif not r.ok:
        raise tlc.MachineryError('MC did not complete:\n' + r.out[-3000:])
    mc = [(cfg, r.distinct, r.generated, r.depth)]
    ctx.note('MC %s: %d distinct states, %d transitions, depth %d' % (cfg, r.distinct, r.generated, r.depth))
    witness = sorted((s['path'] for s in states if s.get('path')), key=repr)
    states = sorted(({k: s[k] for k in ('objs', 'ro')} for s in states), key=repr)
    all_traces = []
    # 2. STEP at dumped states
    sample = states if not quick else rng.sample(states, min(150, len(states)))
    all_traces.append((uni, run_steps(uni, sample, rng, 40 if quick else 120, 'S', sd.VALUES)))
    # witness paths (history-reached states)
    wsample = witness if not quick else rng.sample(witness, min(150, len(witness)))
    all_traces.append((uni, run_paths(uni, wsample, 'W')))
    if not quick:
        for cfg2, un2 in (('MC_Sparse_vbA2.cfg', 'vbA2'),):
            r2, st2 = tlc.model_check('MC_Sparse.tla', cfg2, dump=True, coverage=False, timeout=6000)
            if r2.violated:
                ctx.violation('Sparse:MC:%s' % r2.violated, 'specification violates %s' % r2.violated,
                              dict(kind='mc', cfg=cfg2, counterexample=r2.counterexample()[:5000]))
            mc.append((cfg2, r2.distinct, r2.generated, r2.depth))
            ctx.note('MC %s: %d distinct states, %d transitions' % (cfg2, r2.distinct, r2.generated))
            u2 = sd.UNIVERSES[un2]
            st2 = sorted(({k: s[k] for k in ('objs', 'ro')} for s in st2), key=repr)
            all_traces.append((u2, run_steps(u2, rng.sample(st2, min(3000, len(st2))), rng, 60, 'A', sd.VALUES)))
    # 3. SIM: random histories on the 3 x 6 universe with the richer value set
    big = sd.UNIVERSES['big']
    all_traces.append((big, run_random_traces(big, rng, 120 if quick else 3000, 30, 'R', sd.BIGVALUES)))
    mid = sd.UNIVERSES['vwbA3']
    negvals = sd.VALUES + [sd.Fraction(-2), sd.Fraction(-1, 2), sd.Fraction(3)]
    all_traces.append((mid, run_systematic(mid, rng, 25 if quick else 600, 'Y', negvals)))
    all_traces.append((big, run_systematic(big, rng, 10 if quick else 300, 'Z', sd.BIGVALUES)))
    all_traces.append((mid, run_random_traces(mid, rng, 120 if quick else 3000, 30, 'Q', sd.VALUES)))
    # 4. TLC validates every recorded step
    n_tr = 0
    sample_out = []
    for u, traces in all_traces:
        defs, cfgc = sd.tla_constants(u)
        v = tlc.validate_traces('Sparse', defs, cfgc, traces, procs=16)
        judge(ctx, u, traces, v, stats)
        n_tr += len(traces)
        if traces and traces[0]['steps']:
            sample_out.append(dict(mode=traces[0]['mode'], ops=[[s['op'], s['a']] for s in traces[0]['steps'][:4]]))
    cov = dict(states=sum(m[1] for m in mc), transitions=sum(m[2] for m in mc), model_runs=[list(m) for m in mc],
               traces_validated_against_impl=n_tr,
               steps_validated_in_contract=stats['steps_in_contract'],
               steps_out_of_contract_ignored=stats['steps_ooc'],
               traces_truncated_out_of_contract=stats['traces_truncated_ooc'],
               per_operation_in_contract_steps=stats['ops'],
               exhaustive=False, mc_exhaustive_for_cfg=True, samples=sample_out[:4],
               rule='MC: all sequences of in-place/set-item operations over the alphabet for size-2 objects (complete graph); '
                    'STEP: random mutating and pure operations at TLC-dumped states; SIM: random histories of 30 operations on '
                    'objects up to 3x6; every step judged by TLC against the dense semantics and the representation clause')
    return 'model_checking', cov, ASSUME


def replay(ctx, data):
    rp = data.get('replay') or {}
    if rp.get('kind') != 'step':
        print(rp.get('counterexample', '# nothing executable'))
        return 1
    uni = rp['universe']
    w = sd.World(uni)
    w.set_state(rp['init'])
    steps = []
    for s in rp['steps']:
        obs = w.apply(s['op'], s['a'])
        steps.append(dict(op=s['op'], a=s['a'], post=w.project(), obs=obs))
        print('# %s %r\n#   -> exc=%s res=%r numpy=%r' % (s['op'], s['a'], obs['exc'], obs['res'], obs['np']))
    defs, cfgc = sd.tla_constants(uni)
    v = tlc.validate_traces('Sparse', defs, cfgc, [dict(id='R0', mode='seq', init=rp['init'], steps=steps)], procs=1)['R0']
    print('# verdict: %r' % (v,))
    if v['code'] == 'rejected':
        print('VIOLATION property=C09 replay=%s' % data.get('_path', ''))
        return 1
    return 0
