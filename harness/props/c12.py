"""C12 - changing how a stream represents phases never changes what it contains."""
from harness.props import streams_common as sc

FOCUS = ['set_phases', 'set_phase', 'reduce_phases', 'as_stream', 'get_eq', 'view_read', 'view_write', 'view_set_T', 'save', 'restore']
SHAPING = ['set_flow', 'set_flow', 'set_T', 'empty']
MC = dict(names=2, ops='c_OpsC12', phasesets='c_PhaseSets12', depth='Depth6', depth_quick='Depth4',
          props=['RepresentationKeepsContents'])


def view_paths(rng, n):
    """Directed schedules for the live-view clause: obtain a phase view, change the representation, then write /
    read through the old view and through the parent."""
    from harness.drivers import streams as ds
    out = []
    for _ in range(n):
        x = rng.choice(['a', 'b', 'c'])
        phs = sorted(rng.sample(ds.ALLPH, rng.randint(2, 4)))
        p = rng.choice(phs)
        ops = [('set_phases', dict(x=x, phs=phs)), ('set_flow', dict(x=x, p=p, c=1, v=8)),
               ('view_read', dict(x=x, p=p)), ('view_write', dict(x=x, p=p, c=2, v=4))]
        kind = rng.choice(['same', 'more', 'other', 'save_restore', 'save_restore_phases', 'get_eq', 'reduce'])
        phs2 = phs
        if kind == 'same':
            ops.append(('set_phases', dict(x=x, phs=phs)))
        elif kind == 'more':
            phs2 = sorted(set(phs) | {rng.choice(ds.ALLPH)})
            ops.append(('set_phases', dict(x=x, phs=phs2)))
        elif kind == 'other':
            phs2 = sorted(set(rng.sample(ds.ALLPH, rng.randint(2, 4))) | {p})
            ops.append(('set_phases', dict(x=x, phs=phs2)))
        elif kind == 'save_restore':
            ops += [('save', dict(x=x)), ('set_flow', dict(x=x, p=p, c=1, v=12)), ('restore', dict(x=x))]
        elif kind == 'save_restore_phases':
            # restore a snapshot onto a stream whose material has since moved to phases the snapshot does not have
            q = rng.choice([z for z in ds.ALLPH if z.lower() not in [y.lower() for y in phs]] or [p])
            how = rng.choice(['single', 'multi'])
            ops.append(('save', dict(x=x)))
            if how == 'single':
                ops += [('empty', dict(x=x)), ('set_phases', dict(x=x, phs=[q])), ('set_flow', dict(x=x, p=q, c=1, v=12))]
            else:
                phs3 = sorted({q, rng.choice(ds.ALLPH)})
                ops += [('empty', dict(x=x)), ('set_phases', dict(x=x, phs=phs3)), ('set_flow', dict(x=x, p=q, c=2, v=8))]
            ops.append(('restore', dict(x=x)))
        elif kind == 'get_eq':
            ops.append(('get_eq', dict(x=x, kind=rng.choice(['vle', 'lle', 'sle']))))
        else:
            q = rng.choice(phs)
            ops += [('set_flow', dict(x=x, p=q, c=2, v=4)), ('reduce_phases', dict(x=x))]
        ops += [('view_read', dict(x=x, p=p)), ('set_flow', dict(x=x, p=p, c=1, v=16)), ('view_read', dict(x=x, p=p)),
                ('view_write', dict(x=x, p=p, c=2, v=20)), ('view_read', dict(x=x, p=p)), ('view_set_T', dict(x=x, p=p, T=350)),
                ('view_read', dict(x=x, p=p))]
        out.append([dict(op=o, a=a) for o, a in ops])
    return out


def run(ctx):
    return sc.run(ctx, 'C12', MC, FOCUS, SHAPING, extra_paths=view_paths)


def replay(ctx, data):
    return sc.replay(ctx, data, 'C12')
