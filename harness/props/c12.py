"""C12 - changing how a stream represents phases never changes what it contains."""
from harness.props import streams_common as sc

FOCUS = ['set_phases', 'set_phase', 'reduce_phases', 'as_stream', 'get_eq', 'view_read', 'view_write', 'view_set_T', 'save', 'restore']
SHAPING = ['set_flow', 'set_flow', 'set_T', 'empty']
MC = dict(names=2, ops='c_OpsC12', phasesets='c_PhaseSets12', depth='Depth6', depth_quick='Depth4',
          props=['RepresentationKeepsContents'])


def run(ctx):
    return sc.run(ctx, 'C12', MC, FOCUS, SHAPING)


def replay(ctx, data):
    return sc.replay(ctx, data, 'C12')
