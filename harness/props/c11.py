"""C11 - molar, mass and volumetric views and unit conversions of a stream always agree."""
import random

from harness import tlc
from harness.drivers import streams as ds
from harness.props import streams_common as sc

FOCUS = ['vget', 'vget', 'vset', 'tget', 'tset', 'uget', 'uset', 'ubad', 'measured']
SHAPING = ['set_flow', 'set_flow', 'set_T', 'set_P', 'set_phase', 'set_phases', 'link_with', 'unlink', 'copy_like', 'reset_thermo',
           'mix_from', 'proxy', 'flow_proxy', 'scale', 'restore', 'save', 'get_eq']
MC = dict(names=2, ops='c_OpsC12', phasesets='c_PhaseSets12', depth='Depth5', depth_quick='Depth4')


def view_paths(rng, n):
    """Directed schedules: read a view, change T / P / phase / phases / links / package, read it again (and write)."""
    out = []
    for _ in range(n):
        x, y = rng.sample(['a', 'b'], 2)
        multi = rng.random() < 0.4
        c = rng.randint(1, 2)
        ph = 'l'
        ops = [('construct', dict(x=x, k='m' if multi else 's', price=0, cf=0)), ('set_flow', dict(x=x, p='l', c=1, v=8)),
               ('set_flow', dict(x=x, p='l', c=2, v=4))]
        views = [rng.choice(['mass', 'vol', 'vol']) for _ in range(2)]
        reads = lambda p: [('vget', dict(x=x, p=p, c=c, view=v, how=rng.choice(['indexer', 'array']))) for v in views] + \
            [('tget', dict(x=x, which=rng.choice(['F_mass', 'F_vol']))), ('uget', dict(x=x, p=p, c=c, units=rng.choice(sorted(ds.World.UNITS))))]
        ops += reads(ph)
        kind = rng.choice(['T', 'P', 'phase', 'phases', 'link', 'copy_like', 'thermo', 'TP_back', 'copy', 'copy'])
        if kind == 'T':
            ops.append(('set_T', dict(x=x, T=350)))
        elif kind == 'P':
            ops.append(('set_P', dict(x=x, P=200)))
        elif kind == 'TP_back':
            ops += [('set_T', dict(x=x, T=350))] + reads(ph) + [('set_T', dict(x=x, T=300))]
        elif kind == 'phase' and not multi:
            ops.append(('set_phase', dict(x=x, p='g')))
            ph = 'g'
        elif kind == 'phases':
            ops.append(('set_phases', dict(x=x, phs=sorted({'g', 'l', rng.choice(ds.ALLPH)}))))
        elif kind == 'link' and not multi:
            yph = rng.choice(['l', 'g'])
            linkphase = rng.random() < 0.5
            ops += [('construct', dict(x=y, k='s', price=0, cf=0)), ('set_flow', dict(x=y, p='l', c=1, v=12)), ('set_flow', dict(x=y, p='l', c=2, v=8)),
                    ('set_phase', dict(x=y, p=yph)), ('set_T', dict(x=y, T=350)),
                    ('unlink', dict(x=x)), ('link_with', dict(d=x, x=y, flow=True, phase=linkphase, TP=True))]
            # the views of the two linked streams, read alternately (their phases may differ)
            xph = yph if linkphase else 'l'
            for _ in range(2):
                ops += [('vget', dict(x=y, p=yph, c=c, view='vol', how='indexer')), ('vget', dict(x=x, p=xph, c=c, view='vol', how='indexer')),
                        ('tget', dict(x=y, which='F_vol')), ('tget', dict(x=x, which='F_vol'))]
            ph = xph
        elif kind == 'copy_like':
            ops += [('construct', dict(x=y, k='s', price=0, cf=0)), ('set_flow', dict(x=y, p='l', c=1, v=12)), ('set_phase', dict(x=y, p='g')),
                    ('set_T', dict(x=y, T=350)), ('copy_like', dict(d=x, x=y))]
            if not multi:
                ph = 'g'
        elif kind == 'copy':
            # a copy (or a pickled copy) made after the views of the original exist: the two must not share them
            ops.append((rng.choice(['copy', 'copy', 'pickle']), dict(d=y, x=x)))
            ops.append(('set_flow', dict(x=rng.choice([x, y]), p='l', c=c, v=20)))
            for n in (y, x, y):
                ops += [('vget', dict(x=n, p='l', c=c, view=v, how=rng.choice(['indexer', 'array']))) for v in views]
                ops.append(('tget', dict(x=n, which=rng.choice(['F_mass', 'F_vol']))))
            ops.append(('vset', dict(x=y, p='l', c=c, view=views[0], v=24, how='indexer')))
            ops += [('vget', dict(x=n, p='l', c=c, view=views[0], how='indexer')) for n in (x, y)]
        elif kind == 'thermo':
            ops.append(('reset_thermo', dict(x=x, pkg='P2')))
        if multi and kind == 'copy_like':
            ph = 'g'
        ops += reads(ph)
        ops += [('ubad', dict(x=x, units=u, view=v, how=h)) for u, v, h in (('kmol/hr', 'mass', 'view_get'), ('L/min', 'mass', 'get_property'), ('lb/hr', 'mol', 'view_get'))]
        ops += [('vset', dict(x=x, p=ph, c=c, view=views[0], v=12, how='indexer'))] + reads(ph)
        ops += [('uset', dict(x=x, p=ph, c=c, units=rng.choice(sorted(ds.World.UNITS)), v=16))] + reads(ph)
        ops += [('tset', dict(x=x, which=rng.choice(['F_mol', 'F_mass', 'F_vol']), q=[1, 2]))] + reads(ph)
        # last step: a call whose result leaves the integer model (measured read-back)
        if rng.random() < 0.25:
            ops.append(('measured', dict(x=x, what='construct_total', k=rng.choice(['s', 'm']), units=rng.choice(['kmol/hr', 'kg/hr', 'lb/hr', 'g/min', 'mol/s']), v=rng.choice([10, 3]))))
        elif not multi and rng.random() < 0.5:
            u3 = rng.random()
            if u3 < 0.3:
                # the molar flows are overwritten as a whole with another stream's flow vector (a sparse vector) after views exist
                z = 'b' if x == 'a' else 'a'          # (a and b share one property package)
                ops += [('construct', dict(x=z, k='s', price=0, cf=0)), ('set_flow', dict(x=z, p='l', c=1, v=12)), ('set_flow', dict(x=z, p='l', c=2, v=4)),
                        ('measured', dict(x=z, y=x, what='mol_bulk', view=rng.choice(['mass', 'vol'])))]
            elif u3 < 0.65:
                ops += [('construct', dict(x='c', k='s', price=0, cf=0)), ('set_flow', dict(x='c', p='l', c=1, v=12)), ('set_flow', dict(x='c', p='l', c=2, v=4)),
                        ('measured', dict(x='c', y=x, what='view_copy', view=rng.choice(['mass', 'mass', 'vol']), via=rng.choice(['attr', 'indexer'])))]
            else:
                ops.append(('measured', dict(x=x, what='reset_flow', p=rng.choice(['g', 'l']), units=rng.choice(['m3/hr', 'L/min', 'gal/min', 'kg/hr']), v=rng.choice([3, 40]))))
        out.append([dict(op=o, a=a) for o, a in ops])
    return out


def run(ctx):
    # design level: the molar-volume memo of the volumetric view, as implemented (and the original protocol as vacuity guard)
    r, _ = tlc.model_check('ViewCache.tla', 'MC_ViewCache.cfg', coverage=False, timeout=600)
    if r.violated:
        ctx.violation('ViewCache:MC:%s' % r.violated, 'volumetric view memo model violates %s' % r.violated,
                      dict(kind='mc', counterexample=r.counterexample()[:4000]))
    elif not r.ok:
        raise tlc.MachineryError(r.out[-2000:])
    rd, _ = tlc.model_check('ViewCache.tla', 'MC_ViewCache_dev.cfg', coverage=False, timeout=600)
    if rd.violated != 'VolFresh':
        raise tlc.MachineryError('the original (phase-less) memo should violate VolFresh (vacuity guard): %r' % rd.violated)
    ctx.note('MC ViewCache: %d states, %d transitions; phase-less memo violates VolFresh as expected' % (r.distinct, r.generated))
    level, cov, assume = sc.run(ctx, 'C11', MC, FOCUS, SHAPING, extra_paths=view_paths)
    cov['viewcache_model'] = dict(states=r.distinct, transitions=r.generated,
                                  vacuity_guard='ViewCache with Deviations={"ignores_phase"} violates VolFresh')
    assume = assume + ['expected mass / volume = mol x MW / molar volume evaluated from the chemical\'s own models at the stream\'s current '
                       'phase, T, P; unit factors from an independent table; tolerance 1e-9 relative']
    return level, cov, assume


def replay(ctx, data):
    return sc.replay(ctx, data, 'C11')
