"""C06 - heat of reaction and adiabatic reaction close the energy balance."""
import random

from harness import par, tlc
from harness.drivers import reactenergy as dr

ASSUME = [
    'TLC 1.8 evaluates the specification correctly',
    'synthetic chemicals (Chemical.blank + add_method: integer Hf, Hvap, Hfus, MW, one constant heat capacity in every phase, reference phases '
    'g, g, l, g, s) go through the library\'s own _init_energies, functors, mixture and CompiledChemicals.Hf; enthalpies are compared in fixed point '
    '(1e-2 kJ/hr, temperature 1e-2 K)',
    'the literal clause "isothermal change of Hnet = dH x reactant fed" is judged where the library defines dH: at 298.15 K with every participant in '
    'its tagged (phase-tagged reaction) or reference (phase-less reaction) phase; elsewhere the same ledger is checked with the reaction heat at the '
    'stream\'s own temperature and phases; real database chemicals (temperature-dependent Hvap) are not exercised',
    'infeasible conversions (negative flows) are C05\'s subject and out of contract here; reaction systems are flat (their members are single reactions)',
]


OWNED_BY_C05 = {'negative_flow_not_rejected'}


def key_of(step, clause, pre):
    rs = pre['rs'] if step['op'] != 'load' else step['a']['set']
    tagged = bool(rs['items'] and rs['items'][0]['tag'])
    return 'ReactEnergy:%s:%s,%s,%s,%s:%s' % (step['op'], rs['kind'], rs['basis'], 'tagged' if tagged else 'phase-less', pre['kind'] if len(pre['kind']) == 1 else 'multi', clause)


def history(seed, k, n_steps):
    rng = random.Random(seed)
    w = dr.World()
    init = w.project()
    steps = []

    def do(op, a):
        obs = w.apply(op, a)
        steps.append(dict(op=op, a=a, post=w.project(), obs=obs))
    st = None
    reacted = 0

    def small(w):
        # exact rationals stay small (TLC integers are 32-bit): a second reaction on the same feed only while denominators are <= 8
        return all(x[1] <= 8 for row in w.project()['m'].values() for x in row)
    for _ in range(n_steps):
        u = rng.random()
        if st is None or u < 0.15:
            st = dr.random_set(rng)
            do('load', dict(set=st))
            do('set_feed', dr.random_feed(rng, st, ref_T=rng.random() < 0.4))
            reacted = 0
        elif u < 0.3:
            do('set_feed', dr.random_feed(rng, st, ref_T=rng.random() < 0.4))
            reacted = 0
        elif u < 0.34:
            do('set_Hf', dict(i=rng.randrange(len(dr.IDS)) + 1, v=rng.choice([-100, 0, -300, 40, -250])))
        elif u < 0.38:
            j = rng.randrange(len(st['items'])) + 1
            held = rng.random() < 0.7
            if rng.random() < 0.7:
                do('dH', dict(j=j, held=held))           # the member's heat of reaction is looked at, its conversion changed, looked at again
            do('set_X', dict(j=j, X=dr.q(rng.choice([dr.F(1, 2), dr.F(1), dr.F(0), dr.F(1, 4), dr.F(3, 4)])), via=rng.choice(['item', 'set', 'held'])))
            do('dH', dict(j=j, held=held))
        elif u < 0.5:
            do('dH', dict(j=rng.randrange(len(st['items'])) + 1, held=rng.random() < 0.6))
        elif reacted >= (2 if small(w) else 1):
            do('set_feed', dr.random_feed(rng, st, ref_T=rng.random() < 0.4))
            reacted = 0
        elif u < 0.75:
            do('react', dict(x=0))
            reacted += 1
        else:
            do('adiabatic', dict(Q=rng.choice([0, 0, 50, -20, 500, 7])))
            reacted += 1
    return dict(id='R%d' % k, mode='seq', init=init, steps=steps)


def judge_traces(ctx, traces):
    """TLC judges the recorded histories; violations are reported by the check that owns the failing clause."""
    defs, cfgc = dr.tla_constants()
    stats = dict(ok=0, ooc=0, ops={}, literal=0, infeasible_refused=0)
    todo, n_traces = traces, 0
    while todo:
        v = tlc.validate_traces('ReactEnergy', defs, cfgc, todo, procs=16)
        n_traces += len(todo)
        nxt = []
        for t in todo:
            x = v[t['id']]
            n_ok = x['l'] - 1 if x['code'] in ('rejected', 'ooc') else len(t['steps'])
            ooc = set(x['stepooc'])
            for i, s in enumerate(t['steps'][:n_ok], 1):
                if i in ooc:
                    stats['ooc'] += 1
                else:
                    stats['ok'] += 1
                    stats['ops'][s['op']] = stats['ops'].get(s['op'], 0) + 1
            if x['code'] == 'rejected':
                s = t['steps'][x['l'] - 1]
                pre = t['steps'][x['l'] - 2]['post'] if x['l'] > 1 else t['init']
                if (x['clause'] in OWNED_BY_C05) != (ctx.prop == 'C05'):
                    stats['other_property'] = stats.get('other_property', 0) + 1       # reported by the sibling check
                    if t['steps'][x['l']:]:
                        nxt.append(dict(id=t['id'] + 'c', mode='seq', init=s['post'], steps=t['steps'][x['l']:]))
                    continue
                ctx.violation(key_of(s, x['clause'], pre), '%s %r: %s pre=%r post=%r obs=%r' % (s['op'], s['a'], x['clause'], pre, s['post'], s['obs']),
                              dict(kind='seq', init=t['init'], steps=[dict(op=z['op'], a=z['a']) for z in t['steps'][:x['l']]], clause=x['clause']))      # the whole history (objects keep state)
                if t['steps'][x['l']:]:
                    nxt.append(dict(id=t['id'] + 'c', mode='seq', init=s['post'], steps=t['steps'][x['l']:]))
        todo = nxt
    stats['n_traces'] = n_traces
    return stats


def tagged_feasibility(ctx):
    """C05 on phase-tagged (and phase-less) reactions applied to single- and multi-phase streams: a conversion that would make a flow
    negative in the phase the reaction names must raise.  Same generator and specification as C06; only the clause C05 owns is reported."""
    quick = ctx.quick
    traces = par.pmap(history, [('%d:f%d' % (ctx.seed, k), k, 14) for k in range(150 if quick else 3000)])
    stats = judge_traces(ctx, traces)
    n = 0
    for t in traces:
        for s in t['steps']:
            if s['op'] == 'react' and s['obs']['exc'] != 'none':
                n += 1
    return dict(histories=len(traces), reactions_refused=n, steps_judged=stats['ok'])


def run(ctx):
    rng = random.Random(ctx.seed)
    quick = ctx.quick
    r, _ = tlc.model_check('MC_ReactEnergy.tla', 'MC_ReactEnergy.cfg', coverage=False, timeout=3000)
    if r.violated:
        ctx.violation('ReactEnergy:MC:%s' % r.violated, 'model violates %s' % r.violated, dict(kind='mc', counterexample=r.counterexample()[:5000]))
    elif not r.ok:
        raise tlc.MachineryError(r.out[-3000:])
    ctx.note('MC ReactEnergy: %d distinct states, %d transitions' % (r.distinct, r.generated))
    traces = par.pmap(history, [('%d:%d' % (ctx.seed, k), k, 14) for k in range(150 if quick else 4000)])
    stats = judge_traces(ctx, traces)
    n_traces = stats['n_traces']
    cov = dict(states=r.distinct, transitions=r.generated, traces_validated_against_impl=n_traces,
               steps_validated_in_contract=stats['ok'], steps_out_of_contract_ignored=stats['ooc'], per_operation_in_contract_steps=stats['ops'],
               exhaustive=False, mc_exhaustive_for_cfg=True,
               samples=[dict(ops=[[s['op'], s['a']] for s in traces[0]['steps'][:3]])],
               rule='MC: every single / parallel / series / system set of two library reactions (4 chemicals, mol and wt basis, phase-less and 4 tag vectors, X in {1/2, 1}) '
                    'on 4 feeds, followed by up to two of react / adiabatic(Q) / re-heating: enthalpy ledger, definition of dH vs. change of Hnet, adiabatic balance, '
                    'basis consistency. Real objects: random sets over 6 mass-balanced reactions of 5 synthetic chemicals (all three reference phases), single- and '
                    'multi-phase streams at 283-400 K, dH queries, isothermal and adiabatic reactions with heat input; every step judged by TLC')
    return 'model_checking', cov, ASSUME


def replay(ctx, data):
    rp = data.get('replay') or {}
    if rp.get('kind') != 'seq':
        print(rp.get('counterexample', '# nothing executable'))
        return 1
    w = dr.World()
    pre = rp['init']
    w.apply('load', dict(set=pre['rs'])) if pre['rs']['kind'] != 'none' else None
    for i, v in enumerate(pre['hf'], 1):
        w.apply('set_Hf', dict(i=i, v=v))
    w.apply('set_feed', dict(kind=pre['kind'], m=pre['m'], d3=pre['d3'], multi=bool(pre['rs']['items'] and pre['rs']['items'][0]['tag'])))
    init = w.project()
    steps = []
    for s in rp['steps']:
        obs = w.apply(s['op'], s['a'])
        steps.append(dict(op=s['op'], a=s['a'], post=w.project(), obs=obs))
        print('# %s %r -> %r' % (s['op'], s['a'], obs))
    defs, cfgc = dr.tla_constants()
    v = tlc.validate_traces('ReactEnergy', defs, cfgc, [dict(id='R0', mode='seq', init=init, steps=steps)], procs=1)['R0']
    print('# verdict: %r' % (v,))
    if v['code'] == 'rejected':
        print('VIOLATION property=%s replay=%s' % (ctx.prop, data.get('_path', '')))
        return 1
    return 0
