"""C19 - simulation order derived from a flowsheet is complete and follows material flow."""
import itertools
import random
import re

from harness import tlc
from harness.drivers import netorder as dn

ASSUME = [
    'TLC 1.8 evaluates the specification correctly',
    '"common recycle loop" is read as "same strongly connected component of the unit graph" (the weakest reading of the statement)',
    'flowsheets: every unit without inlet gets a feed stream and every unit without outlet a product stream; every unit reaches a product',
]


U5 = ['u1', 'u2', 'u3', 'u4', 'u5']
U4 = U5[:4]
DIRECTED = {
    # overlapping recycle loops with a feed of their own (the recorded finding: half of the unit orders raise)
    'overlapping_loops_own_feed': (U5, [('u1', 'u2'), ('u1', 'u3'), ('u2', 'u4'), ('u3', 'u5'), ('u4', 'u5'), ('u4', 'u2'), ('u5', 'u4')], {'u1': 1, 'u5': 1}, {'u5': 1}),
    # a recycle loop entered only through its own external feed, next to an ordinary feed unit
    'loop_behind_own_feed': (U4, [('u1', 'u4'), ('u2', 'u3'), ('u3', 'u4'), ('u3', 'u2')], {'u1': 1, 'u2': 1}, {'u4': 1}),
    # the whole flowsheet is one loop of two units
    'two_unit_loop': (U4[:2], [('u1', 'u2'), ('u2', 'u1')], {'u1': 1}, {'u2': 1}),
    # three outlets whose second and third branches re-join
    'three_outlets_rejoin': (U5, [('u1', 'u2'), ('u1', 'u3'), ('u1', 'u4'), ('u3', 'u5'), ('u4', 'u5'), ('u5', 'u2')], {'u1': 1}, {'u2': 1}),
}


def key_of(trace, step, clause):
    cyc = 'cyclic' if trace['cyclic'] else 'acyclic'
    return 'NetworkOrder:%s:n=%d:%s:%s' % (cyc, len(trace['units']), step['op'], clause)


def is_cyclic(units, edges):
    succ = {u: [v for w, v in edges if w == u] for u in units}
    color = {}

    def visit(u):
        color[u] = 1
        for v in succ[u]:
            if color.get(v) == 1 or (v not in color and visit(v)):
                return True
        color[u] = 2
        return False
    return any(u not in color and visit(u) for u in units)


def run(ctx):
    rng = random.Random(ctx.seed)
    quick = ctx.quick
    cfg = 'MC_NetworkOrder3.cfg' if quick else 'MC_NetworkOrder4.cfg'
    r, states = tlc.model_check('MC_NetworkOrder.tla', cfg, dump=True, coverage=False, timeout=3000)
    if r.violated:
        ctx.violation('NetworkOrder:MC:%s' % r.violated, 'scheduler model violates %s' % r.violated, dict(kind='mc', counterexample=r.counterexample()[:5000]))
    elif not r.ok:
        raise tlc.MachineryError(r.out[-3000:])
    ctx.note('MC %s: %d distinct states, %d transitions' % (cfg, r.distinct, r.generated))
    n_units = 3 if quick else 4
    units = ['u%d' % i for i in range(1, n_units + 1)]
    graphs = sorted({tuple(tuple(e) for e in s['edges']) for s in states if not s['emitted'] and not s['done']})
    traces = []
    skipped = 0
    # every flowsheet TLC enumerated (DAG + <= 2 back-edges), every permutation of the unit list
    for g in graphs:
        edges = [tuple(e) for e in g]
        if not dn.connected(units, edges):
            continue
        feeds, products = dn.complete(units, edges)
        if not dn.reaches_product(units, edges, products):
            skipped += 1
            continue
        perms = list(itertools.permutations(units))
        if not quick and len(perms) > 24:
            perms = rng.sample(perms, 24)
        for order in perms:
            rec = dn.record(units, edges, feeds, products, list(order))
            traces.append(dict(id='G%d' % len(traces), units=units, edges=edges, order=list(order), cyclic=is_cyclic(units, edges), **rec))
    # random connected flowsheets of 5-10 units with 0-3 back-edges
    for k in range(350 if quick else 3000):
        n = rng.randint(5, 10)
        us, edges, feeds, products = dn.random_flowsheet(rng, n, rng.choice([0, 0, 1, 2, 3]))
        for _ in range(4 if quick else 8):
            order = list(us)
            rng.shuffle(order)
            ports = rng.choice([None, rng.randrange(10 ** 6)])
            rec = dn.record(us, edges, feeds, products, order, ports)
            traces.append(dict(id='R%d' % len(traces), units=us, edges=edges, order=order, cyclic=is_cyclic(us, edges), feeds=feeds, products=products, ports=ports, **rec))
    # directed flowsheets, every permutation of the unit list
    for name, (us, edges, feeds, products) in sorted(DIRECTED.items()):
        full = lambda d: {u: d.get(u, 0) for u in us}
        for order in itertools.permutations(us):
            rec = dn.record(us, edges, full(feeds), full(products), list(order))
            traces.append(dict(id='D%d' % len(traces), units=us, edges=edges, order=list(order), cyclic=is_cyclic(us, edges), feeds=full(feeds), products=full(products), **rec))
    stats = dict(steps=0, acyclic=0, cyclic=0, errors=0)
    by_units = {}
    for t in traces:
        if t['error']:
            stats['errors'] += 1
            slug = re.sub(r'[^A-Za-z]+', '_', t['error'])[:60].strip('_')
            back = sum(1 for u, v in t['edges'] if t['units'].index(u) >= t['units'].index(v))
            ctx.violation('NetworkOrder:%s,back=%d:from_units:exception:%s' % ('cyclic' if t['cyclic'] else 'acyclic', back, slug),
                          'Network.from_units raised %s' % t['error'],
                          dict(kind='trace', units=t['units'], edges=t['edges'], order=t['order'], feeds=t.get('feeds'), products=t.get('products'), ports=t.get('ports')))
            continue
        by_units.setdefault(tuple(t['units']), []).append(t)
    n_tr = 0
    for us, ts in by_units.items():
        defs, cfgc = dn.tla_constants(list(us))
        v = tlc.validate_traces('NetworkOrder', defs, cfgc, [dict(id=t['id'], mode='seq', init=t['init'], steps=t['steps']) for t in ts], procs=8)
        for t in ts:
            x = v[t['id']]
            n_tr += 1
            stats['cyclic' if t['cyclic'] else 'acyclic'] += 1
            stats['steps'] += len(t['steps'])
            if x['code'] == 'rejected':
                s = t['steps'][x['l'] - 1]
                ctx.violation(key_of(t, s, x['clause']), 'units %r edges %r order %r: step %d %s %r: %s' % (t['units'], t['edges'], t['order'], x['l'], s['op'], s['a'], x['clause']),
                              dict(kind='trace', units=t['units'], edges=t['edges'], order=t['order'], feeds=t.get('feeds'), products=t.get('products'), ports=t.get('ports'), clause=x['clause']))
    cov = dict(states=r.distinct, transitions=r.generated, depth=r.depth, traces_validated_against_impl=n_tr,
               flowsheets_enumerated_by_tlc=len(graphs), flowsheets_skipped_unit_cannot_reach_product=skipped,
               acyclic_traces=stats['acyclic'], cyclic_traces=stats['cyclic'], steps_validated=stats['steps'],
               exhaustive=False, mc_exhaustive_for_cfg=True,
               samples=[dict(units=traces[-1]['units'], edges=traces[-1]['edges'], order=traces[-1]['order'],
                             path=[s['a'] for s in traces[-1]['steps']])],
               rule='MC: the nondeterministic scheduler on every DAG over %d units plus up to 2 back-edges never gets stuck and emits linear extensions modulo loops; '
                    'every such flowsheet is built from real units and Network.from_units is run for every permutation of the unit list; random connected '
                    'flowsheets of 5-10 units with 0-3 back-edges, several permutations each; TLC validates each path as a behaviour of the scheduler' % n_units)
    return 'model_checking', cov, ASSUME


def replay(ctx, data):
    rp = data.get('replay') or {}
    if rp.get('kind') != 'trace':
        print(rp.get('counterexample', '# nothing executable'))
        return 1
    units, edges = rp['units'], [tuple(e) for e in rp['edges']]
    feeds, products = dn.complete(units, edges)
    if rp.get('feeds'):
        feeds, products = rp['feeds'], rp['products']
    rec = dn.record(units, edges, feeds, products, rp['order'], rp.get('ports'))
    print('# path: %r' % [s['a'] for s in rec['steps']], rec['error'])
    if rec['error']:
        print('VIOLATION property=C19 replay=')
        return 1
    defs, cfgc = dn.tla_constants(units)
    v = tlc.validate_traces('NetworkOrder', defs, cfgc, [dict(id='R0', mode='seq', init=rec['init'], steps=rec['steps'])], procs=1)['R0']
    print('# verdict: %r' % (v,))
    if v['code'] == 'rejected':
        print('VIOLATION property=C19 replay=')
        return 1
    return 0
