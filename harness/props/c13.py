"""C13 - copies are independent, links share what they advertise, pickles round-trip."""
from harness.props import streams_common as sc

FOCUS = ['construct', 'copy', 'pickle', 'pickle', 'copy_like', 'proxy', 'flow_proxy', 'link_with', 'unlink', 'flash_TP', 'pickle_obj']
SHAPING = ['set_flow', 'set_flow', 'set_T', 'set_P', 'set_phase', 'set_phases', 'empty', 'scale', 'reset_thermo']
MC = dict(names=3, ops='c_OpsC13', phasesets='c_PhaseSets', depth='Depth5', depth_quick='Depth4',
          props=['IndependentUntouched'])


def link_paths(rng, n):
    """Directed schedules on universe mc3: what a link advertises is shared, the rest is not - also for cached views and for the
    equilibrium solver objects.
    (1) a view of the target is read, the target is linked with only SOME of flow / phase / thermal condition, the source changes the
        shared part, the view is read again (C11's reading operations are judged here too);
    (2) two multi-phase streams share their thermal condition (link or proxy), one is unlinked and then flashed: the other one stays."""
    out = []
    for k in range(n):
        a, b = rng.sample(['a', 'b'], 2)
        if k % 2:
            flags = rng.choice([(False, True, False), (False, True, True), (True, False, False), (False, False, True), (True, True, False), (True, False, True), (True, False, True)])
            ops = [('construct', dict(x=a, k='s', price=0, cf=0)), ('construct', dict(x=b, k='s', price=0, cf=0)),
                   ('set_flow', dict(x=a, p='l', c=1, v=8)), ('set_flow', dict(x=b, p='l', c=1, v=4)), ('set_flow', dict(x=b, p='l', c=2, v=4))]
            bp = 'l'
            if rng.random() < 0.5:
                ops.append(('set_phase', dict(x=b, p='g')))         # the two streams differ in phase before they are linked
                bp = 'g'
            reads = [('vget', dict(x=b, p=bp, c=1, view=rng.choice(['vol', 'mass']), how=rng.choice(['indexer', 'array']))),
                     ('uget', dict(x=b, p=bp, c=1, units=rng.choice(['m3/hr', 'kg/hr', 'L/min'])))]
            if rng.random() < 0.7:
                ops += reads
            if rng.random() < 0.5:
                ops.append(('vget', dict(x=a, p='l', c=1, view=reads[0][1]['view'], how=reads[0][1]['how'])))
            ops.append(('link_with', dict(d=b, x=a, flow=flags[0], phase=flags[1], TP=flags[2])))
            if flags[1]:
                bp = 'l'
            mut = rng.choice([('set_phase', dict(x=a, p='g')), ('set_T', dict(x=a, T=350)), ('set_flow', dict(x=a, p='l', c=1, v=12)), None])
            if mut:
                ops.append(mut)
                if flags[1] and mut[0] == 'set_phase':
                    bp = 'g'
            ops += [('vget', dict(x=b, p=bp, c=1, view=reads[0][1]['view'], how=reads[0][1]['how'])),
                    ('vget', dict(x=b, p=bp, c=1, view='vol', how='array')),
                    ('tget', dict(x=b, which=rng.choice(['F_vol', 'F_mass', 'F_mol'])))]
        else:
            ops = [('construct', dict(x=a, k='m', price=0, cf=0)), ('construct', dict(x=b, k='m', price=0, cf=0)),
                   ('set_flow', dict(x=a, p='l', c=1, v=8)), ('set_flow', dict(x=a, p='l', c=2, v=4)),
                   ('set_flow', dict(x=b, p='l', c=1, v=4)), ('set_flow', dict(x=b, p='l', c=2, v=8))]
            if rng.random() < 0.5:
                ops.append(('get_eq', dict(x=b, kind='vle')))
            ops.append(rng.choice([('link_with', dict(d=b, x=a, flow=rng.random() < 0.5, phase=False, TP=True)), ('proxy', dict(d=b, x=a))]))
            if rng.random() < 0.5:
                ops.append(('flash_TP', dict(x=b, T=320, P=200)))
            ops.append(('unlink', dict(x=b)))
            ops.append(('flash_TP', dict(x=rng.choice([a, b]), T=350, P=50)))
            ops.append(('flash_TP', dict(x=b, T=300, P=100)))
        out.append([dict(op=o, a=x) for o, x in ops])
    return out


def run(ctx):
    return sc.run(ctx, 'C13', MC, FOCUS, SHAPING, extra_paths=link_paths, extra_focus=['vget', 'uget', 'tget'])


def replay(ctx, data):
    return sc.replay(ctx, data, 'C13')
