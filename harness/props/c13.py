"""C13 - copies are independent, links share what they advertise, pickles round-trip."""
from harness.props import streams_common as sc

FOCUS = ['construct', 'copy', 'pickle', 'pickle', 'copy_like', 'proxy', 'flow_proxy', 'link_with', 'unlink']
SHAPING = ['set_flow', 'set_flow', 'set_T', 'set_P', 'set_phase', 'set_phases', 'empty', 'scale']
MC = dict(names=3, ops='c_OpsC13', phasesets='c_PhaseSets', depth='Depth5', depth_quick='Depth4',
          props=['IndependentUntouched'])


def run(ctx):
    return sc.run(ctx, 'C13', MC, FOCUS, SHAPING)


def replay(ctx, data):
    return sc.replay(ctx, data, 'C13')
