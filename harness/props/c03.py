"""C03 - phase equilibrium never creates, destroys or makes negative any material."""
import random

from harness import core, par, replayjob, tlc
from harness.drivers import phaseeq as dp

ASSUME = [
    'TLC 1.8 evaluates the specification correctly',
    'tables are logged in quanta of 1e-8 of each chemical\'s total flow (absolute 1e-8 kmol/hr for absent chemicals); conservation is judged to 6 quanta '
    '(rounding of up to four phase entries on each side), negativity to half a quantum',
    'package Water / Ethanol / Octane / Phenol (volatile), N2 (gas-only), Glucose (solid-only), Glycerol (liquid-only); specification values are drawn '
    'inside the ranges C03 names, enthalpy / entropy targets between the library\'s own all-liquid and all-vapour flashes; calls that raise are not judged',
    'the solvers themselves are not modelled: the specification is the contract every outcome must satisfy (any conserving, non-negative redistribution '
    'over the phases the calculation works on)',
]

RULE = ' Counting: evaluations = every executed call; distinct_nontrivial = distinct (operation, arguments, state before the call) among the calls that were judged, i.e. in contract, not state shaping and (where the property says so) returned normally.'


def key_of(step, clause):
    a = step['a']
    extra = a.get('kind', '') if step['op'] == 'vle' else ''
    return 'PhaseEq:%s:%s:%s' % (step['op'], extra, clause)


def history(seed, k, n_steps):
    rng = random.Random(seed)
    w = dp.World()
    binary = k % 6 == 5          # every sixth history: two volatile chemicals, mostly composition specifications
    w.feed(rng, binary)
    init = w.project()
    steps = []
    for _ in range(n_steps):
        if rng.random() < 0.15:
            w.feed(rng, binary)
            steps.append(dict(op='shuffle', a=dict(x=0), post=w.project(), obs=dict(exc='none', msg='')))
            continue
        last = steps[-1] if steps else None
        if last is not None and last['op'] == 'lle' and last['obs']['exc'] == 'none' and rng.random() < 0.5:
            # the same liquid-liquid call again after a small change of one (trace) chemical: the solver may reuse what it remembers
            w.nudge(rng)
            steps.append(dict(op='shuffle', a=dict(x=0), post=w.project(), obs=dict(exc='none', msg='')))
            op, a = 'lle', dict(last['a'], use_cache=1)
        else:
            op, a = dp.random_op(rng, w)
        obs = w.apply(op, a)
        try:
            post = w.project()
        except Exception:
            # a call that raised half-way left an object that cannot be read (not a C03 subject): start over with new material
            w = dp.World()
            w.feed(rng, binary)
            steps.append(dict(op='shuffle', a=dict(x=0), post=w.project(), obs=dict(exc='none', msg='')))
            continue
        steps.append(dict(op=op, a=a, post=post, obs=obs))
    return dict(id='Q%d' % k, mode='seq', init=init, steps=steps, job=[seed, k, n_steps])


def run(ctx):
    rng = random.Random(ctx.seed)
    quick = ctx.quick
    r, _ = tlc.model_check('MC_PhaseEq.tla', 'MC_PhaseEq_quick.cfg' if quick else 'MC_PhaseEq.cfg', coverage=False, timeout=3000)
    if r.violated:
        ctx.violation('PhaseEq:MC:%s' % r.violated, 'contract model violates %s' % r.violated, dict(kind='mc', counterexample=r.counterexample()[:5000]))
    elif not r.ok:
        raise tlc.MachineryError(r.out[-3000:])
    ctx.note('MC PhaseEq: %d distinct states, %d transitions' % (r.distinct, r.generated))
    traces = par.pmap(history, [('%d:%d' % (ctx.seed, k), k, 8) for k in range(160 if quick else 4000)])
    defs, cfgc = dp.tla_constants()
    stats = dict(ok=0, raised=0, ops={})
    jobs_of = {t['id']: t.pop('job') for t in traces}
    todo, n_traces = traces, 0
    cases = []
    while todo:
        v = tlc.validate_traces('PhaseEq', defs, cfgc, todo, procs=16)
        n_traces += len(todo)
        nxt = []
        for t in todo:
            x = v[t['id']]
            n_ok = x['l'] - 1 if x['code'] in ('rejected', 'ooc') else len(t['steps'])
            ooc = set(x['stepooc'])
            for i, s in enumerate(t['steps'], 1):
                pre_ = t['steps'][i - 2]['post'] if i > 1 else t['init']
                cases.append((i <= n_ok and i not in ooc and s['op'] != 'shuffle', [s['op'], s['a'], pre_]))
            for i, s in enumerate(t['steps'][:n_ok], 1):
                if s['op'] == 'shuffle':
                    continue
                if i in ooc:
                    stats['raised'] += 1
                else:
                    stats['ok'] += 1
                    name = s['op'] + (':' + s['a']['kind'] if s['op'] == 'vle' else '')
                    stats['ops'][name] = stats['ops'].get(name, 0) + 1
            if x['code'] == 'rejected':
                s = t['steps'][x['l'] - 1]
                pre = t['steps'][x['l'] - 2]['post'] if x['l'] > 1 else t['init']
                ctx.violation(key_of(s, x['clause']), '%s %r: %s pre=%r post=%r' % (s['op'], s['a'], x['clause'], pre['tab'], s['post']['tab']),
                              dict(replayjob.job(history, jobs_of[t['id'].rstrip('c')], t['id']), clause=x['clause']))
                if t['steps'][x['l']:]:
                    nxt.append(dict(id=t['id'] + 'c', mode='seq', init=s['post'], steps=t['steps'][x['l']:]))
        todo = nxt
    cov = dict(states=r.distinct, transitions=r.generated, traces_validated_against_impl=n_traces,
               steps_validated_in_contract=stats['ok'], calls_that_raised_not_judged=stats['raised'], per_operation_in_contract_steps=stats['ops'],
               exhaustive=False, mc_exhaustive_for_cfg=True,
               samples=[dict(ops=[[s['op'], s['a']] for s in traces[0]['steps'][:3]])],
               rule='MC: all sequences of vle / lle / sle / vlle outcomes the contract allows on 3 chemicals (volatile, gas-only, solid-only) x 4 phases with small '
                    'integer tables (ledger, non-negativity, locked placement kept). Real solvers: random subsets of 7 chemicals, flows 1e-3..1e3, random initial '
                    'distribution over g / l / L / s (Stream and MultiStream), histories of 8 calls on the same stream: vle with TP, TV, PV, PH, PS, TH, TS, Tx, Ty, '
                    'Px, Py, lle (with / without top chemical and cache), sle (given / computed solubility), vlle; each logged table judged by TLC')
    cov.update(core.case_stats(cases))
    cov['rule'] += RULE
    return 'exploration', cov, ASSUME


def replay(ctx, data):
    return replayjob.run('C03', data, dict(history=history), 'PhaseEq', dp.tla_constants())
