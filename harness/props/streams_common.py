"""Shared check logic for the properties decided with spec/Streams.tla (C01, C12, C13)."""
import random

from harness import tlc
from harness.drivers import streams as ds

ASSUME = [
    'TLC 1.8 evaluates the specification correctly',
    'flows, temperatures and pressures are small integers (exact in floating point), so comparison is equality',
    'sharing is projected from object identity of the data / thermal-condition / phase containers and confirmed '
    'behaviourally (write through one stream, read through the other) after every copy/link/unlink operation',
    'representation changes (phases, phase, reduce_phases, as_stream, equilibrium getters, set_data) and link_with are '
    'specified for streams that share no container with another stream (Pre)',
]

CFG = '''SPECIFICATION Spec
CONSTANTS
  Names <- %(names)s
  NameOrder <- %(order)s
  InitPkg <- %(initpkg)s
  NC = 2
  Pkgs <- c_Pkgs
  PkgChems <- c_PkgChems
  FlowVals <- c_FlowVals
  TVals <- c_TVals
  PVals <- c_PVals
  Splits <- c_Splits
  ModelPhaseSets <- %(phasesets)s
  ModelPhases <- c_Phases
  Ops <- %(ops)s
VIEW view
INVARIANT TypeOK
INVARIANT InvSharing
%(props)s
CONSTRAINT %(depth)s
CHECK_DEADLOCK FALSE
'''


def kinds(st, names):
    return ','.join(st['st'][n]['k'] + ('*' if st['st'][n]['pkg'] != 'P' else '') for n in names if n)


def key_of(prop_ops, pre, step, clause):
    op, a = step['op'], step['a']
    involved = [a.get(k) for k in ('r', 'x', 'y', 'z', 'd')] + list(a.get('ins', []))
    involved = [n for n in involved if isinstance(n, str) and n in pre['st']]
    extra = ''
    if op == 'mix_from':
        extra = ':n=%d,eb=%s' % (len(a['ins']), a['eb'])
    if op in ('copy_flow', 'copy_flow_multi'):
        extra = ':all=%s,remove=%s,excl=%s' % (a['all'], a['remove'], a['excl'])
    if op == 'link_with':
        extra = ':flow=%s,phase=%s,TP=%s' % (a['flow'], a['phase'], a['TP'])
    return 'Streams:%s:%s%s:%s' % (op, kinds(pre, involved[:3]), extra, clause)


def run_random(universe, rng, n, length, prefix, ops):
    traces = []
    for k in range(n):
        w = ds.World(universe)
        init = w.project()
        cur = init
        steps = []
        for _ in range(length):
            op, a = ds.random_op(universe, rng, cur, ops)
            obs = w.apply(op, a)
            cur = w.project()
            steps.append(dict(op=op, a=a, post=cur, obs=obs))
        traces.append(dict(id='%s%d' % (prefix, k), mode='seq', init=init, steps=steps))
    return traces


def run_steps(universe, states, rng, n_ops, prefix, ops):
    traces = []
    for k, st in enumerate(states):
        steps = []
        directed = list(st.pop('directed', [])) if isinstance(st, dict) else []
        for _ in range(n_ops + len(directed)):
            op, a = directed.pop() if directed else ds.random_op(universe, rng, st, ops)
            if op not in ops and op != 'copy_flow_multi':
                continue
            w = ds.World(universe)
            w.set_state(st)
            obs = w.apply(op, a)
            steps.append(dict(op=op, a=a, post=w.project(), obs=obs))
        traces.append(dict(id='%s%d' % (prefix, k), mode='fan', init=st, steps=steps))
    return traces


def random_state(universe, rng):
    """A random well-formed abstract state without sharing: every kind / phase set / flow distribution."""
    nc = universe['nc']
    st, sv = {}, {}
    for n in universe['names']:
        pkg = universe['pkg'][n]
        chems = [c for c in universe['pkgs'][pkg] if c <= nc]
        multi = rng.random() < 0.55
        if multi:
            phs = sorted(rng.sample(ds.ALLPH, rng.randint(1, 4)))
        else:
            phs = [rng.choice(ds.ALLPH)]
        fl = {}
        for p in phs:
            empty = rng.random() < 0.35
            fl[p] = [0 if (empty or c not in chems or rng.random() < 0.4) else 4 * rng.randint(1, 6) for c in range(1, nc + 1)]
        st[n] = dict(k='m' if multi else 's', ph=phs, fl=fl, T=rng.choice([300, 320, 350]), P=rng.choice([100, 200, 50]),
                     pkg=pkg, price=0, cf=0, fr=n, tr=n, pr=n)
        sv[n] = ds.NOSNAP
    if rng.random() < 0.3 and len(universe['names']) >= 3:
        # directed: two multi-phase streams whose phase sets agree up to the case of the liquid / solid labels, the others mostly
        # empty (single non-empty inlet paths, label interchange between property packages)
        x, y = rng.sample(universe['names'], 2)
        base = sorted(rng.sample(['l', 's', 'g'], rng.randint(1, 3)))
        for n in (x, y):
            chems = [c for c in universe['pkgs'][universe['pkg'][n]] if c <= nc]
            phs = sorted({(p.upper() if p != 'g' and rng.random() < 0.5 else p) for p in base})
            st[n]['k'], st[n]['ph'] = 'm', phs
            st[n]['fl'] = {p: [0 if (c not in chems or rng.random() < 0.3) else 4 * rng.randint(1, 6) for c in range(1, nc + 1)] for p in phs}
        others = [n for n in universe['names'] if n not in (x, y)]
        for n in others:
            if rng.random() < 0.7:
                st[n]['fl'] = {p: [0] * nc for p in st[n]['ph']}
        directed = []
        for r, i in ((x, y), (y, x)):
            for eb in (True, False):
                directed.append(('mix_from', dict(r=r, ins=[i] + rng.sample(others, rng.randint(0, 1)), eb=eb)))
            directed.append(('copy_like', dict(d=r, x=i)))
            directed.append(('separate_out', dict(x=r, y=i)))
        return dict(st=st, sv=sv, directed=directed)
    if rng.random() < 0.2 and len(universe['names']) >= 2:
        # directed: two multi-phase streams of ONE package with the SAME phase set, both holding material in several phases, and flow
        # copied between them with a phase named explicitly (with and without removal)
        same = [n for n in universe['names'] if universe['pkg'][n] == universe['pkg'][universe['names'][0]]]
        if len(same) >= 2:
            x, y = rng.sample(same, 2)
            phs = sorted(rng.choice([['g', 'l'], ['g', 'l', 's'], ['L', 'l']]))
            chems = [c for c in universe['pkgs'][universe['pkg'][x]] if c <= nc]
            for n in (x, y):
                st[n]['k'], st[n]['ph'] = 'm', phs
                st[n]['fl'] = {p: [0 if (c not in chems or rng.random() < 0.2) else 4 * rng.randint(1, 6) for c in range(1, nc + 1)] for p in phs}
            directed = []
            for r, i in ((x, y), (y, x)):
                ids = sorted(c for c in chems if rng.random() < 0.7) or chems[:1]
                directed.append(('copy_flow_multi', dict(x=r, y=i, ids=ids, all=False, remove=rng.random() < 0.7, excl=False, as_str=False, ph=rng.choice(phs))))
            return dict(st=st, sv=sv, directed=directed)
    return dict(st=st, sv=sv)


def run_paths(universe, paths, prefix):
    traces = []
    for k, path in enumerate(paths):
        w = ds.World(universe)
        init = w.project()
        steps = []
        for e in path:
            a = dict(e['a'])
            obs = w.apply(e['op'], a)
            steps.append(dict(op=e['op'], a=a, post=w.project(), obs=obs))
        traces.append(dict(id='%s%d' % (prefix, k), mode='seq', init=init, steps=steps))
    return traces


def judge(ctx, uname, traces, verdicts, stats, focus):
    for t in traces:
        v = verdicts[t['id']]
        fails = list(v['stepfail'])
        ooc = set(v['stepooc'])
        if t['mode'] == 'seq':
            n_ok = v['l'] - 1 if v['code'] in ('rejected', 'ooc') else len(t['steps'])
            if v['code'] == 'rejected':
                fails.append((v['l'], v['clause']))
            if v['code'] == 'ooc':
                stats['truncated'] += 1
        else:
            n_ok = len(t['steps'])
        for i, s in enumerate(t['steps'][:n_ok], 1):
            if i in ooc:
                stats['ooc'] += 1
            else:
                stats['ok'] += 1
                stats['ops'][s['op']] = stats['ops'].get(s['op'], 0) + 1
        for l, clause in fails:
            s = t['steps'][l - 1]
            pre = t['init'] if t['mode'] == 'fan' or l == 1 else t['steps'][l - 2]['post']
            if s['op'] not in focus:
                stats['other_property'] += 1     # belongs to a sibling property's check; reported there
                continue
            if t['mode'] == 'seq':      # keep the history: the failure may depend on it
                rp = dict(kind='step', universe=uname, init=t['init'], steps=[dict(op=x['op'], a=x['a']) for x in t['steps'][:l]], clause=clause)
            else:
                rp = dict(kind='step', universe=uname, init=pre, steps=[dict(op=s['op'], a=s['a'])], clause=clause)
            ctx.violation(key_of(focus, pre, s, clause),
                          '%s %r: %s (exc=%s %s)' % (s['op'], s['a'], clause, s['obs']['exc'], s['obs'].get('msg', '')), rp)


def run(ctx, prop, mc, focus, shaping, sim_len=30, extra_paths=None, extra_universe='mc3', extra_focus=()):
    """mc: dict(names=..., ops=..., phasesets=..., depth=..., props=[...]); focus: operations this property owns;
    shaping: additional operations used to reach interesting states (violations on them are left to their owner)."""
    rng = random.Random(ctx.seed)
    quick = ctx.quick
    stats = dict(ok=0, ooc=0, truncated=0, ops={}, other_property=0)
    three = mc['names'] == 3
    cfg = CFG % dict(names='c_Names' if three else 'c_Names2', order='c_Order' if three else 'c_Order2',
                     initpkg='c_InitPkg' if three else 'c_InitPkg2', phasesets=mc['phasesets'], ops=mc['ops'],
                     props=''.join('PROPERTY %s\n' % p for p in mc.get('props', [])),
                     depth=mc['depth_quick'] if quick else mc['depth'])
    name = 'MC_Streams_%s.cfg' % prop
    r, states = tlc.model_check('MC_Streams.tla', name, dump=True, coverage=False, files={name: cfg}, timeout=3400)
    if r.violated:
        ctx.violation('Streams:MC:%s' % r.violated, 'specification violates %s' % r.violated,
                      dict(kind='mc', counterexample=r.counterexample()[:6000]))
    elif not r.ok:
        raise tlc.MachineryError(r.out[-3000:])
    ctx.note('MC %s: %d distinct states, %d transitions, depth %d' % (name, r.distinct, r.generated, r.depth))
    uname = 'mc3' if three else 'mc2'
    uni = ds.UNIVERSES[uname]
    witness = sorted((s['path'] for s in states if s.get('path')), key=repr)
    dstates = sorted(({'st': s['st'], 'sv': s['sv']} for s in states), key=repr)
    ops_all = list(focus) + list(shaping)
    groups = []
    wsample = witness if not quick else rng.sample(witness, min(150, len(witness)))
    groups.append((uname, run_paths(uni, wsample, 'W')))
    ssample = dstates if not quick and len(dstates) < 4000 else rng.sample(dstates, min(150 if quick else 4000, len(dstates)))
    groups.append((uname, run_steps(uni, ssample, rng, 12 if quick else 30, 'S', list(focus) * 3 + list(shaping))))
    for un in ('big', 'mc3'):
        u = ds.UNIVERSES[un]
        rstates = [random_state(u, rng) for _ in range(200 if quick else 3000)]
        groups.append((un, run_steps(u, rstates, rng, 10 if quick else 25, 'T' + un[0], list(focus))))
    if extra_paths:
        groups.append((extra_universe, run_paths(ds.UNIVERSES[extra_universe], extra_paths(rng, 300 if quick else 4000), 'D')))
    groups.append(('big', run_random(ds.UNIVERSES['big'], rng, 100 if quick else 1500, sim_len, 'R', ops_all)))
    groups.append(('mc3', run_random(ds.UNIVERSES['mc3'], rng, 70 if quick else 1000, sim_len, 'Q', ops_all)))
    n_tr = 0
    for un, traces in groups:
        defs, cfgc = ds.tla_constants(ds.UNIVERSES[un])
        v = tlc.validate_traces('Streams', defs, cfgc, traces, procs=16)
        directed = bool(traces) and traces[0]['id'].startswith('D')
        judge(ctx, un, traces, v, stats, set(focus) | (set(extra_focus) if directed else set()))
        n_tr += len(traces)
    sample = groups[2][1][0]
    cov = dict(states=r.distinct, transitions=r.generated, depth=r.depth, traces_validated_against_impl=n_tr,
               steps_validated_in_contract=stats['ok'], steps_out_of_contract_ignored=stats['ooc'],
               traces_truncated_out_of_contract=stats['truncated'], per_operation_in_contract_steps=stats['ops'],
               rejections_on_operations_owned_by_sibling_checks=stats['other_property'],
               exhaustive=False, mc_exhaustive_for_cfg=True, mc_depth_bound=mc['depth_quick'] if quick else mc['depth'],
               samples=[dict(ops=[[s['op'], s['a']] for s in sample['steps'][:6]])],
               rule='MC: all operation sequences of the property\'s operations up to the depth bound over 2-3 streams, 2 chemicals, '
                    '2 property packages; STEP at TLC-dumped states; TLC witness paths; random histories of %d operations over 5 '
                    'streams / 3 chemicals / 3 packages; every step validated by TLC' % sim_len)
    return 'model_checking', cov, ASSUME


def replay(ctx, data, prop):
    rp = data.get('replay') or {}
    if rp.get('kind') != 'step':
        print(rp.get('counterexample', '# nothing executable'))
        return 1
    uni = ds.UNIVERSES[rp['universe']]
    w = ds.World(uni)
    w.set_state(rp['init'])
    steps = []
    cur = rp['init']
    for s in rp['steps']:
        obs = w.apply(s['op'], s['a'])
        steps.append(dict(op=s['op'], a=s['a'], post=w.project(), obs=obs))
        inv = [s['a'].get(k) for k in ('r', 'x', 'y', 'z', 'd')] + list(s['a'].get('ins', []))
        inv = [n for n in inv if isinstance(n, str)]
        print('# %s %r -> %r' % (s['op'], s['a'], {k: v for k, v in obs.items() if v not in ([], 0, True)}))
        if s is rp['steps'][-1]:
            for n in dict.fromkeys(inv):
                print('#   %s: %r\n#      -> %r' % (n, cur['st'][n], steps[-1]['post']['st'][n]))
        cur = steps[-1]['post']
    defs, cfgc = ds.tla_constants(uni)
    v = tlc.validate_traces('Streams', defs, cfgc, [dict(id='R0', mode='seq', init=rp['init'], steps=steps)], procs=1)['R0']
    print('# verdict: %r' % (v,))
    if v['code'] == 'rejected':
        print('VIOLATION property=%s replay=%s' % (prop, data.get('_path', '')))
        return 1
    return 0
