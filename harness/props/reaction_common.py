"""Shared check logic for the properties decided with spec/Reaction.tla (C05, C17)."""
import random

from harness import tlc
from harness.drivers import reaction as dr

ASSUME = [
    'TLC 1.8 evaluates the specification correctly',
    'stoichiometric coefficients, conversions and feeds are dyadic rationals, so floating point is exact and comparison is equality '
    '(weight-basis applications go through the molecular weights and are compared after rounding to denominators <= 2^20)',
    'chemicals H2, O2, H2O, CH4, CO, CO2 of the bundled database; five balanced reactions and everything reaction arithmetic builds from them',
]
ALGEBRA = ['add', 'sub', 'iadd', 'isub', 'mul', 'rmul', 'div', 'imul', 'idiv', 'neg', 'copy', 'backwards', 'set_X', 'item_set_X', 'set_set_X',
           'item_imul', 'item_idiv', 'set_assign_X', 'reduce', 'reduce', 'to_wt', 'to_wt', 'to_mol', 'mkset', 'set_copy', 'set_copy', 'tagged_probe', 'tagged_probe']
APPLY = ['react', 'react_set']
APPLY_C05 = APPLY + ['system_rebased']
SHAPE = ['load', 'load', 'set_feed', 'mkset']


def key_of(step, clause):
    a = step['a']
    extra = a.get('how', '')
    if step['op'] == 'backwards':
        extra = 'auto' if a['auto'] else 'given'
    if step['op'] == 'mkset':
        extra = a['kind']
    return 'Reaction:%s:%s:%s' % (step['op'], extra, clause)


def too_big(st, lim=2000):
    """TLC has 32-bit integers: keep every rational small enough for products of two of them."""
    def big(x):
        return abs(x[0]) > lim or x[1] > lim or x[1] <= 0
    if any(big(x) for x in st['m']):
        return True
    recs = [r for r in st['Rx'].values() if r['k'] == 'rxn'] + list(st['RS']['items'])
    return any(big(r['X']) or any(big(x) for x in r['nu']) for r in recs)


def run_random(rng, n, length, prefix, ops):
    traces = []
    for k in range(n):
        w = dr.World()
        init = w.project()
        cur = init
        steps = []
        for _ in range(length):
            op, a = dr.random_op(rng, cur, ops)
            obs = w.apply(op, a)
            nxt = w.project()
            if too_big(nxt):
                obs['too_big'] = True
                obs['reduced_m'] = []
                steps.append(dict(op=op, a=a, post=cur, obs=obs))
                break
            cur = nxt
            steps.append(dict(op=op, a=a, post=cur, obs=obs))
        traces.append(dict(id='%s%d' % (prefix, k), mode='seq', init=init, steps=steps))
    return traces


def run_steps(states, rng, n_ops, prefix, ops, slots):
    traces = []
    for k, st in enumerate(states):
        steps = []
        for _ in range(n_ops):
            op, a = dr.random_op(rng, st, ops, slots)
            w = dr.World(slots)
            w.set_state(st)
            obs = w.apply(op, a)
            post = w.project()
            if too_big(post):
                obs['too_big'] = True
                obs['reduced_m'] = []
                post = st
            steps.append(dict(op=op, a=a, post=post, obs=obs))
        traces.append(dict(id='%s%d' % (prefix, k), mode='fan', init=st, steps=steps))
    return traces


def run_paths(paths, prefix, slots):
    traces = []
    for k, path in enumerate(paths):
        w = dr.World(slots)
        init = w.project()
        steps = []
        cur = init
        for e in path:
            obs = w.apply(e['op'], e['a'])
            post = w.project()
            if too_big(post):
                obs['too_big'] = True
                obs['reduced_m'] = []
                steps.append(dict(op=e['op'], a=e['a'], post=cur, obs=obs))
                break
            cur = post
            steps.append(dict(op=e['op'], a=e['a'], post=post, obs=obs))
        traces.append(dict(id='%s%d' % (prefix, k), mode='seq', init=init, steps=steps))
    return traces


def judge(ctx, traces, verdicts, stats, focus, slots):
    for t in traces:
        v = verdicts[t['id']]
        fails = list(v['stepfail'])
        ooc = set(v['stepooc'])
        if t['mode'] == 'seq':
            n_ok = v['l'] - 1 if v['code'] in ('rejected', 'ooc') else len(t['steps'])
            if v['code'] == 'rejected':
                fails.append((v['l'], v['clause']))
            if v['code'] == 'ooc':
                stats['truncated'] += 1
        else:
            n_ok = len(t['steps'])
        for i, s in enumerate(t['steps'][:n_ok], 1):
            if i in ooc:
                stats['ooc'] += 1
            else:
                stats['ok'] += 1
                stats['ops'][s['op']] = stats['ops'].get(s['op'], 0) + 1
        for l, clause in fails:
            s = t['steps'][l - 1]
            if s['op'] not in focus:
                stats['other_property'] += 1
                continue
            if t['mode'] == 'seq':
                rp = dict(kind='step', slots=slots, init=t['init'], steps=[dict(op=x['op'], a=x['a']) for x in t['steps'][:l]], clause=clause)
            else:
                rp = dict(kind='step', slots=slots, init=t['init'], steps=[dict(op=s['op'], a=s['a'])], clause=clause)
            ctx.violation(key_of(s, clause), '%s %r: %s (exc=%s %s)' % (s['op'], s['a'], clause, s['obs']['exc'], s['obs'].get('msg', '')), rp)


def directed_paths(rng, n):
    """Pairs of library reactions sharing a reactant, loaded with different conversions, optionally re-based, then
    every binary / in-place operator, followed by applications of the result in every way."""
    from fractions import Fraction as F
    pairs = []
    for i, a in enumerate(dr.LIB, 1):
        for j, b in enumerate(dr.LIB, 1):
            for c in range(len(dr.IDS)):
                if a[c] < 0 and b[c] < 0:
                    pairs.append((i, j, c + 1))
    out = []
    hows = ['stream', 'stream_wt', 'stream_wt_mol', 'stream_other', 'stream_other_reset', 'array', 'sparse']
    for _ in range(n):
        i, j, r = rng.choice(pairs)
        X1, X2 = rng.sample([F(1, 4), F(1, 2), F(3, 4), F(1, 8)], 2)
        ops = [('load', dict(x='r1', i=i, r=r, X=dr.q(X1))), ('load', dict(x='r2', i=j, r=r, X=dr.q(X2))),
               ('set_feed', dict(f=[dr.q(F(rng.choice([2, 4, 8]))) for _ in dr.IDS]))]
        for slot in ('r1', 'r2'):
            b = rng.choice(['mol', 'wt', 'wt_mol'])
            if b in ('wt', 'wt_mol'):
                ops.append(('to_wt', dict(d=slot, x=slot)))
            if b == 'wt_mol':
                ops.append(('to_mol', dict(d=slot, x=slot)))
        op = rng.choice(['add', 'sub', 'iadd', 'isub'] * 3 + ['mul', 'rmul', 'div', 'imul', 'idiv', 'neg', 'backwards'])
        if op in ('add', 'sub'):
            ops.append((op, dict(d='r3', x='r1', y='r2')))
            res = 'r3'
        elif op in ('iadd', 'isub'):
            ops.append((op, dict(x='r1', y='r2')))
            res = 'r1'
        elif op in ('mul', 'rmul', 'div'):
            ops.append((op, dict(d='r3', x='r1', q=dr.q(rng.choice([F(1, 2), F(2), F(1, 4)])))))
            res = 'r3'
        elif op in ('imul', 'idiv'):
            ops.append((op, dict(x='r1', q=dr.q(rng.choice([F(1, 2), F(2)])))))
            res = 'r1'
        elif op == 'neg':
            ops.append((op, dict(d='r3', x='r1')))
            res = 'r2'
        else:
            prods = [c + 1 for c, v in enumerate(dr.LIB[i - 1]) if v > 0]
            ops.append((op, dict(d='r3', x='r1', p=rng.choice(prods), auto=False)))
            res = 'r3'
        ops.append(('react', dict(x=res, how=rng.choice(hows))))
        if rng.random() < 0.5:
            # a chain: the second member's reactant is a product of the first (parallel must still use the FEED composition)
            chains = [(i2, j2, c2 + 1) for i2, a2 in enumerate(dr.LIB, 1) for j2, b2 in enumerate(dr.LIB, 1) for c2 in range(len(dr.IDS))
                      if a2[c2] > 0 and b2[c2] < 0]
            i2, j2, c2 = rng.choice(chains)
            r_first = rng.choice([c + 1 for c, v in enumerate(dr.LIB[i2 - 1]) if v < 0])
            ops += [('load', dict(x='r1', i=i2, r=r_first, X=dr.q(rng.choice([F(1, 2), F(1, 4)])))),
                    ('load', dict(x='r2', i=j2, r=c2, X=dr.q(rng.choice([F(1, 2), F(3, 4)]))))]
            ops.append(('mkset', dict(kind=rng.choice(['parallel', 'parallel', 'series', 'system']), xs=rng.choice([['r1', 'r2'], ['r2', 'r1'], ['r1', 'r2', 'r1']]))))
        else:
            ops.append(('mkset', dict(kind=rng.choice(['parallel', 'series', 'system']), xs=rng.sample(['r1', 'r2', 'r1'], 2))))
        ops.append(('set_feed', dict(f=[dr.q(F(rng.choice([2, 4, 8]))) for _ in dr.IDS])))
        ops.append(('react_set', dict(how=rng.choice(['stream', 'stream_wt', 'array']))))
        out.append([dict(op=o, a=a) for o, a in ops])
        if len(out) % 4 == 0:
            # a set built from members whose conversions were written as the integers 0 / 1, then given fractional conversions
            # through the set (or through its items), then applied
            i1, i2 = rng.randrange(1, len(dr.LIB) + 1), rng.randrange(1, len(dr.LIB) + 1)
            r1 = rng.choice([c + 1 for c, v in enumerate(dr.LIB[i1 - 1]) if v < 0])
            r2 = rng.choice([c + 1 for c, v in enumerate(dr.LIB[i2 - 1]) if v < 0])
            ops = [('load', dict(x='r1', i=i1, r=r1, X=dr.q(F(rng.choice([0, 1]))))), ('load', dict(x='r2', i=i2, r=r2, X=dr.q(F(rng.choice([0, 1]))))),
                   ('mkset', dict(kind=rng.choice(['parallel', 'series']), xs=['r1', 'r2']))]
            if rng.random() < 0.6:
                ops.append(('set_assign_X', dict(Xs=[dr.q(F(1, 2)), dr.q(F(1, 4))])))
            else:
                ops += [('item_set_X', dict(i=1, X=dr.q(F(1, 4)))), ('set_set_X', dict(i=2, X=dr.q(F(1, 2))))]
            ops.append(('set_feed', dict(f=[dr.q(F(rng.choice([4, 8]))) for _ in dr.IDS])))
            ops.append(('react_set', dict(how=rng.choice(['stream', 'array']))))
            out.append([dict(op=o, a=a) for o, a in ops])
    return out


def run(ctx, prop, focus, shaping):
    rng = random.Random(ctx.seed)
    quick = ctx.quick
    stats = dict(ok=0, ooc=0, truncated=0, ops={}, other_property=0)
    cfg = 'MC_Reaction_quick.cfg' if quick else 'MC_Reaction.cfg'
    r, states = tlc.model_check('MC_Reaction.tla', cfg, dump=True, coverage=False, timeout=3400)
    if r.violated:
        ctx.violation('Reaction:MC:%s' % r.violated, 'specification violates %s' % r.violated, dict(kind='mc', counterexample=r.counterexample()[:6000]))
    elif not r.ok:
        raise tlc.MachineryError(r.out[-3000:])
    ctx.note('MC %s: %d distinct states, %d transitions, depth %d' % (cfg, r.distinct, r.generated, r.depth))
    mslots = ['r1', 'r2', 'r3']
    witness = sorted((s['path'] for s in states if s.get('path')), key=repr)
    dstates = sorted(({'m': s['m'], 'Rx': s['Rx'], 'RS': s['RS']} for s in states), key=repr)
    groups = []
    wsample = witness if not quick else rng.sample(witness, min(200, len(witness)))
    groups.append((mslots, run_paths(wsample, 'W', mslots)))
    ssample = rng.sample(dstates, min(150 if quick else 5000, len(dstates)))
    groups.append((mslots, run_steps(ssample, rng, 12 if quick else 30, 'S', list(focus) * 2 + list(shaping), mslots)))
    groups.append((mslots, run_paths(directed_paths(rng, 150 if quick else 4000), 'D', mslots)))
    groups.append((dr.SLOTS, run_random(rng, 100 if quick else 3000, 30, 'R', list(focus) * 2 + list(shaping) + ALGEBRA[:6] + APPLY)))
    n_tr = 0
    for slots, traces in groups:
        defs, cfgc = dr.tla_constants(slots)
        v = tlc.validate_traces('Reaction', defs, cfgc, traces, procs=16)
        judge(ctx, traces, v, stats, set(focus), slots)
        n_tr += len(traces)
    cov = dict(states=r.distinct, transitions=r.generated, depth=r.depth, traces_validated_against_impl=n_tr,
               steps_validated_in_contract=stats['ok'], steps_out_of_contract_ignored=stats['ooc'],
               traces_truncated_out_of_contract=stats['truncated'], per_operation_in_contract_steps=stats['ops'],
               rejections_on_operations_owned_by_sibling_checks=stats['other_property'],
               exhaustive=False, mc_exhaustive_for_cfg=True, mc_depth_bound=3 if quick else 4,
               samples=[dict(ops=[[s['op'], s['a']] for s in groups[-1][1][0]['steps'][:6]])],
               rule='MC: all sequences (depth bound) of load / feed / react / react-set / reaction arithmetic over 3 slots, 5 balanced reactions on 6 real '
                    'chemicals, with action properties ReactConserves, ReactConverts, AddIsParallel and invariant SubUndoesAdd; STEP at TLC-dumped states; '
                    'witness paths; random 30-step histories; every step validated by TLC')
    return 'model_checking', cov, ASSUME


def replay(ctx, data, prop):
    rp = data.get('replay') or {}
    if rp.get('kind') != 'step':
        print(rp.get('counterexample', '# nothing executable'))
        return 1
    slots = rp['slots']
    w = dr.World(slots)
    w.set_state(rp['init'])
    steps = []
    for s in rp['steps']:
        obs = w.apply(s['op'], s['a'])
        steps.append(dict(op=s['op'], a=s['a'], post=w.project(), obs=obs))
        print('# %s %r -> %r' % (s['op'], s['a'], obs))
    print('#   post: %r' % (steps[-1]['post'],))
    defs, cfgc = dr.tla_constants(slots)
    v = tlc.validate_traces('Reaction', defs, cfgc, [dict(id='R0', mode='seq', init=rp['init'], steps=steps)], procs=1)['R0']
    print('# verdict: %r' % (v,))
    if v['code'] == 'rejected':
        print('VIOLATION property=%s replay=%s' % (prop, data.get('_path', '')))
        return 1
    return 0
