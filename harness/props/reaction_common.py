"""Shared check logic for the properties decided with spec/Reaction.tla (C05, C17)."""
import random

from harness import tlc
from harness.drivers import reaction as dr

ASSUME = [
    'TLC 1.8 evaluates the specification correctly',
    'stoichiometric coefficients, conversions and feeds are dyadic rationals, so floating point is exact and comparison is equality '
    '(weight-basis applications go through the molecular weights and are compared after rounding to denominators <= 2^20)',
    'chemicals H2, O2, H2O, CH4, CO, CO2 of the bundled database; five balanced reactions and everything reaction arithmetic builds from them',
]
ALGEBRA = ['add', 'sub', 'iadd', 'isub', 'mul', 'rmul', 'div', 'imul', 'idiv', 'neg', 'copy', 'backwards', 'set_X', 'item_set_X', 'set_set_X']
APPLY = ['react', 'react_set']
SHAPE = ['load', 'load', 'set_feed', 'mkset']


def key_of(step, clause):
    a = step['a']
    extra = a.get('how', '')
    if step['op'] == 'backwards':
        extra = 'auto' if a['auto'] else 'given'
    if step['op'] == 'mkset':
        extra = a['kind']
    return 'Reaction:%s:%s:%s' % (step['op'], extra, clause)


def too_big(st, lim=2000):
    """TLC has 32-bit integers: keep every rational small enough for products of two of them."""
    def big(x):
        return abs(x[0]) > lim or x[1] > lim or x[1] <= 0
    if any(big(x) for x in st['m']):
        return True
    recs = [r for r in st['Rx'].values() if r['k'] == 'rxn'] + list(st['RS']['items'])
    return any(big(r['X']) or any(big(x) for x in r['nu']) for r in recs)


def run_random(rng, n, length, prefix, ops):
    traces = []
    for k in range(n):
        w = dr.World()
        init = w.project()
        cur = init
        steps = []
        for _ in range(length):
            op, a = dr.random_op(rng, cur, ops)
            obs = w.apply(op, a)
            nxt = w.project()
            if too_big(nxt):
                break
            cur = nxt
            steps.append(dict(op=op, a=a, post=cur, obs=obs))
        traces.append(dict(id='%s%d' % (prefix, k), mode='seq', init=init, steps=steps))
    return traces


def run_steps(states, rng, n_ops, prefix, ops, slots):
    traces = []
    for k, st in enumerate(states):
        steps = []
        for _ in range(n_ops):
            op, a = dr.random_op(rng, st, ops, slots)
            w = dr.World(slots)
            w.set_state(st)
            obs = w.apply(op, a)
            post = w.project()
            if too_big(post):
                continue
            steps.append(dict(op=op, a=a, post=post, obs=obs))
        traces.append(dict(id='%s%d' % (prefix, k), mode='fan', init=st, steps=steps))
    return traces


def run_paths(paths, prefix, slots):
    traces = []
    for k, path in enumerate(paths):
        w = dr.World(slots)
        init = w.project()
        steps = []
        for e in path:
            obs = w.apply(e['op'], e['a'])
            steps.append(dict(op=e['op'], a=e['a'], post=w.project(), obs=obs))
        traces.append(dict(id='%s%d' % (prefix, k), mode='seq', init=init, steps=steps))
    return traces


def judge(ctx, traces, verdicts, stats, focus, slots):
    for t in traces:
        v = verdicts[t['id']]
        fails = list(v['stepfail'])
        ooc = set(v['stepooc'])
        if t['mode'] == 'seq':
            n_ok = v['l'] - 1 if v['code'] in ('rejected', 'ooc') else len(t['steps'])
            if v['code'] == 'rejected':
                fails.append((v['l'], v['clause']))
            if v['code'] == 'ooc':
                stats['truncated'] += 1
        else:
            n_ok = len(t['steps'])
        for i, s in enumerate(t['steps'][:n_ok], 1):
            if i in ooc:
                stats['ooc'] += 1
            else:
                stats['ok'] += 1
                stats['ops'][s['op']] = stats['ops'].get(s['op'], 0) + 1
        for l, clause in fails:
            s = t['steps'][l - 1]
            if s['op'] not in focus:
                stats['other_property'] += 1
                continue
            if t['mode'] == 'seq':
                rp = dict(kind='step', slots=slots, init=t['init'], steps=[dict(op=x['op'], a=x['a']) for x in t['steps'][:l]], clause=clause)
            else:
                rp = dict(kind='step', slots=slots, init=t['init'], steps=[dict(op=s['op'], a=s['a'])], clause=clause)
            ctx.violation(key_of(s, clause), '%s %r: %s (exc=%s %s)' % (s['op'], s['a'], clause, s['obs']['exc'], s['obs'].get('msg', '')), rp)


def run(ctx, prop, focus, shaping):
    rng = random.Random(ctx.seed)
    quick = ctx.quick
    stats = dict(ok=0, ooc=0, truncated=0, ops={}, other_property=0)
    cfg = 'MC_Reaction_quick.cfg' if quick else 'MC_Reaction.cfg'
    r, states = tlc.model_check('MC_Reaction.tla', cfg, dump=True, coverage=False, timeout=3400)
    if r.violated:
        ctx.violation('Reaction:MC:%s' % r.violated, 'specification violates %s' % r.violated, dict(kind='mc', counterexample=r.counterexample()[:6000]))
    elif not r.ok:
        raise tlc.MachineryError(r.out[-3000:])
    ctx.note('MC %s: %d distinct states, %d transitions, depth %d' % (cfg, r.distinct, r.generated, r.depth))
    mslots = ['r1', 'r2', 'r3']
    witness = sorted((s['path'] for s in states if s.get('path')), key=repr)
    dstates = sorted(({'m': s['m'], 'Rx': s['Rx'], 'RS': s['RS']} for s in states), key=repr)
    groups = []
    wsample = witness if not quick else rng.sample(witness, min(200, len(witness)))
    groups.append((mslots, run_paths(wsample, 'W', mslots)))
    ssample = rng.sample(dstates, min(150 if quick else 5000, len(dstates)))
    groups.append((mslots, run_steps(ssample, rng, 12 if quick else 30, 'S', list(focus) * 2 + list(shaping), mslots)))
    groups.append((dr.SLOTS, run_random(rng, 100 if quick else 3000, 30, 'R', list(focus) * 2 + list(shaping) + ALGEBRA[:6] + APPLY)))
    n_tr = 0
    for slots, traces in groups:
        defs, cfgc = dr.tla_constants(slots)
        v = tlc.validate_traces('Reaction', defs, cfgc, traces, procs=16)
        judge(ctx, traces, v, stats, set(focus), slots)
        n_tr += len(traces)
    cov = dict(states=r.distinct, transitions=r.generated, depth=r.depth, traces_validated_against_impl=n_tr,
               steps_validated_in_contract=stats['ok'], steps_out_of_contract_ignored=stats['ooc'],
               traces_truncated_out_of_contract=stats['truncated'], per_operation_in_contract_steps=stats['ops'],
               rejections_on_operations_owned_by_sibling_checks=stats['other_property'],
               exhaustive=False, mc_exhaustive_for_cfg=True, mc_depth_bound=3 if quick else 4,
               samples=[dict(ops=[[s['op'], s['a']] for s in groups[2][1][0]['steps'][:6]])],
               rule='MC: all sequences (depth bound) of load / feed / react / react-set / reaction arithmetic over 3 slots, 5 balanced reactions on 6 real '
                    'chemicals, with action properties ReactConserves, ReactConverts, AddIsParallel and invariant SubUndoesAdd; STEP at TLC-dumped states; '
                    'witness paths; random 30-step histories; every step validated by TLC')
    return 'model_checking', cov, ASSUME


def replay(ctx, data, prop):
    rp = data.get('replay') or {}
    if rp.get('kind') != 'step':
        print(rp.get('counterexample', '# nothing executable'))
        return 1
    slots = rp['slots']
    w = dr.World(slots)
    w.set_state(rp['init'])
    steps = []
    for s in rp['steps']:
        obs = w.apply(s['op'], s['a'])
        steps.append(dict(op=s['op'], a=s['a'], post=w.project(), obs=obs))
        print('# %s %r -> %r' % (s['op'], s['a'], obs))
    print('#   post: %r' % (steps[-1]['post'],))
    defs, cfgc = dr.tla_constants(slots)
    v = tlc.validate_traces('Reaction', defs, cfgc, [dict(id='R0', mode='seq', init=rp['init'], steps=steps)], procs=1)['R0']
    print('# verdict: %r' % (v,))
    if v['code'] == 'rejected':
        print('VIOLATION property=%s replay=%s' % (prop, data.get('_path', '')))
        return 1
    return 0
