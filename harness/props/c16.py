"""C16 - activity-coefficient models are normalised, consistent and side-effect free."""
import random

from harness import core, par, replayjob, tlc
from harness.drivers import activity as da

ASSUME = [
    'TLC 1.8 evaluates the specification correctly',
    'the group-contribution formula is an uninterpreted function in the model (the model checks the gather / normalise / scatter plumbing and the '
    'instance cache); on real objects normalisation, Gibbs-Duhem (central difference, h = 1e-5, relative tolerance 1e-4), position independence (1e-8), '
    'agreement of the functional form with the object call (1e-8) are measured in floating point and judged from the logged integers',
    'chemicals with groups: Water, Ethanol, Octane, Butanol, EthylAcetate, Acetone, Toluene; without: NaCl, CaO, N2; NIST-modified UNIFAC has no group '
    'assignments in the bundled data (every chemical gets exactly one, which is what C16 demands for chemicals without group data)',
]

MC_TEMPLATE = '''---- MODULE %(name)s ----
EXTENDS Activity
c_Chems == {"A", "B", "N"}
c_Grouped == {"A", "B"}
c_Dev == {%(dev)s}
Depth == TLCGet("level") <= 3
====
'''
MC_CFG = '''SPECIFICATION Spec
CONSTANTS
  Chems <- c_Chems
  Grouped <- c_Grouped
  Weights = {1, 2}
  Deviations <- c_Dev
  Ops = {"eval"}
  UnitTol = 0
  PureTol = 0
  GDTol = 0
  PermTol = 0
  FormTol = 0
VIEW view
INVARIANT CallerUntouched
INVARIANT PositionFree
CONSTRAINT Depth
CHECK_DEADLOCK FALSE
'''

RULE = ' Counting: evaluations = every executed call; distinct_nontrivial = distinct (operation, arguments, state before the call) among the calls that were judged, i.e. in contract, not state shaping and (where the property says so) returned normally.'


def key_of(step, clause):
    a = step['a']
    return 'Activity:%s:model=%s,kind=%s:%s' % (step['op'], a.get('model', '-'), a.get('kind', '-'), clause)


def eval_case(seed, k):
    rng = random.Random(seed)
    out = []
    model = rng.choice(['UNIFAC', 'UNIFAC', 'Dortmund', 'Dortmund', 'NIST', 'Ideal'])
    n = rng.randint(2, 6)
    n_plain = rng.choice([0, 0, 1, 2]) if n > 2 else 0
    ids = rng.sample(da.GROUPED, n - n_plain) + rng.sample(da.PLAIN, n_plain)
    rng.shuffle(ids)
    kind = rng.choice(['interior', 'interior', 'interior', 'vertex', 'near', 'trace', 'edge'])
    x = da.random_x(rng, n, kind)
    T = rng.uniform(250, 450)
    perm = list(range(n))
    while perm == list(range(n)):
        rng.shuffle(perm)
    obs = da.evaluate(model, ids, x, T, perm, [rng.uniform(-1, 1) for _ in range(n)])
    out.append(dict(op='eval', a=dict(model=model, ids=ids, kind=kind, T=int(T * 1000), x9=[int(round(v * 1e9)) for v in x], perm=perm), post=dict(n=0), obs=obs,
                    job=[seed, k]))
    if k % 10 == 0:
        obs = da.ideal_models(ids, x, T, rng.choice([101325., 1e6]))
        out.append(dict(op='ideal', a=dict(model='ideal', ids=ids, kind=kind), post=dict(n=0), obs=obs, job=[seed, k]))
    return out


def replay_eval(seed, k):
    steps = []
    for s in eval_case(seed, k):
        s = dict(s)
        s.pop('job', None)
        steps.append(s)
    return dict(id='G0', mode='fan', init=dict(n=0), steps=steps)


def run(ctx):
    rng = random.Random(ctx.seed)
    quick = ctx.quick
    files = {'MC_Activity.tla': MC_TEMPLATE % dict(name='MC_Activity', dev=''), 'MC_Activity.cfg': MC_CFG}
    r, _ = tlc.model_check('MC_Activity.tla', 'MC_Activity.cfg', coverage=False, files=files, timeout=3000)
    if r.violated:
        ctx.violation('Activity:MC:%s' % r.violated, 'plumbing model violates %s' % r.violated, dict(kind='mc', counterexample=r.counterexample()[:5000]))
    elif not r.ok:
        raise tlc.MachineryError(r.out[-3000:])
    ctx.note('MC Activity: %d distinct states, %d transitions' % (r.distinct, r.generated))
    guards = []
    for dev in ('"gather_writes_caller"', '"unordered_cache_key"'):
        files = {'MC_ActivityDev.tla': MC_TEMPLATE % dict(name='MC_ActivityDev', dev=dev), 'MC_ActivityDev.cfg': MC_CFG}
        rd, _ = tlc.model_check('MC_ActivityDev.tla', 'MC_ActivityDev.cfg', coverage=False, files=files, timeout=3000)
        if rd.violated not in ('CallerUntouched', 'PositionFree'):
            raise tlc.MachineryError('deviation %s should violate an invariant (vacuity guard), got %r' % (dev, rd.violated))
        guards.append('%s -> %s' % (dev.strip('"'), rd.violated))
    steps = [s for lst in par.pmap(eval_case, [('%d:e%d' % (ctx.seed, k), k) for k in range(400 if quick else 12000)]) for s in lst]
    per = 50
    traces = [dict(id='G%d' % i, mode='fan', init=dict(n=0), steps=steps[i * per:(i + 1) * per]) for i in range((len(steps) + per - 1) // per)]
    defs, cfgc = da.tla_constants()
    cases = []
    v = tlc.validate_traces('Activity', defs, cfgc, traces, procs=16)
    n_ok = 0
    per_model = {}
    for t in traces:
        x = v[t['id']]
        bad = dict(x['stepfail'])
        for l, s in enumerate(t['steps'], 1):
            cases.append((True, [s['op'], s['a']]))
            if l in bad:
                ctx.violation(key_of(s, bad[l]), '%s %r: %s obs=%r' % (s['op'], s['a'], bad[l], s['obs']),
                              dict(kind='job', func='replay_eval', args=s['job'], clause=bad[l]))
            else:
                n_ok += 1
                m = s['a'].get('model')
                per_model[m] = per_model.get(m, 0) + 1
    cov = dict(states=r.distinct, transitions=r.generated, traces_validated_against_impl=len(traces), steps_validated_in_contract=n_ok,
               accepted_evaluations_per_model=per_model, vacuity_guards=guards, exhaustive=False, mc_exhaustive_for_cfg=True,
               samples=[dict(a=steps[0]['a'])],
               rule='MC: all pairs of evaluations over every order of every subset (2-3 of 3 chemicals, one without groups) and compositions with weights 1 / 2: '
                    'caller\'s array untouched, result per chemical independent of position, instance cache keyed by the ordered tuple (two deviations shown to fail). '
                    'Real objects: random sets of 2-6 chemicals (0-2 without groups), interior / vertex / near-vertex / trace / edge compositions, 250-450 K, UNIFAC, '
                    'Dortmund, NIST, ideal: side effects, ones for chemicals without groups, functional form vs object, permutation, pure limit, Gibbs-Duhem; ideal '
                    'activity / fugacity / Poynting objects return exactly one')
    cov.update(core.case_stats(cases))
    cov['rule'] += RULE
    return 'exploration', cov, ASSUME


def replay(ctx, data):
    return replayjob.run('C16', data, dict(replay_eval=replay_eval), 'Activity', da.tla_constants())
