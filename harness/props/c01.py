"""C01 - mixing, splitting and separating streams conserves every chemical."""
from harness.props import streams_common as sc

FOCUS = ['mix_from', 'split_to', 'separate_out', 'copy_flow', 'scale', 'empty']
SHAPING = ['set_flow', 'set_flow', 'set_phases', 'set_P', 'set_T', 'set_phase']
MC = dict(names=3, ops='c_OpsC01', phasesets='c_PhaseSets', depth='Depth5', depth_quick='Depth4')


def run(ctx):
    return sc.run(ctx, 'C01', MC, FOCUS, SHAPING)


def replay(ctx, data):
    return sc.replay(ctx, data, 'C01')
