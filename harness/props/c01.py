"""C01 - mixing, splitting and separating streams conserves every chemical."""
from harness.props import streams_common as sc

FOCUS = ['mix_from', 'split_to', 'separate_out', 'copy_flow', 'copy_flow_multi', 'scale', 'empty']
SHAPING = ['set_flow', 'set_flow', 'set_phases', 'set_P', 'set_T', 'set_phase']
MC = dict(names=3, ops='c_OpsC01', phasesets='c_PhaseSets', depth='Depth5', depth_quick='Depth4')


def alias_paths(rng, n):
    """Directed schedules: the receiver's flow data appears among the inlets through other stream objects (flow proxies, proxies,
    links), once or several times, together with inlets of its own."""
    out = []
    for _ in range(n):
        x, y, w = rng.sample(['a', 'b', 'e'], 3)  # same package
        z = rng.choice(['c', w, w])                 # another package (other chemical order) or the same one
        ops = [('construct', dict(x=x, k=rng.choice(['s', 's', 'm']), price=0, cf=0)), ('construct', dict(x=z, k='s', price=0, cf=0))]
        ph = 'l'
        ops += [('set_flow', dict(x=x, p=ph, c=1, v=4 * rng.randint(1, 4))), ('set_flow', dict(x=x, p=ph, c=2, v=4 * rng.randint(0, 3))),
                ('set_flow', dict(x=z, p='l', c=1, v=4 * rng.randint(1, 4))), ('set_flow', dict(x=z, p='l', c=2, v=4 * rng.randint(0, 2)))]
        how = rng.choice(['flow_proxy', 'proxy', 'link'])
        if how == 'link':
            ops += [('construct', dict(x=y, k='s', price=0, cf=0)), ('link_with', dict(d=y, x=x, flow=True, phase=True, TP=rng.random() < 0.5))]
        else:
            ops.append((how, dict(d=y, x=x)))
        r = rng.choice([x, y])
        ins = rng.choice([[y, y, z], [x, y, z], [y, z, y], [y, x], [y, y], [z, y, x, y], [y]])
        ops.append(('mix_from', dict(r=r, ins=ins, eb=False)))
        if rng.random() < 0.5:
            ops.append(('split_to', dict(x=r, y=z, z=z if False else rng.choice([x, y]), q=[[1, 2]], eb=False, scalar=True)))
        ops.append(('separate_out', dict(x=r, y=z)))
        out.append([dict(op=o, a=a) for o, a in ops])
    return out


def run(ctx):
    return sc.run(ctx, 'C01', MC, FOCUS, SHAPING, extra_paths=alias_paths, extra_universe='big')


def replay(ctx, data):
    return sc.replay(ctx, data, 'C01')
