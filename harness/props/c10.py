"""C10 - name-keyed flow access equals positional access, independent of lookup history."""
import random

from harness import tlc
from harness.drivers import indexer as di

ASSUME = [
    'TLC 1.8 evaluates the specification correctly',
    'trace validation constrains only returned values, raised exception classes and the flow data (never the caches)',
    'flows are small integers and group compositions dyadic, so every expected value is exact',
    'tuples naming the same position twice are outside the contract for writes',
]


def model_inputs(universe):
    W, E, M = universe['chems'][:3]
    cw, ce = di.cas_of(universe, W), di.cas_of(universe, E)
    g = sorted(universe['groups'])[0]
    alias = sorted(universe['aliases'])[0]
    keys = [dict(k='name', n=W), dict(k='name', n=alias), dict(k='name', n=ce), dict(k='name', n=g),
            dict(k='tuple', ns=[W, E]), dict(k='tuple', ns=[E, W]), dict(k='tuple', ns=[W, g]),
            dict(k='tuple', ns=[cw, ce]), dict(k='tuple', ns=[ce]), dict(k='all')]
    cas = [[cw, ce], [ce]]
    return keys, cas


def key_of(step, clause):
    a = step['a']
    if step['op'] == 'overlap':
        return 'Indexer:overlap:%s' % clause
    k = a['key']
    p = k['p'] if k['p'] in ('sum', 'all', 'nophase') else 'phase'
    v = ''
    if step['op'] == 'set':
        v = ':v%dd' % a['v']['nd']
    return 'Indexer:%s:%s:%s%s:%s' % (step['op'], p, k['c']['k'], v, clause)


def run_random(universe, rng, n, length, prefix, max_len):
    traces = []
    for k in range(n):
        w = di.World(universe)
        init = w.project()
        steps = []
        maxc = dict(cacheC=0, cacheM=0)
        for _ in range(length):
            op, a = di.random_op(universe, rng, max_len)
            obs = w.apply(op, a)
            for c in maxc:
                maxc[c] = max(maxc[c], obs['cache_sizes'][c])
            steps.append(dict(op=op, a=a, post=w.project(), obs=obs))
        traces.append(dict(id='%s%d' % (prefix, k), mode='seq', init=init, steps=steps, maxc=maxc))
    return traces


def run_steps(universe, states, rng, n_ops, prefix):
    traces = []
    for k, st in enumerate(states):
        steps = []
        for _ in range(n_ops):
            op, a = di.random_op(universe, rng, 3)
            w = di.World(universe)
            w.set_state(st)
            obs = w.apply(op, a)
            steps.append(dict(op=op, a=a, post=w.project(), obs=obs))
        traces.append(dict(id='%s%d' % (prefix, k), mode='fan', init=dict(data=st['data'], cacheC=[], cacheM=[]), steps=steps))
    return traces


def run_paths(universe, paths, prefix):
    traces = []
    for k, path in enumerate(paths):
        w = di.World(universe)
        init = w.project()
        steps = []
        for e in path:
            obs = w.apply(e['op'], e['a'])
            steps.append(dict(op=e['op'], a=e['a'], post=w.project(), obs=obs))
        traces.append(dict(id='%s%d' % (prefix, k), mode='seq', init=init, steps=steps))
    return traces


def judge(ctx, traces, verdicts, stats):
    for t in traces:
        v = verdicts[t['id']]
        fails = list(v['stepfail'])
        ooc = set(v['stepooc'])
        if t['mode'] == 'seq':
            n_ok = v['l'] - 1 if v['code'] in ('rejected', 'ooc') else len(t['steps'])
            if v['code'] == 'rejected':
                fails.append((v['l'], v['clause']))
            if v['code'] == 'ooc':
                stats['truncated'] += 1
        else:
            n_ok = len(t['steps'])
        stats['ooc'] += len([i for i in ooc if i <= n_ok])
        stats['ok'] += n_ok - len([i for i in ooc if i <= n_ok])
        for l, clause in fails:
            s = t['steps'][l - 1]
            ctx.violation(key_of(s, clause), 'step %d %s %r: %s (exc=%s res=%r)' % (l, s['op'], s['a'], clause, s['obs']['exc'], s['obs']['res']),
                          dict(kind='trace', universe=t.get('uname'), init=t['init'], steps=[dict(op=x['op'], a=x['a']) for x in t['steps'][:l]],
                               clause=clause))


def run(ctx):
    rng = random.Random(ctx.seed)
    quick = ctx.quick
    stats = dict(ok=0, ooc=0, truncated=0)
    uni = di.UNIVERSES['mc']
    uniq = di.UNIVERSES['mcq']
    keys, cas = model_inputs(uni)
    if quick:
        ckeys, ccas = keys[:2] + keys[4:5] + keys[7:8] + keys[9:], cas[:1]
    else:
        ckeys, ccas = keys[:2] + keys[4:8] + keys[9:], cas
    mc_runs = []
    # 1a. cache machine (as the code implements it): every history of lookups / cross-package resolutions
    f = di.mc_files(uniq, 'MC_Indexer_cache', ['InvCoherent', 'InvBounded', 'InvResult', 'TypeOK'], capc=2, capm=3, trimm=1,
                    model_keys=ckeys, cas_tuples=ccas, values=[0], ops=['get', 'overlap'])
    r, states_c = tlc.model_check('MC_Indexer_cache.tla', 'MC_Indexer_cache.cfg', dump=True, coverage=False, files=f, timeout=3000)
    if r.violated:
        ctx.violation('Indexer:MC:cache:%s' % r.violated, 'cache model violates %s' % r.violated,
                      dict(kind='mc', counterexample=r.counterexample()[:6000]))
    elif not r.ok:
        raise tlc.MachineryError(r.out[-3000:])
    mc_runs.append(['cache machine CapC=2 CapM=3 TrimM=1', r.distinct, r.generated, r.depth])
    ctx.note('MC cache machine: %d states, %d transitions, depth %d' % (r.distinct, r.generated, r.depth))
    witness = sorted((s['path'] for s in states_c if s.get('path')), key=repr)
    # 1b. the same machine with the defect of the original code switched on must FAIL (non-vacuity of the invariants)
    f = di.mc_files(uniq, 'MC_Indexer_dev', ['InvCoherent'], capc=2, capm=3, trimm=1, deviations=['overlap_kind0'],
                    model_keys=ckeys, cas_tuples=ccas, values=[0], ops=['get', 'overlap'])
    rd, _ = tlc.model_check('MC_Indexer_dev.tla', 'MC_Indexer_dev.cfg', coverage=False, files=f, timeout=3000)
    if rd.violated != 'InvCoherent':
        raise tlc.MachineryError('deviation overlap_kind0 should violate InvCoherent (vacuity guard): %r' % rd.violated)
    # 1c. data machine: reads/writes through every key form, caches switched off
    uni1 = di.UNIVERSES['mc']
    f = di.mc_files(uni1, 'MC_Indexer_data', ['TypeOK'], capc=0, capm=0, trimm=1, model_keys=keys[:7] + keys[9:], cas_tuples=[],
                    values=[0, 4], ops=['get', 'set'])
    r2, states_d = tlc.model_check('MC_Indexer_data.tla', 'MC_Indexer_data.cfg', dump=True, coverage=False, files=f, timeout=3000)
    if r2.violated or not r2.ok:
        raise tlc.MachineryError(r2.out[-3000:])
    mc_runs.append(['data machine', r2.distinct, r2.generated, r2.depth])
    ctx.note('MC data machine: %d states, %d transitions' % (r2.distinct, r2.generated))
    states_d = sorted(({'data': s['data']} for s in states_d), key=repr)
    groups = []
    # 2. witness paths of the cache machine replayed on the real indexer (evictions happen constantly in the model;
    #    on the real object the same histories are lookups with results to validate)
    wsample = witness if not quick else rng.sample(witness, min(200, len(witness)))
    groups.append((uniq, run_paths(uniq, wsample, 'W')))
    # 3. STEP at dumped data states (multi- and single-phase indexers)
    sample = states_d if not quick else rng.sample(states_d, min(40, len(states_d)))
    groups.append((uni, run_steps(uni, sample, rng, 25 if quick else 60, 'S')))
    # 4. SIM with the real capacities: thousands of distinct keys per indexer
    big, big1 = di.UNIVERSES['big'], di.UNIVERSES['big1']
    long_traces = run_random(big, rng, 2 if quick else 12, 1500 if quick else 5000, 'L', 6)
    long1 = run_random(big1, rng, 1 if quick else 8, 1500 if quick else 5000, 'K', 6)
    groups.append((big, long_traces))
    groups.append((big1, long1))
    groups.append((big, run_random(big, rng, 20 if quick else 300, 40, 'R', 4)))
    n_tr = 0
    for u, traces in groups:
        defs, cfgc = di.tla_constants(u)
        for t in traces:
            t['uname'] = [k for k, v_ in di.UNIVERSES.items() if v_ is u][0]
        v = tlc.validate_traces('Indexer', defs, cfgc, [{k: t[k] for k in ('id', 'mode', 'init', 'steps')} for t in traces], procs=16)
        judge(ctx, traces, v, stats)
        n_tr += len(traces)
    maxc = dict(cacheC=max(t['maxc']['cacheC'] for t in long_traces + long1), cacheM=max(t['maxc']['cacheM'] for t in long_traces))
    cov = dict(states=sum(m[1] for m in mc_runs), transitions=sum(m[2] for m in mc_runs), model_runs=mc_runs,
               traces_validated_against_impl=n_tr, steps_validated_in_contract=stats['ok'],
               steps_out_of_contract_ignored=stats['ooc'], traces_truncated_out_of_contract=stats['truncated'],
               largest_real_cache_sizes_seen=maxc, real_cache_limits=dict(cacheC=100, cacheM=500),
               vacuity_guard='model with deviation overlap_kind0 violates InvCoherent as expected',
               exhaustive=False, mc_exhaustive_for_cfg=True,
               samples=[dict(ops=[[s['op'], s['a']] for s in long_traces[0]['steps'][:5]])],
               rule='MC: every history of lookups / cross-package resolutions over 10 keys x 3 phase forms with tiny cache capacities; '
                    'SIM: random histories of 1500-5000 lookups/writes with tuples of every order and length up to 6 over 8 chemicals, '
                    '3 aliases, 2 groups so that the real 100- and 500-entry caches are filled and evicted; every step validated by TLC')
    return 'model_checking', cov, ASSUME


def replay(ctx, data):
    rp = data.get('replay') or {}
    if rp.get('kind') != 'trace':
        print(rp.get('counterexample', '# nothing executable'))
        return 1
    uni = di.UNIVERSES[rp['universe']]
    w = di.World(uni)
    w.set_state(rp['init'])
    steps = []
    for s in rp['steps']:
        obs = w.apply(s['op'], s['a'])
        steps.append(dict(op=s['op'], a=s['a'], post=w.project(), obs=obs))
    s = steps[-1]
    print('# last step %s %r -> %r' % (s['op'], s['a'], s['obs']))
    defs, cfgc = di.tla_constants(uni)
    v = tlc.validate_traces('Indexer', defs, cfgc, [dict(id='R0', mode='seq', init=rp['init'], steps=steps)], procs=1)['R0']
    print('# verdict: %r' % (v,))
    if v['code'] == 'rejected':
        print('VIOLATION property=C10 replay=%s' % data.get('_path', ''))
        return 1
    return 0
