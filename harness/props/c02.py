"""C02 - stream energy balance: enthalpy is conserved and invertible in temperature."""
import random

from harness import par, replayjob, tlc
from harness.drivers import energy as de

ASSUME = [
    'TLC 1.8 evaluates the specification correctly',
    'enthalpies are read through the library itself (its consistency is the subject of C07/C14) and compared in fixed point of 0.01 kJ/hr; '
    'the allowed deviation is C_flow x 1e-5 K (solver temperature resolution) + 2 units + 1e-9 relative',
    'real chemicals Water / Ethanol / Propanol / N2, liquid, gas and two-phase inlets at 290-450 K and 5e4-1e6 Pa; assignment targets are the '
    'stream\'s own H / S at a temperature drawn from 250-500 K (in contract) or 150-700 K (out of contract unless inside); the phase-changing fallback of the setters is not driven deliberately',
]


def key_of(step, clause, pre):
    a = step['a']
    extra = ''
    if step['op'] == 'mix':
        ne = [i for i in a['ins'] if not pre['E'][i]]
        extra = 'n=%d,Q=%s,self=%s' % (len(ne), 'yes' if a['Q'] else 'no', a['r'] in a['ins'])
    else:
        extra = step['obs'].get('cls', '')
    return 'Energy:%s:%s:%s' % (step['op'], extra, clause)


def world_history(seed, k):
    """one world: random contents in four slots, 14 operations; state-shaping steps split the history into traces"""
    rng = random.Random(seed)
    traces = []
    w = de.World()
    for n in w.names:
        w.feed(n, rng)
    init = w.project()
    steps = []
    last_mix = None
    seg = 0
    for _ in range(14):
        u = rng.random()
        if u < 0.2:
            # state shaping (not judged): re-feed a slot, or make one slot a part of another and separate it out next;
            # the history continues as a new trace from the logged state
            if steps:
                traces.append(dict(id='E%d_%d' % (k, seg), mode='seq', init=init, steps=steps))
                seg += 1
            x, y = rng.sample(w.names, 2)
            relabel = u < 0.04 and w.relabel(x)
            part = not relabel and u < 0.12 and w.feed_part(y, x, rng)
            if not part and not relabel:
                w.feed(x, rng)
            init, steps, last_mix = w.project(), [], None
            if relabel:
                # the slot's phase was switched at unchanged T, P and flows after its enthalpy had been read: assigning the
                # enthalpy it has now must leave the temperature where it is
                op = rng.choice(['set_same_H', 'set_same_H', 'set_same_h'])
                obs = w.apply(op, dict(x=x))
                steps.append(dict(op=op, a=dict(x=x), post=w.project(), obs=obs))
            if part:
                a = dict(x=x, y=y, reach=w.sep_reach(x, y))
                obs = w.apply('separate', a)
                steps.append(dict(op='separate', a=a, post=w.project(), obs=obs))
            continue
        op, a = de.random_op(rng, w, last_mix=last_mix)
        last_mix = (a['r'], a['ins']) if op == 'mix' and a['r'] not in a['ins'] else None
        obs = w.apply(op, a)
        steps.append(dict(op=op, a=a, post=w.project(), obs=obs))
    if steps:
        traces.append(dict(id='E%d_%d' % (k, seg), mode='seq', init=init, steps=steps))
    return traces


def run(ctx):
    rng = random.Random(ctx.seed)
    quick = ctx.quick
    r, _ = tlc.model_check('MC_Energy.tla', 'MC_Energy.cfg', coverage=False, timeout=3000)
    if r.violated:
        ctx.violation('Energy:MC:%s' % r.violated, 'ledger model violates %s' % r.violated, dict(kind='mc', counterexample=r.counterexample()[:5000]))
    elif not r.ok:
        raise tlc.MachineryError(r.out[-3000:])
    ctx.note('MC Energy ledger: %d distinct states, %d transitions' % (r.distinct, r.generated))
    traces = [tr for lst in par.pmap(world_history, [('%d:%d' % (ctx.seed, k), k) for k in range(120 if quick else 3000)]) for tr in lst]
    defs, cfgc = de.tla_constants()
    stats = dict(ok=0, ooc=0, ops={})
    todo = traces
    n_traces = 0
    while todo:
        # a rejected step ends the judgement of its trace: the rest of the history is validated as a trace of its own
        v = tlc.validate_traces('Energy', defs, cfgc, todo, procs=16)
        n_traces += len(todo)
        nxt = []
        for t in todo:
            x = v[t['id']]
            n_ok = x['l'] - 1 if x['code'] in ('rejected', 'ooc') else len(t['steps'])
            ooc = set(x['stepooc'])
            for i, s in enumerate(t['steps'][:n_ok], 1):
                if i in ooc:
                    stats['ooc'] += 1
                else:
                    stats['ok'] += 1
                    stats['ops'][s['op']] = stats['ops'].get(s['op'], 0) + 1
            if x['code'] == 'rejected':
                s = t['steps'][x['l'] - 1]
                pre = t['steps'][x['l'] - 2]['post'] if x['l'] > 1 else t['init']
                ctx.violation(key_of(s, x['clause'], pre), '%s %r: %s pre=%r post=%r obs=%r' % (s['op'], s['a'], x['clause'], pre, s['post'], s['obs']),
                              dict(replayjob.job(world_history, ['%d:%s' % (ctx.seed, t['id'].split('_')[0][1:]), int(t['id'].split('_')[0][1:])], t['id']), clause=x['clause']))
                if t['steps'][x['l']:]:
                    nxt.append(dict(id=t['id'] + 'c', mode='seq', init=s['post'], steps=t['steps'][x['l']:]))
        todo = nxt
    cov = dict(states=r.distinct, transitions=r.generated, traces_validated_against_impl=n_traces,
               steps_validated_in_contract=stats['ok'], steps_out_of_contract_ignored=stats['ooc'], per_operation_in_contract_steps=stats['ops'],
               exhaustive=False, mc_exhaustive_for_cfg=True,
               samples=[dict(init=traces[0]['init'], ops=[[s['op'], s['a']] for s in traces[0]['steps'][:5]])],
               rule='MC: all sequences (depth 5) of feeding, mixing (any inlet multiset incl. the receiver, heat -3/0/4), separating and enthalpy assignment over 3 '
                    'streams with small integer enthalpies; ledger invariant and minimum-pressure property. Real streams: random liquid / gas / N2 / two-phase '
                    'contents, histories of up to 12 energy-balanced mixes, separations, H / h / S assignments; TLC checks each balance in fixed point')
    return 'model_checking', cov, ASSUME


def replay(ctx, data):
    return replayjob.run('C02', data, dict(world_history=world_history), 'Energy', de.tla_constants())
