"""C14 - every derived stream property reflects the current state, never a stale one."""
import random

from harness import tlc
from harness.drivers import streams as ds
from harness.props import streams_common as sc

ASSUME = sc.ASSUME + [
    'a property value is compared with the value read from a freshly created stream with the same flows, phases, T, P '
    '(relative tolerance 1e-9: only summation order may differ)',
]

MUTATORS = ['set_T', 'set_P', 'set_flow', 'set_flow', 'scale', 'set_phase', 'set_phases', 'mix_from', 'copy_like', 'link_with',
            'proxy', 'flow_proxy', 'unlink', 'view_write', 'view_set_T', 'split_to', 'separate_out', 'copy_flow', 'reduce_phases', 'restore', 'save', 'reset_thermo', 'reset_thermo', 'reassign']

MC_TEMPLATE = '''---- MODULE %(name)s ----
EXTENDS PropCache
c_Names == {"a", "b"}
c_Dev == {%(dev)s}
c_Ops == {"read", "set_T", "set_phase", "set_comp", "scale", "proxy", "link"}
Depth == TLCGet("level") <= %(depth)d
====
'''
MC_CFG = '''SPECIFICATION Spec
CONSTANTS
  Names <- c_Names
  Temps = {300, 350}
  PhasesC = {"l", "g"}
  Comps = {"c1", "c2"}
  Totals = {1, 2}
  Props = {"H", "V", "sigma"}
  NoPhaseProps = {"sigma"}
  Deviations <- c_Dev
  Ops <- c_Ops
VIEW view
INVARIANT Fresh
INVARIANT MemoSound
CONSTRAINT Depth
CHECK_DEADLOCK FALSE
'''

COMP = {'c1': (4, 4), 'c2': (4, 8)}


def to_driver_ops(path):
    """Translate a PropCache behaviour into operations of the streams driver (universe mc2)."""
    state = {n: dict(comp='c1', total=1) for n in ('a', 'b')}
    cell = {'a': 'a', 'b': 'b'}
    ops = []
    for n in ('a', 'b'):
        ops.append(('set_flow', dict(x=n, p='l', c=1, v=4)))
        ops.append(('set_flow', dict(x=n, p='l', c=2, v=4)))
    phase = {'a': 'l', 'b': 'l'}
    for e in path:
        op, a = e['op'], e['a']
        if op == 'read':
            ops.append(('read', dict(x=a['x'], prop=a['p'])))
        elif op == 'set_T':
            ops.append(('set_T', dict(x=a['x'], T=a['v'])))
        elif op == 'set_phase':
            ops.append(('set_phase', dict(x=a['x'], p=a['v'])))
            phase[cell[a['x']]] = a['v']
        elif op == 'set_comp':
            st = state[cell[a['x']]]
            st['comp'] = a['v']
            w, et = COMP[a['v']]
            ph = phase[cell[a['x']]]
            ops.append(('set_flow', dict(x=a['x'], p=ph, c=1, v=w * st['total'])))
            ops.append(('set_flow', dict(x=a['x'], p=ph, c=2, v=et * st['total'])))
        elif op == 'scale':
            st = state[cell[a['x']]]
            ops.append(('scale', dict(x=a['x'], q=[a['v'], st['total']])))
            st['total'] = a['v']
        elif op == 'proxy':
            ops.append(('proxy', dict(d=a['d'], x=a['x'])))
            cell[a['d']] = cell[a['x']]
        elif op == 'link':
            ops.append(('link_with', dict(d=a['d'], x=a['x'], flow=True, phase=True, TP=True)))
            cell[a['d']] = cell[a['x']]
    return [dict(op=o, a=a) for o, a in ops]


def aba_paths(rng, n):
    """Directed schedules for stale-cache (A-B-A) defects on universe mc3: read, change the state through one
    handle, read, change it back, read through another handle of the same state (proxy / link / flow proxy /
    the stream itself)."""
    out = []
    for _ in range(n // 3):
        # multi-phase stream: redistribute material between phases with unchanged per-chemical totals, T, P
        x = rng.choice(['a', 'b'])
        props = rng.sample(ds.PROPS, 3)
        w, e = rng.choice([8, 12]), rng.choice([8, 12])
        ops = [('construct', dict(x=x, k='m', price=0, cf=0)), ('set_flow', dict(x=x, p='l', c=1, v=w)), ('set_flow', dict(x=x, p='g', c=2, v=e)),
               ('set_T', dict(x=x, T=350))]
        ops += [('read', dict(x=x, prop=p)) for p in props]
        via_view = rng.random() < 0.5
        wr = 'view_write' if via_view else 'set_flow'
        if rng.random() < 0.4:
            # the WHOLE content of one phase moves into the other (the liquid row ends up empty)
            ops += [(wr, dict(x=x, p='l', c=1, v=0)), (wr, dict(x=x, p='g', c=1, v=w))]
        else:
            ops += [(wr, dict(x=x, p='l', c=1, v=w - 4)), (wr, dict(x=x, p='g', c=1, v=4))]
        ops += [('read', dict(x=x, prop=p)) for p in props]
        if rng.random() < 0.5:
            ops += [('reset_thermo', dict(x=x, pkg=rng.choice(['P2', 'P3'])))] + [('read', dict(x=x, prop=p)) for p in props]
        out.append([dict(op=o, a=a) for o, a in ops])
    for _ in range(n // 8):
        # a read that RAISES after a state change (gas viscosity at 250 K has no model; the caller catches the error) must not leave
        # the values of the previous state behind for the reads that follow
        x = rng.choice(['a', 'b'])
        props = rng.sample([p for p in ds.PROPS if p not in ('mu', 'nu', 'Pr')], 3)
        ops = [('construct', dict(x=x, k=rng.choice(['s', 'm']), price=0, cf=0)), ('set_flow', dict(x=x, p='l', c=1, v=4)), ('set_flow', dict(x=x, p='l', c=2, v=8))]
        if ops[0][1]['k'] == 's':
            ops.append(('set_phase', dict(x=x, p='g')))
        else:
            ops += [('set_flow', dict(x=x, p='g', c=1, v=4)), ('set_flow', dict(x=x, p='l', c=1, v=0)), ('set_flow', dict(x=x, p='g', c=2, v=8)), ('set_flow', dict(x=x, p='l', c=2, v=0))]
        ops.append(('set_T', dict(x=x, T=350)))
        ops += [('read', dict(x=x, prop=p)) for p in props]
        ops.append(('set_T', dict(x=x, T=250)))
        ops.append(('read', dict(x=x, prop=rng.choice(['mu', 'nu', 'Pr']))))
        ops += [('read', dict(x=x, prop=p)) for p in props]
        out.append([dict(op=o, a=a) for o, a in ops])
    for _ in range(n // 6):
        # everything a multi-phase stream holds moves from one phase into the (empty) other one, chemical by chemical
        x = rng.choice(['a', 'b'])
        props = rng.sample(ds.PROPS, 3)
        w, e = rng.choice([8, 12]), rng.choice([4, 8])
        src, dst = rng.choice([('l', 'g'), ('g', 'l')])
        wr = rng.choice(['view_write', 'set_flow'])
        ops = [('construct', dict(x=x, k='m', price=0, cf=0)), ('set_flow', dict(x=x, p=src, c=1, v=w)), ('set_flow', dict(x=x, p=src, c=2, v=e)), ('set_T', dict(x=x, T=350))]
        ops += [('read', dict(x=x, prop=p)) for p in props]
        ops += [(wr, dict(x=x, p=dst, c=1, v=w)), (wr, dict(x=x, p=src, c=1, v=0)), (wr, dict(x=x, p=dst, c=2, v=e)), (wr, dict(x=x, p=src, c=2, v=0))]
        ops += [('read', dict(x=x, prop=p)) for p in props]
        out.append([dict(op=o, a=a) for o, a in ops])
    for _ in range(n // 6):
        # property-package change between reads (same chemicals at the same positions, other models)
        x = rng.choice(['a', 'b'])
        props = rng.sample(ds.PROPS, 4)
        ops = [('construct', dict(x=x, k='s', price=0, cf=0)), ('set_flow', dict(x=x, p='l', c=1, v=4)), ('set_flow', dict(x=x, p='l', c=2, v=8))]
        ops += [('read', dict(x=x, prop=p)) for p in props] + [('reset_thermo', dict(x=x, pkg=rng.choice(['P2', 'P3', 'P3'])))] + [('read', dict(x=x, prop=p)) for p in props]
        ops += [('reset_thermo', dict(x=x, pkg='P'))] + [('read', dict(x=x, prop=p)) for p in props]
        out.append([dict(op=o, a=a) for o, a in ops])
    for _ in range(n // 6):
        # the enthalpy / entropy the stream already has is assigned again (the temperature solve runs and must leave nothing behind
        # on the package), then the state changes and is read - on this stream or on another stream of the same package
        x, y = rng.sample(['a', 'b'], 2)
        pkg = rng.choice(['P3', 'P3', 'P'])
        props = ['H', 'S'] + rng.sample(ds.PROPS, 2)
        ops = []
        for n_ in (x, y):
            ops += [('construct', dict(x=n_, k='s', price=0, cf=0)), ('set_flow', dict(x=n_, p='l', c=1, v=8)), ('set_flow', dict(x=n_, p='l', c=2, v=4)),
                    ('reset_thermo', dict(x=n_, pkg=pkg)), ('set_phase', dict(x=n_, p='g')), ('set_T', dict(x=n_, T=350))]
        if rng.random() < 0.5:
            ops += [('read', dict(x=x, prop=p)) for p in props]
        if rng.random() < 0.5:
            # a chemical is taken out and put back (the sparse flow vector then lists the chemicals in another order)
            ops += [('set_flow', dict(x=x, p='g', c=1, v=0)), ('set_flow', dict(x=x, p='g', c=1, v=8))]
        ops.append(('reassign', dict(x=x, q=rng.choice(['S', 'S', 'H']))))
        z = rng.choice([x, y])
        ops.append(rng.choice([('set_P', dict(x=z, P=200)), ('set_flow', dict(x=z, p='g', c=2, v=12)), ('set_P', dict(x=z, P=50))]))
        ops += [('read', dict(x=z, prop=p)) for p in props]
        out.append([dict(op=o, a=a) for o, a in ops])
    for _ in range(n):
        x, y = rng.sample(['a', 'b'], 2)
        ops = [('construct', dict(x=x, k='s', price=0, cf=0)), ('set_flow', dict(x=x, p='l', c=1, v=8)), ('set_flow', dict(x=x, p='l', c=2, v=4))]
        how = rng.choice(['proxy', 'flow_proxy', 'link', 'self', 'link_flow'])
        pre_read = rng.random() < 0.7
        props = rng.sample(ds.PROPS, 3)
        if pre_read:
            ops += [('read', dict(x=x, prop=p)) for p in props]
        if how == 'proxy':
            ops.append(('proxy', dict(d=y, x=x)))
        elif how == 'flow_proxy':
            ops.append(('flow_proxy', dict(d=y, x=x)))
        elif how == 'link':
            ops += [('construct', dict(x=y, k='s', price=0, cf=0)), ('link_with', dict(d=y, x=x, flow=True, phase=True, TP=True))]
        elif how == 'link_flow':
            ops += [('construct', dict(x=y, k='s', price=0, cf=0)), ('link_with', dict(d=y, x=x, flow=True, phase=False, TP=False))]
        else:
            y = x
        if not pre_read or rng.random() < 0.5:
            ops += [('read', dict(x=rng.choice([x, y]), prop=p)) for p in props]
        kind = rng.choice(['T', 'P', 'phase', 'flow', 'scale'])
        h1, h2 = rng.choice([x, y]), rng.choice([x, y])
        if kind == 'T':
            there, back = ('set_T', dict(x=h1, T=350)), ('set_T', dict(x=h2, T=300))
        elif kind == 'P':
            there, back = ('set_P', dict(x=h1, P=200)), ('set_P', dict(x=h2, P=100))
        elif kind == 'phase':
            there, back = ('set_phase', dict(x=h1, p='g')), ('set_phase', dict(x=h2, p='l'))
        elif kind == 'flow':
            there, back = ('set_flow', dict(x=h1, p='l', c=2, v=12)), ('set_flow', dict(x=h2, p='l', c=2, v=4))
        else:
            there, back = ('scale', dict(x=h1, q=[2, 1])), ('scale', dict(x=h2, q=[1, 2]))
        r1, r2 = rng.choice([x, y]), rng.choice([x, y])
        ops.append(there)
        ops += [('read', dict(x=r1, prop=p)) for p in props]
        ops.append(back)
        ops += [('read', dict(x=r2, prop=p)) for p in props]
        ops += [('read', dict(x=(y if r2 == x else x), prop=p)) for p in props]
        out.append([dict(op=o, a=a) for o, a in ops])
    return out


def fix_phase_args(universe, paths):
    """set_flow needs the stream's current phase: replay symbolically is done in to_driver_ops."""
    return paths


def run(ctx):
    rng = random.Random(ctx.seed)
    quick = ctx.quick
    stats = dict(ok=0, ooc=0, truncated=0, ops={}, other_property=0)
    depth = 6 if quick else 8
    files = {'MC_PropCache.tla': MC_TEMPLATE % dict(name='MC_PropCache', dev='', depth=depth), 'MC_PropCache.cfg': MC_CFG}
    r, states = tlc.model_check('MC_PropCache.tla', 'MC_PropCache.cfg', dump=True, coverage=False, files=files, timeout=3400)
    if r.violated:
        ctx.violation('PropCache:MC:%s' % r.violated, 'memo protocol model violates %s' % r.violated,
                      dict(kind='mc', counterexample=r.counterexample()[:6000]))
    elif not r.ok:
        raise tlc.MachineryError(r.out[-3000:])
    ctx.note('MC PropCache (depth %d): %d distinct states, %d transitions' % (depth, r.distinct, r.generated))
    files = {'MC_PropCacheDev.tla': MC_TEMPLATE % dict(name='MC_PropCacheDev', dev='"proxy_shares_memo"', depth=8), 'MC_PropCacheDev.cfg': MC_CFG}
    rd, _ = tlc.model_check('MC_PropCacheDev.tla', 'MC_PropCacheDev.cfg', coverage=False, files=files, timeout=3400)
    if rd.violated not in ('Fresh', 'MemoSound'):
        raise tlc.MachineryError('the original proxy protocol should violate Fresh (vacuity guard), got %r' % rd.violated)
    dev_trace = [s.get('path') for s in rd.error_trace_states() if s.get('path') is not None]
    witness = sorted((s['path'] for s in states if s.get('path') and any(e['op'] == 'read' for e in s['path'])), key=repr)
    paths = [to_driver_ops(p) for p in (witness if not quick else rng.sample(witness, min(250, len(witness))))]
    if dev_trace:
        # the counterexample schedule of the original protocol, extended by reads on both streams
        longest = max(dev_trace, key=len)
        for order in (('a', 'b'), ('b', 'a')):
            for props in (('H', 'V', 'sigma'), ('sigma', 'V', 'H')):
                paths.append(to_driver_ops(longest + [dict(op='read', a=dict(x=n, p=p)) for n in order for p in props]))
    uni = ds.UNIVERSES['mc2']
    groups = [('mc2', sc.run_paths(uni, paths, 'W'))]
    groups.append(('mc2', sc.run_paths(uni, aba_paths(rng, 320 if quick else 4000), 'A')))
    ops = ['read'] * 12 + MUTATORS
    groups.append(('big', sc.run_random(ds.UNIVERSES['big'], rng, 50 if quick else 1500, 40, 'R', ops)))
    groups.append(('mc3', sc.run_random(ds.UNIVERSES['mc3'], rng, 50 if quick else 1500, 40, 'Q', ops)))
    n_tr = 0
    for un, traces in groups:
        defs, cfgc = ds.tla_constants(ds.UNIVERSES[un])
        v = tlc.validate_traces('Streams', defs, cfgc, traces, procs=16)
        sc.judge(ctx, un, traces, v, stats, {'read'})
        n_tr += len(traces)
    cov = dict(states=r.distinct, transitions=r.generated, depth=r.depth, traces_validated_against_impl=n_tr,
               steps_validated_in_contract=stats['ok'], reads_validated=stats['ops'].get('read', 0),
               steps_out_of_contract_ignored=stats['ooc'], traces_truncated_out_of_contract=stats['truncated'],
               per_operation_in_contract_steps=stats['ops'],
               rejections_on_operations_owned_by_sibling_checks=stats['other_property'],
               vacuity_guard='PropCache with the original proxy protocol (shared memo, private key) violates %s; its counterexample schedule is replayed on the real code' % rd.violated,
               exhaustive=False, mc_exhaustive_for_cfg=True, mc_depth_bound=depth,
               samples=[dict(ops=[[s['op'], s['a']] for s in groups[0][1][0]['steps'][:8]])],
               rule='MC: all interleavings (depth bound) of reads of 3 properties (one phase-independent) with T / phase / composition / total-flow '
                    'changes, proxy and link creation over 2 streams in PropCache.tla; every TLC witness path with a read is replayed on real streams; '
                    'random 40-step histories mix reads of 18 properties with every public mutator on 3-5 streams; each read is compared with a fresh stream')
    return 'model_checking', cov, ASSUME


def replay(ctx, data):
    return sc.replay(ctx, data, 'C14')
