"""C17 - reaction arithmetic agrees with applying the reactions and spares its operands."""
from harness.props import reaction_common as rc


def run(ctx):
    return rc.run(ctx, 'C17', rc.ALGEBRA, rc.SHAPE + ['react'])


def replay(ctx, data):
    return rc.replay(ctx, data, 'C17')
