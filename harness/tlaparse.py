"""Parser for the TLA+ value syntax that TLC prints (dumps, PrintT, -simulate files).

Values are mapped to Python:  <<..>> -> list, {..} -> frozenset (or list when
unhashable), [a |-> v, ..] -> dict, (k :> v @@ ..) -> dict, strings, ints, booleans.
"""
import re

_TOK = re.compile(r'''\s*(?:
    (?P<str>"(?:[^"\\]|\\.)*")|
    (?P<int>-?\d+)|
    (?P<op><<|>>|\|->|:>|@@|[\[\]\{\}\(\),])|
    (?P<id>[A-Za-z_][A-Za-z0-9_]*)
)''', re.X)


def tokenize(text):
    pos = 0
    out = []
    n = len(text)
    while pos < n:
        m = _TOK.match(text, pos)
        if not m:
            if text[pos:].strip() == '':
                break
            raise ValueError('cannot tokenize at %r' % text[pos:pos + 40])
        pos = m.end()
        if m.group('str') is not None:
            s = m.group('str')[1:-1]
            out.append(('str', s.replace('\\"', '"').replace('\\\\', '\\')))
        elif m.group('int') is not None:
            out.append(('int', int(m.group('int'))))
        elif m.group('op') is not None:
            out.append(('op', m.group('op')))
        else:
            out.append(('id', m.group('id')))
    return out


class _P:
    def __init__(self, toks):
        self.t = toks
        self.i = 0

    def peek(self):
        return self.t[self.i] if self.i < len(self.t) else (None, None)

    def next(self):
        tok = self.t[self.i]
        self.i += 1
        return tok

    def expect(self, op):
        k, v = self.next()
        if v != op:
            raise ValueError('expected %r got %r' % (op, v))

    def value(self):
        k, v = self.next()
        if k == 'str' or k == 'int':
            return v
        if k == 'id':
            if v == 'TRUE':
                return True
            if v == 'FALSE':
                return False
            return v  # model value
        if v == '<<':
            items = []
            while self.peek()[1] != '>>':
                items.append(self.value())
                if self.peek()[1] == ',':
                    self.next()
            self.next()
            return items
        if v == '{':
            items = []
            while self.peek()[1] != '}':
                items.append(self.value())
                if self.peek()[1] == ',':
                    self.next()
            self.next()
            try:
                return frozenset(items)
            except TypeError:
                return items
        if v == '[':
            d = {}
            while self.peek()[1] != ']':
                key = self.next()[1]
                self.expect('|->')
                d[key] = self.value()
                if self.peek()[1] == ',':
                    self.next()
            self.next()
            return d
        if v == '(':
            d = {}
            while True:
                key = self.value()
                self.expect(':>')
                d[_hashable(key)] = self.value()
                if self.peek()[1] == '@@':
                    self.next()
                    continue
                break
            self.expect(')')
            return d
        raise ValueError('unexpected token %r' % (v,))


def _hashable(v):
    if isinstance(v, list):
        return tuple(_hashable(x) for x in v)
    return v


def parse_value(text):
    p = _P(tokenize(text))
    v = p.value()
    return v


def parse_state(text):
    """Parse a conjunction '/\\ x = v /\\ y = w' as printed in dumps into a dict."""
    state = {}
    # split on '/\ name = ' at line starts
    parts = re.split(r'(?:^|\n)\s*/\\ ([A-Za-z_][A-Za-z0-9_]*) = ', '\n' + text)
    # parts[0] junk, then name, value, name, value...
    for i in range(1, len(parts) - 1, 2):
        state[parts[i]] = parse_value(parts[i + 1])
    return state


def parse_dump(path):
    """Yield state dicts from a file written by `tlc -dump`."""
    with open(path) as f:
        text = f.read()
    for block in re.split(r'\nState \d+:\n', '\n' + text):
        block = block.strip()
        if not block:
            continue
        yield parse_state(block)
