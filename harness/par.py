"""Process-parallel generation of recorded executions (the drivers are single-threaded Python; the sandbox has 16 cores).

pmap(func, jobs) calls func(*job) for every job in worker processes (fork) and returns the results in order.  Every job
carries its own seed, so the result does not depend on the number of workers."""
import multiprocessing as mp
import os

_CTX = mp.get_context('fork')


def _call(packed):
    func, job = packed
    return func(*job)


def pmap(func, jobs, procs=None):
    jobs = list(jobs)
    procs = procs or min(14, os.cpu_count() or 1)
    if len(jobs) < 8 or procs <= 1 or os.environ.get('VERIF_SERIAL'):
        return [func(*j) for j in jobs]
    with _CTX.Pool(procs) as pool:
        return pool.map(_call, [(func, j) for j in jobs], chunksize=max(1, len(jobs) // (procs * 8)))
