"""./check <property> --tier quick|thorough [--replay file]

exit 0: property held on everything explored (KNOWN-FINDING lines allowed)
exit 1: VIOLATION property=<id> replay=<path>
exit 2: machinery failure (never a verdict)
"""
import argparse
import importlib
import json
import os
import sys
import traceback

os.environ.setdefault('NUMBA_DISABLE_JIT', '1')
os.environ.setdefault('DISABLE_PREFERENCES', '1')
os.environ.setdefault('FILTER_WARNINGS', '1')
os.environ.setdefault('PYTHONHASHSEED', '0')
os.environ.setdefault('THERMOSTEAM_VERIF', '1')

VERIF = os.path.dirname(os.path.dirname(os.path.abspath(__file__)))
sys.path.insert(0, VERIF)
sys.path.insert(0, os.environ.get('VERIF_REPO', '/repo'))     # a scratch copy only when a seeded change is tried (tools/seedtest2.sh)

import warnings  # noqa: E402
warnings.filterwarnings('ignore')

from harness import core  # noqa: E402


def main():
    ap = argparse.ArgumentParser()
    ap.add_argument('prop')
    ap.add_argument('--tier', default=os.environ.get('VERIF_TIER', 'quick'), choices=['quick', 'thorough'])
    ap.add_argument('--seed', type=int, default=int(os.environ.get('VERIF_SEED', '0') or 0))
    ap.add_argument('--replay')
    args = ap.parse_args()
    prop = args.prop.upper()
    try:
        mod = importlib.import_module('harness.props.' + prop.lower())
        ctx = core.Ctx(prop, args.tier, args.seed)
        if args.replay:
            with open(args.replay) as f:
                data = json.load(f)
            if isinstance(data, dict):
                data['_path'] = args.replay
            rc = mod.replay(ctx, data)
            sys.exit(rc)
        level, coverage, assumptions = mod.run(ctx)
        rc = core.finish(ctx, level, coverage, assumptions)
        sys.exit(rc)
    except SystemExit:
        raise
    except BaseException:
        traceback.print_exc()
        print('# MACHINERY FAILURE in check %s (no verdict)' % prop, flush=True)
        sys.exit(2)


if __name__ == '__main__':
    main()
